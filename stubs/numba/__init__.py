"""Pure-Python stand-in for the parts of numba that xgcm.transform uses (numba is not installed in
this sandbox).  Only on sys.path inside the /verif checks.

guvectorize(signatures, layout, nopython=True) applies the kernel independently to every 1-D column
of the broadcast leading dimensions (this is numba's documented gufunc semantics and is listed as an
assumption in the evidence); the last parameter of the kernel is the output array.
"""
import re

import numpy as np

__version__ = "0.0-verif-stub"


class _T:
    def __init__(self, name):
        self.name = name

    def __getitem__(self, k):
        return self

    def __repr__(self):
        return self.name


boolean = _T("boolean")
float32 = _T("float32")
float64 = _T("float64")
int64 = _T("int64")


def _parse_layout(layout):
    lhs, rhs = layout.split("->")
    def side(t):
        return [tuple(x for x in g.split(",") if x) for g in re.findall(r"\(([^)]*)\)", t)]
    return side(lhs), side(rhs)


def guvectorize(signatures, layout, **kw):
    ins, outs = _parse_layout(layout)

    def deco(kernel):
        def wrapper(*args):
            args = [np.asarray(a) for a in args]
            if len(args) != len(ins):
                raise TypeError(f"expected {len(ins)} inputs, got {len(args)}")
            sizes = {}
            leads = []
            for a, core in zip(args, ins):
                k = len(core)
                if a.ndim < k:
                    raise ValueError("input operand does not have enough dimensions")
                for name, n in zip(core, a.shape[a.ndim - k:] if k else ()):
                    if sizes.setdefault(name, n) != n:
                        raise ValueError(f"core dimension {name} mismatch")
                leads.append(a.shape[: a.ndim - k])
            lead = np.broadcast_shapes(*leads) if leads else ()
            dtype = np.result_type(*[a.dtype for a, core in zip(args, ins) if core and a.dtype.kind == "f"] or [np.float64])
            out_core = tuple(sizes[n] for n in outs[0])
            out = np.empty(lead + out_core, dtype=dtype)
            bargs = []
            for a, core in zip(args, ins):
                k = len(core)
                bargs.append(np.broadcast_to(a, lead + a.shape[a.ndim - k:]) if k else np.broadcast_to(a, lead))
            for pos in np.ndindex(*lead):
                col = []
                for a, core in zip(bargs, ins):
                    v = a[pos]
                    col.append(np.array(v, copy=True) if len(core) else v[()] if isinstance(v, np.ndarray) else v)
                o = np.empty(out_core, dtype=dtype)
                kernel(*col, o)
                out[pos] = o
            return out
        wrapper.__wrapped__ = kernel
        wrapper.__name__ = getattr(kernel, "__name__", "gufunc")
        wrapper.py_func = kernel
        return wrapper
    return deco


def njit(*a, **k):
    if a and callable(a[0]):
        return a[0]
    return lambda f: f


jit = njit
