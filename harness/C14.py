"""C14 - metadata autoparsing recovers exactly the topology the conventions prescribe.

Functions under contract: comodo.get_all_axes / get_axis_coords / get_axis_positions_and_coords,
sgrid.assert_valid_sgrid / get_sgrid_grid / get_all_axes / get_axis_positions_and_coords,
metadata_parsers.parse_metadata / parse_comodo / parse_sgrid, the merge block of Grid.__init__.

Round-trip contract: a dataset *generated from* an explicit coords mapping by the convention's
annotation rule parses back to exactly that mapping (all coordinate lengths symbolic for COMODO:
lengths decide inner/outer), so Grid(ds) has the same axes and position->dimension assignment as
Grid(ds, coords=mapping, autoparse_metadata=False) and therefore computes the same results.
"""
from __future__ import annotations

import itertools
import json

import z3

from vp import symx, util
from vp.symx import oblige, zint
from vp.world import SymWorld, NativeWorld, model_values
from contracts import spec

PROPERTY = "C14"
META = {
    "level": "proof",
    "functions_under_contract": ["xgcm.comodo.get_all_axes", "xgcm.comodo.get_axis_coords", "xgcm.comodo.get_axis_positions_and_coords",
                                 "xgcm.sgrid.assert_valid_sgrid", "xgcm.sgrid.get_sgrid_grid", "xgcm.sgrid.get_all_axes", "xgcm.sgrid.get_axis_positions_and_coords",
                                 "xgcm.metadata_parsers.parse_metadata/parse_comodo/parse_sgrid", "xgcm.grid.Grid.__init__ (merge of parsed and user kwargs)"],
    "trusted_base": ["dataset model vp/mxr.py (dims, ds[name].attrs, len of a coordinate)", "CPython executes the parsers as written (attribute strings are concrete: str.replace/split run natively)", "z3 5.1 is sound"],
    "assumptions": ["COMODO: 1-3 axes, every position set containing center (<= 3 positions per axis), both c_grid_axis_shift signs on inner/outer, cell count n >= 2 (>= 3 with an inner position) symbolic",
                    "SGRID: 1-D / 2-D / 2-D+vertical / 3-D topologies, every padding word, with and without a space after ':'; dimension names enumerated from a list (name opacity is C13)"],
}

AXN = ["X", "Y", "Z"]
SHIFT = {"left": -0.5, "right": 0.5}


def comodo_structures(tier):
    out = []
    faces = ["left", "right", "inner", "outer"]
    # one axis: every subset of face positions of size <= 2 with every shift sign for inner/outer
    sets = [()] + [(f,) for f in faces] + list(itertools.combinations(faces, 2))
    if tier == "thorough":
        sets += list(itertools.combinations(faces, 3)) + [tuple(faces)]
    for st in sets:
        signs_opts = list(itertools.product((-0.5, 0.5), repeat=sum(1 for f in st if f in ("inner", "outer"))))
        for signs in signs_opts:
            it = iter(signs)
            pos = {"center": None}
            for f in st:
                pos[f] = SHIFT[f] if f in SHIFT else next(it)
            out.append({"part": "comodo", "axes": {"X": pos}, "order": "fwd"})
    # two / three axes, dimension order variations
    out.append({"part": "comodo", "axes": {"X": {"center": None, "left": -0.5}, "Y": {"center": None, "outer": -0.5}}, "order": "fwd"})
    out.append({"part": "comodo", "axes": {"X": {"center": None, "left": -0.5}, "Y": {"center": None, "outer": 0.5}}, "order": "rev"})
    out.append({"part": "comodo", "axes": {"Y": {"center": None, "right": 0.5}, "X": {"center": None, "inner": 0.5, "outer": -0.5}, "Z": {"center": None}}, "order": "fwd"})
    out.append({"part": "comodo", "axes": {"Z": {"center": None, "inner": -0.5}, "X": {"center": None, "left": -0.5, "right": 0.5}, "Y": {"center": None, "left": -0.5}}, "order": "rev"})
    for s in out:
        s["sid"] = "comodo;" + ";".join(f"{a}:" + ",".join(f"{p}{'' if v is None else ('+' if v > 0 else '-')}" for p, v in pm.items()) for a, pm in s["axes"].items()) + ";order=" + s["order"]
    return out


PADS = {"high": "left", "low": "right", "both": "inner", "none": "outer"}


def sgrid_structures(tier):
    out = []
    for space in (True, False):
        for pad in PADS:
            out.append({"part": "sgrid", "topo": "1d", "pads": [pad], "space": space})
        for px, py in itertools.product(PADS, repeat=2):
            out.append({"part": "sgrid", "topo": "2d", "pads": [px, py], "space": space})
        for pz in PADS:
            out.append({"part": "sgrid", "topo": "2d+v", "pads": ["low", "high", pz], "space": space})
            out.append({"part": "sgrid", "topo": "3d", "pads": ["both", "none", pz], "space": space})
    for conv in ("SGRID-0.3", "CF-1.8 SGRID-0.3", "CF-1.8 ACDD-1.3 SGRID-0.3", "sgrid-0.3, CF-1.6", "Sgrid-0.3", "SGRID-0.3 CF-1.8", "key:conventions"):
        out.append({"part": "sgrid", "topo": "2d", "pads": ["low", "both"], "space": True, "conventions": conv})
    out.append({"part": "sgrid", "topo": "3d", "pads": ["high", "low", "both"], "space": True, "names": "alt"})
    out.append({"part": "sgrid", "topo": "2d", "pads": ["none", "both"], "space": False, "names": "alt"})
    for s in out:
        s["sid"] = f"sgrid;{s['topo']};pads={'/'.join(s['pads'])};space={s['space']};names={s.get('names', 'std')}" + (f";conventions={s['conventions']}" if s.get("conventions") else "")
    return out


def structures(tier, seed):
    out = comodo_structures(tier) + sgrid_structures(tier)
    out.append({"part": "hierarchy", "sid": "hierarchy"})
    out.append({"part": "comodo", "axes": {"X": {"center": None, "left": -0.5}}, "order": "fwd", "sid": "canary;comodo;expect-right", "canary": True})
    return out


def comodo_dataset(w, s):
    """dataset annotated by the COMODO rule from the explicit mapping"""
    dims, cattrs, layout = {}, {}, {}
    ns = {}
    for a, pm in s["axes"].items():
        need3 = "inner" in pm
        n = w.size(f"n_{a}", 3 if need3 else 2)
        ns[a] = n
        layout[a] = {}
        for pos, shift in pm.items():
            d = f"{a.lower()}_{pos[0]}"
            layout[a][pos] = d
            dims[d] = spec.len_pos(pos, n) if w.native else symx.mk_int(spec.len_pos(pos, zint(n)))
            at = {"axis": a}
            if shift is not None:
                at["c_grid_axis_shift"] = shift
            cattrs[d] = at
    dims["time"] = w.size("n_time", 1)
    cattrs["time"] = {}
    order = list(dims)
    if s["order"] == "rev":
        order = order[::-1]
    dims = {d: dims[d] for d in order}
    ds = w.dataset(dims, coords={d: (d,) for d in dims}, coord_attrs=cattrs)
    return ds, layout, ns


def sgrid_dataset(w, s):
    std = s.get("names", "std") == "std"
    nn = (["xi_psi", "eta_psi", "s_w"], ["xi_rho", "eta_rho", "s_rho"]) if std else (["node_lon", "nlat", "lev_edge"], ["cell_lon", "clat", "lev"])
    nodes, cells = nn
    topo = s["topo"]
    k = {"1d": 1, "2d": 2, "2d+v": 2, "3d": 3}[topo]
    sep = ": " if s["space"] else ":"

    def spec_str(idx):
        return " ".join(f"{cells[i]}{sep}{nodes[i]} (padding{sep}{s['pads'][i]})" for i in idx)
    gat = {"cf_role": "grid_topology", "topology_dimension": k, "node_dimensions": " ".join(nodes[:k])}
    if topo == "3d":
        gat["volume_dimensions"] = spec_str(range(3))
    else:
        gat["face_dimensions"] = spec_str(range(k))
    if topo == "2d+v":
        gat["vertical_dimensions"] = spec_str([2])
    nax = 3 if topo in ("2d+v", "3d") else k
    layout, dims = {}, {}
    for i in range(nax):
        n = w.size(f"n_{AXN[i]}", 3)
        pos = PADS[s["pads"][i]]
        layout[AXN[i]] = {"center": cells[i], pos: nodes[i]}
        dims[cells[i]] = n
        dims[nodes[i]] = spec.len_pos(pos, n) if w.native else symx.mk_int(spec.len_pos(pos, zint(n)))
    conv = s.get("conventions") or "CF-1.6, SGRID-0.3"
    dattrs = {"conventions": "CF-1.6, SGRID-0.3"} if conv == "key:conventions" else {"Conventions": conv}
    # stale COMODO attributes on the dimensions must be ignored when SGRID is declared
    cat = {d: ({"axis": "X", "c_grid_axis_shift": -0.5} if (s.get("conventions") and d == nodes[0]) else ({"axis": "X"} if (s.get("conventions") and d == cells[0]) else {})) for d in dims}
    ds = w.dataset(dims, coords={d: (d,) for d in dims}, data_vars={"grid": ()}, var_attrs={"grid": gat}, attrs=dattrs, coord_attrs=cat)
    return ds, layout


def run_structure(s):
    mods = util.xgcm_modules()
    covers = {}
    canary = s.get("canary")

    def check_grid(w, ds, layout, tag=""):
        from xgcm import Grid
        try:
            g = Grid(ds, periodic=False)
        except (symx.EngineUnsupported, symx.InfeasiblePath, symx.PathAbort):
            raise
        except Exception as e:  # noqa
            import traceback
            oblige(f"autoparse-succeeds{tag}", False, detail=f"{type(e).__name__}: {e} @ {traceback.format_exc(limit=-1)[-200:]}")
            return
        oblige(f"autoparse-succeeds{tag}", True)
        covers["parsed"] = covers.get("parsed", 0) + 1
        oblige(f"axes-are-exactly-those-prescribed{tag}", set(g.axes) == set(layout), detail=f"{list(g.axes)} vs {list(layout)}")
        want = layout
        if canary:
            want = {"X": {"center": layout["X"]["center"], "right": layout["X"]["left"]}}
        for a in layout:
            if a in g.axes:
                oblige(f"position->dimension-assignment:{a}{tag}", dict(g.axes[a].coords) == dict(want[a]), detail=f"{dict(g.axes[a].coords)} vs {want[a]}")
        g2 = Grid(ds, coords={a: dict(pm) for a, pm in layout.items()}, periodic=False, autoparse_metadata=False)
        same = all(a in g.axes and dict(g.axes[a]._default_shifts) == dict(g2.axes[a]._default_shifts) and g.axes[a].boundary == g2.axes[a].boundary for a in layout)
        oblige(f"same-grid-as-from-the-explicit-mapping{tag}", same)
        # user coords together with parsed ones are rejected, not merged
        try:
            Grid(ds, coords={a: dict(pm) for a, pm in layout.items()}, periodic=False)
            rej = False
        except ValueError:
            rej = True
        except (symx.EngineUnsupported, symx.InfeasiblePath, symx.PathAbort):
            raise
        except Exception:  # noqa
            rej = False
        oblige(f"user-coords-plus-parsed-coords-rejected{tag}", rej)

    def body():
        w = SymWorld()
        if s["part"] == "comodo":
            ds, layout, ns = comodo_dataset(w, s)
            check_grid(w, ds, layout)
        elif s["part"] == "sgrid":
            ds, layout = sgrid_dataset(w, s)
            check_grid(w, ds, layout)
        else:
            # hierarchy: SGRID when declared, COMODO otherwise
            sg = {"part": "sgrid", "topo": "2d", "pads": ["low", "high"], "space": True}
            ds, layout = sgrid_dataset(w, sg)
            # add contradicting COMODO attributes: they must be ignored when SGRID is declared
            for d in ds.coords:
                ds.coords[d]._attrs = {"axis": "Z"}
            check_grid(w, ds, layout, tag="[sgrid-declared]")
            ds.attrs = {"Conventions": "CF-1.6"}
            for d in ds.coords:
                ds.coords[d]._attrs = {}
            co = {"part": "comodo", "axes": {"X": {"center": None, "outer": -0.5}}, "order": "fwd"}
            w2 = SymWorld()
            ds2, layout2, _ = comodo_dataset(w2, co)
            ds2.attrs = {"Conventions": "CF-1.8"}
            check_grid(w2, ds2, layout2, tag="[no-sgrid-declared]")
            from xgcm import sgrid as SG
            oblige("sgrid-detected-iff-declared", SG.assert_valid_sgrid(ds2) is False and SG.assert_valid_sgrid(sgrid_dataset(SymWorld(), sg)[0]) is True)
    with util.patched(*util.std_patches(mods)):
        rep = symx.explore(body, s["sid"])
    obs = []
    for name, ob in rep.merged().items():
        rec = {"fn": f"metadata_parsers.parse_{s['part'] if s['part'] != 'hierarchy' else 'metadata'}", "clause": name, "status": ob.status, "time": ob.time, "detail": ob.detail}
        if ob.status == "failed":
            rec["witness"] = {"structure": {k: v for k, v in s.items()}, "model": {k: v for k, v in model_values(ob.model).items() if k != "__funcs__"}}
        if canary:
            if name.startswith("position->dimension") and ob.status == "failed":
                rec["canary"] = True
                obs.append(rec)
            continue
        obs.append(rec)
    return {"sid": s["sid"], "obligations": obs, "paths": rep.paths, "queries": rep.queries,
            "solver_time": rep.solver_time, "engine_errors": rep.engine_errors, "covers": covers}


REQUIRED_COVERS = ["parsed"]


def replay(ob):
    import warnings

    warnings.simplefilter("ignore")
    import xgcm
    wit = ob.get("witness") or {}
    s = wit["structure"]
    m = dict(wit.get("model", {}))
    for k in list(m):
        if k.startswith("n_") and isinstance(m[k], int) and m[k] > 8:
            m[k] = 8
    nw = NativeWorld(m)
    if s["part"] == "comodo":
        ds, layout, _ = comodo_dataset(nw, s)
    elif s["part"] == "sgrid":
        ds, layout = sgrid_dataset(nw, s)
    else:
        return {"confirmed": False, "text": "hierarchy clause: see the symbolic run"}
    text = [f"dataset generated from {layout} (sizes {nw.consts})"]
    try:
        g = xgcm.Grid(ds, periodic=False)
    except Exception as e:  # noqa
        return {"confirmed": True, "text": "\n".join(text + [f"Grid(ds) raised {type(e).__name__}: {e}"])}
    got = {a: dict(ax.coords) for a, ax in g.axes.items()}
    if got != {a: dict(pm) for a, pm in layout.items()}:
        return {"confirmed": True, "text": "\n".join(text + [f"Grid(ds) parsed {got}"])}
    return {"confirmed": False, "text": "\n".join(text + ["parsed as prescribed"])}
