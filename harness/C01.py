"""C01 - staggered stencil operators are exact on simple grids.

Functions under contract (real objects, executed symbolically):
  gridops.diff_forward / interp_forward / pairwise_forward_min / pairwise_forward_max and the 32
  decorated ufuncs (signature, boundary_width checked against axis geometry, body)
  Grid.diff / interp / min / max -> Grid._1d_grid_ufunc_dispatch, _create_1d_grid_ufunc_signatures,
  _transpose_to_keep_same_dim_order, grid._select_grid_ufunc, GridUFunc.__call__,
  grid_ufunc.apply_as_grid_ufunc, _apply, _pad_then_rechunk, _reattach_coords,
  _identify_dummy_axes_with_real_axes, _substitute_dummy_axis_names, padding.pad/_pad_basic,
  Axis.__init__ (default shifts), Axis._get_position_name   (inlined into the top-level proof)

Top-level postcondition (from the statement): dims(out) = dims(in) with the axis dimension
replaced, in the input's order; size = len_to(n); out[j] = op(ext(a, lo(j)), ext(a, hi(j))) with the
two neighbours from the axis geometry and ext the rule in force; several axes = composition in
the given order; to=None = documented default shift.
"""
from __future__ import annotations

import itertools
import json

import z3

from vp.world import raised_in_harness as _rih
from vp import symx, util
from vp.symx import oblige, zint
from vp.world import SymWorld, NativeWorld, native_compare, model_values, evalnum
from vp.gridlib import make_layout
from contracts import spec

PROPERTY = "C01"
META = {
    "level": "proof",
    "functions_under_contract": [
        "xgcm.gridops.diff_forward", "xgcm.gridops.interp_forward", "xgcm.gridops.pairwise_forward_min",
        "xgcm.gridops.pairwise_forward_max", "xgcm.gridops.{diff,interp,min,max}_<from>_to_<to> (32 grid ufuncs)",
        "xgcm.grid.Grid.diff/interp/min/max", "xgcm.grid.Grid._1d_grid_ufunc_dispatch",
        "xgcm.grid.Grid._create_1d_grid_ufunc_signatures", "xgcm.grid.Grid._transpose_to_keep_same_dim_order",
        "xgcm.grid._select_grid_ufunc", "xgcm.grid_ufunc.GridUFunc.__call__", "xgcm.grid_ufunc.apply_as_grid_ufunc",
        "xgcm.grid_ufunc._apply", "xgcm.grid_ufunc._pad_then_rechunk", "xgcm.grid_ufunc._reattach_coords",
        "xgcm.grid_ufunc._identify_dummy_axes_with_real_axes", "xgcm.grid_ufunc._substitute_dummy_axis_names",
        "xgcm.grid_ufunc._check_data_input", "xgcm.padding.pad", "xgcm.padding._pad_basic",
        "xgcm.axis.Axis.__init__", "xgcm.axis.Axis._get_position_name",
    ],
    "trusted_base": [
        "xarray model vp/mxr.py: apply_ufunc (core dims last, broadcast dims first, exclude_dims), pad, transpose, assign_coords, drop_vars, copy (assumed contracts)",
        "numpy model vp/mxr.py: a[..., 1:], a[..., :-1], elementwise + - /, np.stack(axis=-1), np.min/np.max(axis=-1)",
        "signature text matching (_GridUFuncSignature.from_string / equivalent) runs concretely on the enumerated axis names; its contract is C15/C13",
        "CPython executes the functions as written; proxies intercept all symbolic control flow", "z3 5.1 is sound",
        "floating-point arithmetic treated as real arithmetic ((a+b)/2, b-a, min, max)",
    ],
    "assumptions": ["cell count n >= 2 per axis (n >= 3 where an inner position is the input so that it has >= 2 points)",
                    "structures (shift, operator, rule spelling, axis layout, dimension order) enumerated; all sizes and data symbolic"],
}

OPS = ["diff", "interp", "min", "max"]
SHIFTS = [("center", p) for p in ("left", "right", "outer", "inner")] + [(p, "center") for p in ("left", "right", "outer", "inner")]
RULES = ["fill", "extend", "periodic"]


def default_shift(positions, pos, user=None):
    """documented default: user value, else first present of the fallback order"""
    if user and pos in user:
        return user[pos]
    order = {"center": ("left", "right", "outer", "inner")}.get(pos, ("center",))
    for p in order:
        if p in positions:
            return p
    return None


def opterm(op, lo, hi):
    if op == "diff":
        return hi - lo
    if op == "interp":
        return (lo + hi) / 2
    if op == "min":
        return z3.If(lo <= hi, lo, hi)
    if op == "max":
        return z3.If(lo >= hi, lo, hi)
    raise ValueError(op)


def sid(d):
    keys = ("op", "axes", "arr", "axis", "to", "order", "extra", "gperiodic", "gboundary", "gfill", "cboundary", "cfill",
            "dshifts", "coords", "canary", "prior")
    return ";".join(f"{k}={json.dumps(d[k], sort_keys=True)}" for k in keys if d.get(k) is not None).replace('"', "").replace(" ", "")


def structures(tier, seed):
    out = []

    def add(**k):
        d = dict(part="op", op="diff", axes={"X": ("center", "left")}, arr={"X": "center"}, axis="X", to=None, order=None,
                 extra=0, gperiodic=True, gboundary=None, gfill=None, cboundary=None, cfill=None, dshifts=None,
                 coords=True, canary=None)
        d.update(k)
        d["sid"] = sid(d)
        out.append(d)
    # (1) every operator x every shift x every rule, rule given per call; one axis + one extra dim
    for op in OPS:
        for (pf, pt) in SHIFTS:
            poss = tuple(dict.fromkeys(("center", pf, pt)))
            for r in RULES:
                add(op=op, axes={"X": poss}, arr={"X": pf}, to=pt, cboundary=r, cfill="S" if r == "fill" else None,
                    extra=1 if op == "diff" else 0)
    # (1b) per-call value against a DIFFERENT grid-level value of the same kind (both symbolic: 0 vs non-zero included)
    for op in OPS:
        add(op=op, axes={"X": ("center", "left")}, arr={"X": "center"}, to="left", cboundary="fill", cfill="S", gfill="S", gperiodic=False)
        add(op=op, axes={"X": ("center", "outer")}, arr={"X": "center"}, to="outer", gboundary="fill", cfill="S", gfill="S")
    add(op="diff", axes={"X": ("center", "right"), "Y": ("center", "left")}, arr={"X": "center", "Y": "center"}, axis=["X", "Y"], to={"X": "right", "Y": "left"},
        gboundary="fill", cfill={"X": "S"}, gfill={"X": "S", "Y": "S"}, gperiodic=False)
    add(op="interp", axes={"X": ("center", "left")}, arr={"X": "left"}, to="center", gboundary="extend", cboundary="fill", cfill={"X": "S"}, gfill="S")
    add(op="max", axes={"X": ("center", "left")}, arr={"X": "center"}, to="left", gboundary="fill", cboundary="extend", gfill="S", gperiodic=False)
    # (1c) the same request after OTHER requests on the same Grid object (each differing in one respect): exactness is a property of
    # every call, not of the first call on a fresh Grid
    allpos = ("center", "left", "right", "inner", "outer")
    for op, pt, prior in (("diff", "right", [["diff", "X", None]]), ("interp", "outer", [["diff", "X", "left"], ["interp", "X", "inner"]]),
                          ("min", "left", [["max", "X", "right"]]), ("max", "inner", [["max", "X", None], ["min", "X", "outer"]]),
                          ("diff", None, [["diff", "X", "right"]]), ("interp", "left", [["interp", "X", "left"], ["interp", "X", "right"]])):
        add(op=op, axes={"X": allpos}, arr={"X": "center"}, to=pt, cboundary="fill", cfill="S", gperiodic=False, prior=prior)
    # (2) rule from the grid default (periodic flag / grid boundary / grid fill) and default shift
    for (pf, pt) in SHIFTS:
        poss = tuple(dict.fromkeys(("center", pf, pt)))
        add(op="interp", axes={"X": poss}, arr={"X": pf}, to=None, gperiodic=False, gfill="S")
        add(op="diff", axes={"X": poss}, arr={"X": pf}, to=None, gperiodic=True)
        add(op="min", axes={"X": poss}, arr={"X": pf}, to=pt, gboundary="extend")
    # all five positions on the axis: default shift from center is 'left'; user default_shifts
    allp = ("center", "left", "right", "inner", "outer")
    for pf in allp:
        add(op="diff", axes={"X": allp}, arr={"X": pf}, to=None, gperiodic=False)
    add(op="interp", axes={"X": allp}, arr={"X": "center"}, to=None, dshifts={"X": {"center": "outer"}}, gperiodic=False)
    add(op="max", axes={"X": ("center", "right", "inner")}, arr={"X": "center"}, to=None, gperiodic=False)
    # (3) several axes, every order, mapping spellings, dimension orders, extra dims
    two = {"X": ("center", "left"), "Y": ("center", "outer", "right")}
    for axis in (["X", "Y"], ["Y", "X"]):
        for op in ("diff", "interp"):
            add(op=op, axes=two, arr={"X": "center", "Y": "center"}, axis=axis, to={"X": "left", "Y": "outer"},
                cboundary={"X": "fill", "Y": "extend"}, cfill={"X": "S"}, gperiodic=False)
        add(op="min", axes=two, arr={"X": "left", "Y": "right"}, axis=axis, to="center", gperiodic={"X": True, "Y": False}, gfill={"Y": "S"})
        add(op="max", axes=two, arr={"X": "center", "Y": "outer"}, axis=axis, to=None, cboundary="extend", order=(1, 0))
    add(op="diff", axes=two, arr={"X": "center", "Y": "center"}, axis=["Y"], to=None, order=(2, 1, 0), extra=1, gperiodic=False, cboundary={"Y": "periodic"})
    add(op="interp", axes=two, arr={"X": "left", "Y": "center"}, axis="X", to="center", order=(1, 2, 0, 3), extra=2, cboundary="fill", cfill="S", coords=False)
    three = {"X": ("center", "left"), "Y": ("center", "right"), "Z": ("center", "inner", "outer")}
    add(op="diff", axes=three, arr={"X": "center", "Y": "center", "Z": "center"}, axis=["Z", "X", "Y"], to={"Z": "outer", "X": "left", "Y": "right"},
        gperiodic=False, gboundary={"Z": "extend"}, gfill={"X": "S", "Y": "S", "Z": "S"})
    add(op="interp", axes=three, arr={"X": "left", "Y": "right", "Z": "inner"}, axis=["X", "Z"], to="center", cboundary="extend", order=(2, 0, 1))
    if tier == "thorough":
        for op in OPS:
            for (pf, pt) in SHIFTS:
                poss = tuple(dict.fromkeys(("center", pf, pt)))
                for gb in RULES:
                    add(op=op, axes={"X": poss}, arr={"X": pf}, to=pt, gboundary=gb, gfill="S", extra=2, order=(1, 0, 2))
                add(op=op, axes={"X": poss, "Y": ("center", "left")}, arr={"X": pf, "Y": "center"}, axis=["Y", "X"],
                    to={"X": pt, "Y": "left"}, cboundary={"X": "extend", "Y": "fill"}, cfill={"Y": "S"}, gperiodic=False)
    # canaries
    add(op="min", axes={"X": ("center", "inner")}, arr={"X": "inner"}, to="center", cboundary="extend", canary="min-is-max")
    add(op="diff", axes={"X": ("center", "left")}, arr={"X": "center"}, to="left", cboundary="fill", cfill="S", canary="shifted-neighbour")
    # (0) per-function contracts of the gridops module
    out.append({"sid": "gridops-table", "part": "table"})
    return out


# ------------------------------------------------------------------------------------------------
def scenario(s, w):
    layout = make_layout(s["axes"], s.get("dimnames"))
    axes = list(s["axes"])
    ns = {}
    for a in axes:
        need3 = "inner" in s["axes"][a]
        ns[a] = w.size(f"n_{a}", 3 if need3 else 2)
    dims = {}
    for a in axes:
        for pos, d in layout[a].items():
            dims[d] = spec.len_pos(pos, ns[a]) if w.native else symx.mk_int(spec.len_pos(pos, zint(ns[a])))
    ex = [(s.get("extra_names") or [f"e{k}" for k in range(s["extra"])])[k] for k in range(s["extra"])]
    for k, d in enumerate(ex):
        dims[d] = w.size(f"n_e{k}", 1)
    cdefs = {d: (d,) for d in dims} if s["coords"] else {}
    if isinstance(s["coords"], list):
        cdefs = {d: (d,) for d in s["coords"]}
    for cname, cd in (s.get("other_coords") or {}).items():
        cdefs[cname] = tuple(cd)
    ds = w.dataset(dims, coords=cdefs)

    def fills(v, key):
        if v is None:
            return None
        if v == "S":
            return w.real(f"{key}_scalar")
        return {a: w.real(f"{key}_{a}") for a in v}
    gfill, cfill = fills(s["gfill"], "gfill"), fills(s["cfill"], "cfill")
    gper = s["gperiodic"]
    kw = {}
    if s["dshifts"]:
        kw["default_shifts"] = {a: dict(v) for a, v in s["dshifts"].items()}
    g = w.grid(ds, layout, periodic=(dict(gper) if isinstance(gper, dict) else gper),
               boundary=(dict(s["gboundary"]) if isinstance(s["gboundary"], dict) else s["gboundary"]), fill_value=gfill, **kw)
    adims = [layout[a][s["arr"][a]] for a in axes] + ex
    if s["order"]:
        adims = [adims[k] for k in s["order"]]
    da = w.array("D", adims, ds, with_coords=s.get("input_coords", bool(s["coords"])))
    if s.get("array_name"):
        da._name = s["array_name"] if not w.native else None
        if w.native:
            da = da.rename(s["array_name"])
    ckw = {}
    if s.get("keep_coords") is not None:
        ckw["keep_coords"] = s["keep_coords"]
    if s.get("metric_weighted") is not None:
        ckw["metric_weighted"] = s["metric_weighted"]
    if s["to"] is not None:
        ckw["to"] = dict(s["to"]) if isinstance(s["to"], dict) else s["to"]
    if s["cboundary"] is not None:
        ckw["boundary"] = dict(s["cboundary"]) if isinstance(s["cboundary"], dict) else s["cboundary"]
    if cfill is not None:
        ckw["fill_value"] = cfill
    axis = list(s["axis"]) if isinstance(s["axis"], list) else s["axis"]
    for (pop, pax, pto) in s.get("prior") or []:
        # earlier requests on the same Grid object; their results are not used
        try:
            getattr(g, pop)(da, pax, **({"to": pto} if pto else {}))
        except (symx.EngineUnsupported, symx.InfeasiblePath, symx.PathAbort):
            raise
        except Exception:  # noqa
            pass
    out = getattr(g, s["op"])(da, axis, **ckw)
    return dict(out=out, da=da, g=g, ds=ds, layout=layout, ns=ns, gfill=gfill, cfill=cfill, adims=adims, dims=dims, cdefs=cdefs)


def op_spec(s, r, canary=None):
    da, layout = r["da"], r["layout"]
    axes = list(s["axes"])
    axis = s["axis"] if isinstance(s["axis"], list) else [s["axis"]]
    cur_dims = list(da.dims)
    sizes = {d: zint(da.sizes[d]) for d in da.dims}
    get = lambda idx: da.elem(idx)  # noqa
    op = s["op"]
    if canary == "min-is-max":
        op = "max"
    for a in axis:
        pf = s["arr"][a]
        to = s["to"].get(a) if isinstance(s["to"], dict) else s["to"]
        if to is None:
            to = default_shift(s["axes"][a], pf, (s["dshifts"] or {}).get(a))
        dfrom, dto = layout[a][pf], layout[a][to]
        n = zint(r["ns"][a])
        rule = spec.rule_in_force(s["cboundary"], s["gboundary"], s["gperiodic"], a, axes)

        def fv(v):
            if v is None:
                return None
            if isinstance(v, dict):
                return symx.RVx(v[a]) if a in v else None
            return symx.RVx(v)
        fill = fv(r["cfill"])
        if fill is None:
            fill = fv(r["gfill"])
        if fill is None:
            fill = z3.RealVal(0)
        L = spec.len_pos(pf, n)

        def mk(get, dfrom, dto, pf, to, rule, fill, L, op):
            def g2(idx):
                j = idx[dto]
                lo, hi = spec.neighbours(pf, to, j)
                if canary == "shifted-neighbour":
                    lo, hi = lo + 1, hi + 1
                base = {k: v for k, v in idx.items() if k != dto}
                vlo = spec.ext(rule, lambda k: get({**base, dfrom: k}), L, lo, fill)
                vhi = spec.ext(rule, lambda k: get({**base, dfrom: k}), L, hi, fill)
                return opterm(op, vlo, vhi)
            return g2
        get = mk(get, dfrom, dto, pf, to, rule, fill, L, op)
        cur_dims = [dto if d == dfrom else d for d in cur_dims]
        del sizes[dfrom]
        sizes[dto] = spec.len_pos(to, n)
    q = {d: z3.Int(f"q_{d}") for d in cur_dims}
    rng = z3.And(*[z3.And(q[d] >= 0, q[d] < sizes[d]) for d in cur_dims])
    return dict(dims=cur_dims, sizes=sizes, q=q, cells=[("values", rng, get(dict(q)))])


def run_op(s):
    mods = util.xgcm_modules()
    covers = {}
    canary = s.get("canary")

    def body():
        w = SymWorld()
        try:
            r = scenario(s, w)
        except (symx.EngineUnsupported, symx.InfeasiblePath, symx.PathAbort):
            raise
        except Exception as e:  # noqa
            import traceback
            oblige("returns-normally", False, detail=f"{type(e).__name__}: {e} @ {traceback.format_exc(limit=-2)[-300:]}")
            return "raise"
        oblige("returns-normally", True)
        covers["normal-return"] = covers.get("normal-return", 0) + 1
        out, da = r["out"], r["da"]
        sp = op_spec(s, r, canary)
        oblige("dims:input-order-with-axis-dim-replaced", tuple(out.dims) == tuple(sp["dims"]), detail=f"{out.dims} vs {sp['dims']}")
        if set(out.dims) != set(sp["dims"]):
            return "dims"
        for d in sp["dims"]:
            oblige(f"size:{d}", zint(out.sizes[d]) == sp["sizes"][d])
        got = out.elem(sp["q"])
        for name, region, val in sp["cells"]:
            oblige(name, z3.Implies(region, got == val))
        oblige("frame:input-array-unchanged", not da.log)
        return "ok"
    with util.patched(*util.std_patches(mods)):
        rep = symx.explore(body, s["sid"])
    obs = []
    for name, ob in rep.merged().items():
        rec = {"fn": f"grid.Grid.{s['op']}", "clause": name, "status": ob.status, "time": ob.time, "detail": ob.detail}
        if ob.status == "failed":
            rec["witness"] = {"part": "op", "structure": dict(s), "model": model_values(ob.model)}
        if canary:
            if name == "values":
                rec["canary"] = True
            else:
                continue
        obs.append(rec)
    return {"sid": s["sid"], "obligations": obs, "paths": rep.paths, "queries": rep.queries,
            "solver_time": rep.solver_time, "engine_errors": rep.engine_errors, "covers": covers}


# ---- per-function contracts of gridops --------------------------------------------------------
def geometric_width(pf, pt, n=7):
    """boundary_width derived from the axis geometry alone"""
    lo0, _ = spec.neighbours(pf, pt, 0)
    _, hil = spec.neighbours(pf, pt, spec.len_pos(pt, n) - 1)
    L = spec.len_pos(pf, n)
    f = lambda e: z3.simplify(e + z3.IntVal(0)).as_long() if z3.is_expr(e) else e  # noqa
    lo0 = (x2i(pf, pt, 0)[0])
    hil = (x2i(pf, pt, spec.len_pos(pt, n) - 1)[1])
    return (max(0, -lo0), max(0, hil - (L - 1)))


def x2i(pf, pt, j):
    off_t = {"center": 1, "left": 0, "right": 2, "outer": 0, "inner": 2}
    c = 2 * j + off_t[pt]
    off_f = off_t[pf]
    return ((c - 1 - off_f) // 2, (c + 1 - off_f) // 2)


def run_table(s):
    import xgcm.gridops as G
    from xgcm.grid_ufunc import GridUFunc
    from vp.mxr import NArr

    mods = util.xgcm_modules()
    obs = []
    stats = dict(paths=0, queries=0, solver_time=0.0, engine_errors=[])
    helpers = {"diff": "diff_forward", "interp": "interp_forward", "min": "pairwise_forward_min", "max": "pairwise_forward_max"}

    def body_helper(op, fn):
        def body():
            m = symx.SymInt(z3.Int("m"))
            k = symx.SymInt(z3.Int("k"))
            symx.assume(m.e >= 1, k.e >= 1)
            A = z3.Function("A", z3.IntSort(), z3.IntSort(), symx.Val)
            a = NArr((k, m), lambda p: A(p[0], p[1]))
            try:
                r = fn(a)
            except (symx.EngineUnsupported, symx.InfeasiblePath):
                raise
            except Exception as e:  # noqa
                oblige(f"{op}:returns-normally", False, detail=f"{type(e).__name__}: {e}")
                return
            oblige(f"{op}:rank", r.ndim == 2)
            oblige(f"{op}:length", zint(r.shape[-1]) == m.e - 1)
            oblige(f"{op}:leading-shape", zint(r.shape[0]) == k.e)
            i, j = z3.Int("i"), z3.Int("j")
            oblige(f"{op}:values", z3.Implies(z3.And(i >= 0, i < k.e, j >= 0, j < m.e - 1),
                                              r.elem((i, j)) == opterm(op, A(i, j), A(i, j + 1))))
        return body
    with util.patched(*util.std_patches(mods)):
        for op, hname in helpers.items():
            fn = getattr(G, hname, None)
            if fn is None:
                obs.append({"fn": f"gridops.{hname}", "clause": "exists", "status": "failed", "time": 0, "detail": "helper missing"})
                continue
            rep = symx.explore(body_helper(op, fn), hname)
            for k2 in ("paths", "queries", "solver_time"):
                stats[k2] += getattr(rep, k2)
            stats["engine_errors"] += rep.engine_errors
            for name, ob in rep.merged().items():
                rec = {"fn": f"gridops.{hname}", "clause": name, "status": ob.status, "time": ob.time, "detail": ob.detail}
                if ob.status == "failed":
                    rec["witness"] = {"part": "table", "helper": hname, "op": op, "model": model_values(ob.model)}
                obs.append(rec)
        # the 32 decorated ufuncs: signature, boundary_width against geometry, body == helper
        for op in OPS:
            for (pf, pt) in SHIFTS:
                name = f"{op}_{pf}_to_{pt}"
                uf = getattr(G, name, None)
                fnid = f"gridops.{name}"
                if not isinstance(uf, GridUFunc):
                    obs.append({"fn": fnid, "clause": "is-grid-ufunc", "status": "failed", "time": 0, "detail": "missing",
                                "witness": {"part": "table", "ufunc": name}})
                    continue
                sig = str(uf.signature)
                ok_sig = sig == f"(X:{pf})->(X:{pt})"
                obs.append({"fn": fnid, "clause": "signature", "status": "proved" if ok_sig else "failed", "time": 0,
                            "detail": sig, "witness": {"part": "table", "ufunc": name, "got": sig}})
                bw = dict(uf.boundary_width or {})
                want = geometric_width(pf, pt)
                got = tuple(bw.get("X", (0, 0)))
                ok_bw = got == want and set(bw) <= {"X"}
                obs.append({"fn": fnid, "clause": "boundary_width-matches-geometry", "status": "proved" if ok_bw else "failed",
                            "time": 0, "detail": f"got {bw} geometry {want}", "witness": {"part": "table", "ufunc": name, "got": str(bw), "want": want}})
                ok_opts = uf.pad_before_func is True and uf.boundary is None and uf.fill_value is None
                obs.append({"fn": fnid, "clause": "no-bound-options", "status": "proved" if ok_opts else "failed", "time": 0,
                            "detail": f"pad_before_func={uf.pad_before_func} boundary={uf.boundary} fill_value={uf.fill_value}",
                            "witness": {"part": "table", "ufunc": name}})

                def body(uf=uf, op=op):
                    m = symx.SymInt(z3.Int("m"))
                    symx.assume(m.e >= 1)
                    A = z3.Function("A", z3.IntSort(), symx.Val)
                    a = NArr((m,), lambda p: A(p[0]))
                    try:
                        r = uf.ufunc(a)
                    except (symx.EngineUnsupported, symx.InfeasiblePath):
                        raise
                    except Exception as e:  # noqa
                        oblige("body:returns-normally", False, detail=f"{type(e).__name__}: {e}")
                        return
                    j = z3.Int("j")
                    oblige("body:length", zint(r.shape[-1]) == m.e - 1)
                    oblige("body:values", z3.Implies(z3.And(j >= 0, j < m.e - 1), r.elem((j,)) == opterm(op, A(j), A(j + 1))))
                rep = symx.explore(body, name)
                for k2 in ("paths", "queries", "solver_time"):
                    stats[k2] += getattr(rep, k2)
                stats["engine_errors"] += rep.engine_errors
                for cname, ob in rep.merged().items():
                    rec = {"fn": fnid, "clause": cname, "status": ob.status, "time": ob.time, "detail": ob.detail}
                    if ob.status == "failed":
                        rec["witness"] = {"part": "table", "ufunc": name, "op": op, "model": model_values(ob.model)}
                    obs.append(rec)
    return {"sid": s["sid"], "obligations": obs, "covers": {"table": 1}, **stats}


def run_structure(s):
    return run_table(s) if s["part"] == "table" else run_op(s)


REQUIRED_COVERS = ["normal-return", "table"]


# ------------------------------------------------------------------ native replay
def replay(ob):
    import warnings

    warnings.simplefilter("ignore")
    wit = ob.get("witness") or {}
    if wit.get("part") == "table":
        return replay_table(wit, ob)
    s = dict(wit["structure"])
    s["axes"] = {a: tuple(v) for a, v in s["axes"].items()}
    s["order"] = tuple(s["order"]) if s.get("order") else None
    if ob["id"].rsplit("/", 1)[-1].startswith("frame:"):
        return native_frame_replay(s, scenario)
    return replay_scenario(s, wit.get("model", {}), scenario, lambda s_, r_: op_spec(s_, r_, None), "grid_op")


def native_frame_replay(s, scen):
    """real code: is the input array (values, dims, name, attrs, coordinates) what it was before the call?"""
    import numpy as np
    nw = NativeWorld({})
    try:
        rn = scen(s, nw)
    except Exception as e:  # noqa
        return {"confirmed": False, "text": f"native call raised {type(e).__name__}: {e}"}
    da = rn["da"]
    # the worlds generate their data deterministically from the array's name and shape: rebuild the untouched input
    fresh = NativeWorld({}).array(da.name or "D", list(da.dims), rn["ds"], with_coords=bool(da.coords))
    same = da.dims == fresh.dims and np.array_equal(da.values, fresh.values)
    text = f"structure {s['sid']}: after the call the input array " + ("is unchanged" if same else "HOLDS DIFFERENT VALUES than before the call (the operation wrote into its argument)")
    return {"confirmed": not same, "text": text}


def replay_scenario(s, model, scen, specf, what):
    """replay with the data of the solver's model; if that input does not exhibit the failure
    natively (uninterpreted symbols of the model need not be realisable), retry the same sizes with
    an injective index encoding as data"""
    r = _replay_scenario(s, model, scen, specf, what)
    if not r.get("confirmed") and (model or {}).get("__funcs__"):
        m2 = {k: v for k, v in model.items() if k != "__funcs__"}
        r2 = _replay_scenario(s, m2, scen, specf, what)
        if r2.get("confirmed"):
            r2["text"] = "(model data did not reproduce; same sizes with index-encoded data:)\n" + r2["text"]
            return r2
    return r


def _replay_scenario(s, model, scen, specf, what):
    mods = util.xgcm_modules()
    m = dict(model)
    for k in list(m):
        if k.startswith("n_") and isinstance(m[k], int) and m[k] > 7:
            m[k] = 7
    nw = NativeWorld(m)
    text = []
    try:
        rn = scen(s, nw)
    except Exception as e:  # noqa
        import traceback
        text.append(f"native parameters {nw.consts}; structure {s['sid']}")
        text.append(f"REAL CODE RAISED {type(e).__name__}: {e}")
        text.append(traceback.format_exc(limit=-3))
        return {"confirmed": not _rih(e), "text": "\n".join(text)}
    text.append(f"native parameters {nw.consts}; structure {s['sid']}")
    tctx = symx.Ctx([])
    symx.CUR = tctx
    try:
        sw = SymWorld()
        with util.patched(*util.std_patches(mods)):
            import xgcm.grid as GR
            stub = lambda self, funcname, data, axis, **k: data  # noqa
            with util.patched((GR.Grid, "_1d_grid_ufunc_dispatch", stub)):
                rs = scen(s, sw)
        sp = specf(s, rs)
    finally:
        symx.CUR = None
    out = rn["out"]
    bad = []
    if tuple(out.dims) != tuple(sp["dims"]):
        bad.append(f"dims {out.dims}, the statement prescribes {tuple(sp['dims'])}")
    subs = nw.numconsts(sw)
    for d in sp["dims"]:
        want = evalnum(sp["sizes"][d], subs, [])
        if d in out.sizes and out.sizes[d] != want:
            bad.append(f"size of {d}: got {out.sizes[d]} expected {want}")
    if not bad:
        bad = native_compare(sw, nw, sp["cells"], sp["q"], out, ghost=tctx.ghost)
    if bad:
        text.append("REAL CODE DISAGREES WITH THE SPECIFICATION:")
        text += bad[:10]
        return {"confirmed": True, "text": "\n".join(text)}
    text.append("real code agrees with the specification on this input (model not confirmed natively)")
    return {"confirmed": False, "text": "\n".join(text)}


def replay_table(wit, ob):
    import numpy as np
    import xgcm.gridops as G

    name = wit.get("ufunc") or wit.get("helper")
    fn = getattr(G, name, None)
    if fn is None:
        return {"confirmed": True, "text": f"xgcm.gridops.{name} does not exist"}
    clause = ob["id"].rsplit("/", 1)[-1]
    if clause in ("signature", "boundary_width-matches-geometry", "no-bound-options", "is-grid-ufunc"):
        return {"confirmed": True, "text": f"xgcm.gridops.{name}: {clause} -> {ob.get('detail')} (read from the real module object)"}
    f = fn.ufunc if hasattr(fn, "ufunc") else fn
    a = np.array([[3.0, -1.0, 4.0, 1.5, -9.25], [2.0, 7.0, 1.0, 8.0, 2.5]])
    op = wit.get("op")
    want = {"diff": a[..., 1:] - a[..., :-1], "interp": (a[..., 1:] + a[..., :-1]) / 2,
            "min": np.minimum(a[..., 1:], a[..., :-1]), "max": np.maximum(a[..., 1:], a[..., :-1])}[op]
    try:
        got = f(a)
    except Exception as e:  # noqa
        return {"confirmed": True, "text": f"gridops.{name}({a.tolist()}) raised {type(e).__name__}: {e}"}
    if got.shape != want.shape or not np.allclose(got, want):
        return {"confirmed": True, "text": f"gridops.{name}({a.tolist()}) = {np.asarray(got).tolist()} but {op} of adjacent pairs is {want.tolist()}"}
    return {"confirmed": False, "text": "sample input agrees"}
