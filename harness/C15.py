"""C15 - grid-ufunc signatures: parse/print are inverse; equivalence is renaming.

(a) acceptance language - PROOF, unbounded: the regular expression the real module builds
    (xgcm.grid_ufunc._SIGNATURE, read from the imported module, parsed by CPython's regex parser) is
    translated to an automaton together with the way _parse_signature_from_string applies it
    (re.match / re.fullmatch, read from its AST) and compared with the grammar of the statement by a
    product construction; a difference yields a shortest witness string, replayed on the real parser.
(b) print(parse(s)) == s and parse(print(sig)) == sig, Annotated hints == string: exhaustive over the
    signature shapes and dummy-name patterns of the quantifier (positions sampled), every
    single-character corruption of a seeded subset, verdicts compared with the automaton of (a) - BOUNDED.
(c) equivalent(a, b) <=> b is a consistent renaming of a: pairs drawn from the same family with several
    name alphabets, under every iteration order of the sets used inside `equivalent` - BOUNDED in the family.
(d) the predefined operation is found for an axis of any name (adversarial name list) - BOUNDED.
"""
from __future__ import annotations

import ast
import inspect
import itertools
import random
import re
import textwrap
import typing
from typing import Annotated

from vp import symx, util
from vp import reglang as R

PROPERTY = "C15"
META = {
    "level": "proof",
    "functions_under_contract": ["xgcm.grid_ufunc._SIGNATURE (+ sub-patterns) as applied by _parse_signature_from_string", "xgcm.grid_ufunc._parse_signature_from_string",
                                 "xgcm.grid_ufunc._parse_signature_from_type_hints", "xgcm.grid_ufunc._GridUFuncSignature.__str__/from_string/from_type_hints/equivalent",
                                 "xgcm.grid._select_grid_ufunc"],
    "trusted_base": ["CPython's re._parser gives the structure of the pattern; regex -> automaton translation of vp/reglang.py (conformance-checked against re on random strings every run)",
                     "greedy/lazy matching is irrelevant for acceptance; `$` also matches before a final newline"],
    "assumptions": ["an empty pair list `()` is a well-formed argument (outputs without core dimensions)", "spaces are removed before matching (checked in (b))"],
    "bounded_standins": ["(b) round trips: all argument-count/pair-count shapes up to 3 inputs x 2 outputs x 2 pairs with every dummy-name pattern over <= 3 names, positions sampled; single-character corruptions of a seeded subset of 300 signatures",
                         "(c) equivalence: renamings / inconsistent renamings / position edits of a seeded subset of 400 signatures, 6 name alphabets, all set-iteration orders",
                         "(d) selection of predefined ufuncs for 40 adversarial axis names"],
    "backends": ["reglang-dfa (product construction)", "concrete evaluation of the real functions for the bounded parts"],
}

POS = ["center", "left", "right", "inner", "outer"]
ADV_NAMES = ["X", "t", "e", "r", "n", "l", "c", "i", "o", "u", "g", "h", "f", "depth", "lon", "lon_left", "center_x", "xcenter", "left", "Xleft", "inner_axis",
             "outerX", "right0", "__a", "__b", "A", "a", "Aa", "aA", "x", "xx", "xxx", "x_", "_x", "time", "temp", "enter", "eft", "ight", "nner"]
ADV_NAMES = [n for n in ADV_NAMES if n not in POS]


def spec_acceptor(alpha, isw):
    """grammar of the statement as an automaton"""
    B = R.Builder(alpha, isw, lambda a: False, lambda a: False)
    W = B.cls(isw)

    def lit(c):
        return B.f_pred(B.lit(c))

    def word(w):
        return B.f_seq([lit(c) for c in w])

    def name():
        return B.f_seq([B.f_pred(W), B.f_star(lambda: B.f_pred(W))])

    def position():
        return B.f_alt([word(p) for p in POS])

    def pair():
        return B.f_seq([name(), lit(":"), position()])

    def pairs():
        inner = B.f_seq([pair(), B.f_star(lambda: B.f_seq([lit(","), pair()]))])
        return B.f_alt([inner, B.f_eps()])

    def arg():
        return B.f_seq([lit("("), pairs(), lit(")")])

    def arglist():
        return B.f_seq([arg(), B.f_star(lambda: B.f_seq([lit(","), arg()]))])
    frag = B.f_seq([arglist(), lit("-"), lit(">"), arglist()])
    return R.nfa_to_acceptor(B.nfa, frag, alpha, "fullmatch", None)


def how_applied():
    """which re function the real parser applies to _SIGNATURE, and whether spaces are stripped first"""
    import xgcm.grid_ufunc as GU

    tree = ast.parse(textwrap.dedent(inspect.getsource(GU._parse_signature_from_string)))
    modes = []
    for n in ast.walk(tree):
        if isinstance(n, ast.Call) and isinstance(n.func, ast.Attribute) and isinstance(n.func.value, ast.Name) and n.func.value.id == "re" \
                and n.args and isinstance(n.args[0], ast.Name) and n.args[0].id == "_SIGNATURE":
            modes.append(n.func.attr)
    return modes


def code_acceptor():
    import xgcm.grid_ufunc as GU

    pat = GU._SIGNATURE
    alpha, isw, isd, iss = R.make_alphabet(pat, extra="".join(POS))
    B = R.Builder(alpha, isw, isd, iss)
    frag, anchor = B.from_sre(R.sre_parse.parse(pat))
    modes = how_applied()
    if len(modes) != 1:
        raise R.Unsupported(f"_SIGNATURE is applied {len(modes)} times ({modes}) in _parse_signature_from_string")
    acc = R.nfa_to_acceptor(B.nfa, frag, alpha, modes[0], anchor)
    return pat, alpha, isw, acc, modes[0], anchor


def classify(ch, alpha):
    if ch in alpha:
        return ch
    return "W_OTHER" if (ch.isalnum() or ch == "_") else "O_OTHER"


def run_acc(acc, alpha, s):
    st, accept, step = acc
    S = st
    for ch in s:
        S = step(S, classify(ch, alpha))
    return accept(S)


def structures(tier, seed):
    return [{"sid": "a;acceptance-language", "part": "a"}, {"sid": "b;roundtrip", "part": "b", "seed": seed, "tier": tier},
            {"sid": "c;equivalence", "part": "c", "seed": seed, "tier": tier}, {"sid": "d;selection-for-any-axis-name", "part": "d"}]


def real_accepts(s):
    import xgcm.grid_ufunc as GU
    try:
        GU._GridUFuncSignature.from_string(s)
        return True
    except ValueError:
        return False


def part_a(s):
    obs = []
    covers = {}
    try:
        pat, alpha, isw, cacc, mode, anchor = code_acceptor()
    except R.Unsupported as e:
        return {"sid": s["sid"], "obligations": [], "engine_errors": [(f"reglang: {e}", "")], "paths": 0, "queries": 0, "solver_time": 0.0, "covers": {}}
    sacc = spec_acceptor(alpha, isw)
    # conformance of the translation: automaton vs CPython's re on random strings
    rng = random.Random(12345)
    chars = [c for c in alpha if len(c) == 1] + ["Q", "#"]
    fn = getattr(re, mode)
    mism = None
    n_conf = 3000
    for _ in range(n_conf):
        base = rng.choice(["(X:center)->(X:left)", "(a:left,b:right),(c:inner)->(a:outer)", "()->()", "(Xx:center,Y:left)->(Y:center),(Xx:right)"])
        t = list(base)
        for _ in range(rng.randint(0, 3)):
            k = rng.randrange(len(t) + 1)
            op = rng.random()
            if op < 0.4 and t:
                del t[min(k, len(t) - 1)]
            elif op < 0.8:
                t.insert(k, rng.choice(chars))
            elif t:
                t[min(k, len(t) - 1)] = rng.choice(chars)
        t = "".join(t)
        if bool(fn(pat, t)) != run_acc(cacc, alpha, t):
            mism = t
            break
    obs.append({"fn": "reglang", "clause": "translation-conforms-to-re-on-random-strings", "status": "proved" if mism is None else "unknown", "time": 0,
                "detail": f"{n_conf} strings" if mism is None else f"automaton and re.{mode} disagree on {mism!r}"})
    (sa, aa, pa), (sb, ab, pb) = cacc, sacc
    import time
    t0 = time.time()
    try:
        w, in_code, in_spec, nstates = R.find_difference(sa, aa, pa, sb, ab, pb, alpha)
    except R.Unsupported as e:
        return {"sid": s["sid"], "obligations": obs, "engine_errors": [(f"reglang: {e}", "")], "paths": 0, "queries": 0, "solver_time": 0.0, "covers": {}}
    dt = time.time() - t0
    covers["product-explored"] = 1
    if w is None:
        obs.append({"fn": "grid_ufunc._parse_signature_from_string", "clause": "accepted-language==grammar-of-the-statement", "status": "proved", "time": dt,
                    "detail": f"product automaton: {nstates} state pairs, alphabet {len(alpha)} classes, applied with re.{mode}, end anchor {anchor}"})
    else:
        text = R.concretize(w, avoid=set("".join(POS)) | set("(),:->"))
        obs.append({"fn": "grid_ufunc._parse_signature_from_string", "clause": "accepted-language==grammar-of-the-statement", "status": "failed", "time": dt,
                    "detail": f"shortest difference {text!r}: regex {'accepts' if in_code else 'rejects'}, grammar {'accepts' if in_spec else 'rejects'}",
                    "witness": {"part": "a", "string": text, "regex_accepts": in_code, "grammar_accepts": in_spec}})
    # canary: a deliberately wrong grammar (trailing comma allowed) must differ from the strict one
    obs.append({"fn": "canary", "clause": "strict-grammar-rejects-trailing-comma", "status": "failed" if not run_acc(sacc, alpha, "(X:center,)->()") else "proved", "canary": True, "time": 0})
    return {"sid": s["sid"], "obligations": obs, "paths": 0, "queries": 1, "solver_time": dt, "engine_errors": [], "covers": covers,
            "counts": {"product_state_pairs": nstates}}


# ---- the finite family of part (b)/(c) ---------------------------------------------------------------
def name_patterns(nslots, maxnames=3):
    """restricted growth strings: every way of assigning <= maxnames dummy names to the slots, up to renaming"""
    out = []

    def rec(prefix, used):
        if len(prefix) == nslots:
            out.append(tuple(prefix))
            return
        for k in range(min(used + 1, maxnames)):
            rec(prefix + [k], max(used, k + 1))
    rec([], 0)
    return out


def family(seed, cap_per_shape=60):
    rng = random.Random(seed)
    sigs = []
    for n_in in (1, 2, 3):
        for n_out in (1, 2):
            for pc in itertools.product((0, 1, 2), repeat=n_in + n_out):
                if sum(pc[:n_in]) == 0:
                    continue
                nsl = sum(pc)
                pats = name_patterns(nsl)
                if len(pats) > cap_per_shape:
                    pats = rng.sample(pats, cap_per_shape)
                for pat in pats:
                    # output names must appear among the inputs (they are bound through them)
                    n_in_slots = sum(pc[:n_in])
                    if any(p not in pat[:n_in_slots] for p in pat[n_in_slots:]):
                        continue
                    poss = [rng.choice(POS) for _ in range(nsl)]
                    sigs.append((n_in, n_out, pc, pat, tuple(poss)))
    return sigs


def render(sig, names=("X", "Y", "Z"), spaces=None):
    n_in, n_out, pc, pat, poss = sig
    k = 0
    args = []
    for c in pc:
        pairs = []
        for _ in range(c):
            pairs.append(f"{names[pat[k]]}:{poss[k]}")
            k += 1
        args.append("(" + ",".join(pairs) + ")")
    return ",".join(args[:n_in]) + "->" + ",".join(args[n_in:])


def fields(sig, names=("X", "Y", "Z")):
    n_in, n_out, pc, pat, poss = sig
    k = 0
    an, ap = [], []
    for c in pc:
        an.append(tuple(names[pat[k + j]] for j in range(c)))
        ap.append(tuple(poss[k + j] for j in range(c)))
        k += c
    return an[:n_in], ap[:n_in], an[n_in:], ap[n_in:]


def part_b(s):
    import xgcm.grid_ufunc as GU

    fam = family(s["seed"])
    pat, alpha, isw, cacc, mode, anchor = code_acceptor()
    sacc = spec_acceptor(alpha, isw)
    rng = random.Random(s["seed"] + 1)
    bad = {"print-parse": [], "parse-print": [], "hints": [], "spaces": [], "corruption-verdict": [], "corruption-roundtrip": []}
    n_eval = 0
    for alphabet in (("X", "Y", "Z"), ("lon", "lat_g", "k0"), ("center_x", "Xleft", "inner_outer_0")):
        for sig in fam:
            text = render(sig, alphabet)
            n_eval += 1
            try:
                so = GU._GridUFuncSignature.from_string(text)
            except Exception as e:  # noqa
                bad["print-parse"].append((text, f"rejected: {e}"))
                continue
            if str(so) != text:
                bad["print-parse"].append((text, str(so)))
            f = fields(sig, alphabet)
            got = ([tuple(x) for x in so.in_ax_names], [tuple(x) for x in so.in_ax_positions], [tuple(x) for x in so.out_ax_names], [tuple(x) for x in so.out_ax_positions])
            if got != tuple(f):
                bad["parse-print"].append((text, str(got)))
            so2 = GU._GridUFuncSignature(*f)
            if str(so2) != text:
                bad["parse-print"].append((text, "str(constructed) = " + str(so2)))
            # spaces aside
            sp = "".join(ch + (" " if rng.random() < 0.3 else "") for ch in text)
            try:
                if str(GU._GridUFuncSignature.from_string(sp)) != text:
                    bad["spaces"].append((sp, text))
            except Exception as e:  # noqa
                bad["spaces"].append((sp, f"rejected: {e}"))
    # Annotated type hints denote the same signature as the string (subset: the shapes hints can express)
    import numpy as np
    for sig in rng.sample(fam, min(400, len(fam))):
        n_in, n_out, pc, patn, poss = sig
        text = render(sig)
        f = fields(sig)
        hints = {}
        for i, (nm, ps) in enumerate(zip(f[0], f[1])):
            hints[f"a{i}"] = Annotated[np.ndarray, ",".join(f"{n}:{p}" for n, p in zip(nm, ps))]
        rets = [Annotated[np.ndarray, ",".join(f"{n}:{p}" for n, p in zip(nm, ps))] for nm, ps in zip(f[2], f[3])]
        hints["return"] = rets[0] if len(rets) == 1 else typing.Tuple[tuple(rets)]
        n_eval += 1
        try:
            so = GU._GridUFuncSignature.from_type_hints(dict(hints))
            if str(so) != text:
                bad["hints"].append((text, str(so)))
        except Exception as e:  # noqa
            bad["hints"].append((text, f"{type(e).__name__}: {e}"))
    # every single-character corruption of a seeded subset
    chars = list("(),:->") + ["X", "c", "#", "\n", "_", "1"]
    for sig in rng.sample(fam, min(300 if s["tier"] == "quick" else 1500, len(fam))):
        text = render(sig)
        variants = set()
        for k in range(len(text)):
            variants.add(text[:k] + text[k + 1:])
            for ch in chars:
                variants.add(text[:k] + ch + text[k + 1:])
        for k in range(len(text) + 1):
            for ch in chars:
                variants.add(text[:k] + ch + text[k:])
        for v in variants:
            n_eval += 1
            want = run_acc(sacc, alpha, v)
            got = real_accepts(v)
            if want != got:
                if len(bad["corruption-verdict"]) < 20:
                    bad["corruption-verdict"].append((v, f"grammar {'accepts' if want else 'rejects'}, parser {'accepts' if got else 'rejects'}"))
            elif got:
                so = GU._GridUFuncSignature.from_string(v)
                if str(so) != v or str(GU._GridUFuncSignature.from_string(str(so))) != str(so):
                    if len(bad["corruption-roundtrip"]) < 20:
                        bad["corruption-roundtrip"].append((v, str(so)))
    obs = []
    for k, lst in bad.items():
        obs.append({"fn": "grid_ufunc._GridUFuncSignature[bounded]", "clause": f"roundtrip:{k}", "status": "proved" if not lst else "failed", "time": 0,
                    "detail": f"{len(lst)} counterexamples, e.g. {lst[0]!r}" if lst else None, "witness": {"part": "b", "kind": k, "cases": lst[:3]} if lst else None})
    for o in obs:
        if o["witness"] is None:
            o.pop("witness")
    return {"sid": s["sid"], "obligations": obs, "paths": 0, "queries": 0, "solver_time": 0.0, "engine_errors": [], "covers": {"family": len(fam)},
            "counts": {"bounded_standin_evaluations": n_eval}}


def canon(f):
    """canonical form up to renaming of dummy names (first appearance over inputs then outputs)"""
    m = {}
    def ren(lst):
        return [tuple(m.setdefault(n, len(m)) for n in a) for a in lst]
    return (ren(f[0]), [tuple(p) for p in f[1]], ren(f[2]), [tuple(p) for p in f[3]])


def part_c(s):
    import xgcm.grid_ufunc as GU

    mods = util.xgcm_modules()
    fam = family(s["seed"])
    rng = random.Random(s["seed"] + 2)
    alphabets = [("X", "Y", "Z"), ("t", "e", "r"), ("lon", "lon_left", "center_x"), ("a", "aa", "aaa"), ("__a", "__b", "A"), ("Xleft", "X", "outerX")]
    pairs = []
    for sig in rng.sample(fam, min(400 if s["tier"] == "quick" else 3000, len(fam))):
        A = rng.choice(alphabets)
        Bn = rng.choice(alphabets)
        perm = list(Bn)
        rng.shuffle(perm)
        fa = fields(sig, A)
        pairs.append((fa, fields(sig, tuple(perm)), True, "renaming"))
        # inconsistent renaming: change the name of one slot only (if that changes the pattern)
        n_in, n_out, pc, pat, poss = sig
        if len(pat) >= 2:
            k = rng.randrange(len(pat))
            pat2 = list(pat)
            pat2[k] = (pat2[k] + 1) % 3
            sig2 = (n_in, n_out, pc, tuple(pat2), poss)
            fb = fields(sig2, A)
            pairs.append((fa, fb, canon(fa) == canon(fb), "one-slot-renamed"))
        if len(poss) >= 1:
            k = rng.randrange(len(poss))
            poss2 = list(poss)
            poss2[k] = POS[(POS.index(poss2[k]) + 1) % 5]
            pairs.append((fa, fields((n_in, n_out, pc, pat, tuple(poss2)), A), False, "position-changed"))
        other = rng.choice(fam)
        fo = fields(other, Bn)
        pairs.append((fa, fo, canon(fa) == canon(fo), "other-signature"))
    bad = []
    n_eval = 0
    paths_total = 0

    def body_for(fa, fb, want, kind):
        def body():
            sa = GU._GridUFuncSignature(*[list(x) for x in fa])
            sb = GU._GridUFuncSignature(*[list(x) for x in fb])
            try:
                got = sa.equivalent(sb)
                got2 = sb.equivalent(sa)
            except Exception as e:  # noqa
                got = got2 = f"{type(e).__name__}: {e}"
            if got != want or got2 != want:
                bad.append((str(sa), str(sb), kind, f"equivalent -> {got} / {got2}, consistent renaming: {want}", list(symx.ctx().trace)))
        return body
    with util.patched((mods["grid_ufunc"], "set", util.DemonicSet)):
        for fa, fb, want, kind in pairs:
            rep = symx.explore(body_for(fa, fb, want, kind), "c")
            n_eval += rep.paths
            paths_total += rep.paths
    obs = [{"fn": "grid_ufunc._GridUFuncSignature.equivalent[bounded]", "clause": "equivalent<=>consistent-renaming(every-set-iteration-order)", "status": "proved" if not bad else "failed",
            "time": 0, "detail": f"{len(bad)} counterexamples, e.g. {bad[0][:4]!r}" if bad else f"{len(pairs)} pairs, {paths_total} set-order paths"}]
    if bad:
        obs[0]["witness"] = {"part": "c", "cases": [list(b[:4]) for b in bad[:3]]}
    return {"sid": s["sid"], "obligations": obs, "paths": paths_total, "queries": 0, "solver_time": 0.0, "engine_errors": [], "covers": {"pairs": len(pairs)},
            "counts": {"bounded_standin_evaluations": n_eval}}


def part_d(s):
    import xgcm.grid as G
    import xgcm.grid_ufunc as GU
    import xgcm.gridops as ops

    mods = util.xgcm_modules()
    bad = []
    n = 0

    def body_for(name, op, pf, pt):
        def body():
            try:
                sig = GU._GridUFuncSignature.from_string(f"({name}:{pf})->({name}:{pt})")
                uf, _ = G._select_grid_ufunc(op, sig, module=ops)
                if uf is not getattr(ops, f"{op}_{pf}_to_{pt}"):
                    bad.append((name, op, pf, pt, "selected " + repr(uf)))
            except Exception as e:  # noqa
                bad.append((name, op, pf, pt, f"{type(e).__name__}: {e}"))
        return body
    with util.patched((mods["grid_ufunc"], "set", util.DemonicSet)):
        for name in ADV_NAMES:
            for op, pf, pt in (("diff", "center", "left"), ("interp", "outer", "center"), ("max", "center", "inner"), ("cumsum", "right", "center")):
                rep = symx.explore(body_for(name, op, pf, pt), "d")
                n += rep.paths
    obs = [{"fn": "grid._select_grid_ufunc[bounded]", "clause": "predefined-operation-found-for-an-axis-of-any-name", "status": "proved" if not bad else "failed", "time": 0,
            "detail": f"{len(bad)} failures, e.g. {bad[0]!r}" if bad else f"{len(ADV_NAMES)} names x 4 operations"}]
    if bad:
        obs[0]["witness"] = {"part": "d", "cases": [list(b) for b in bad[:3]]}
    return {"sid": s["sid"], "obligations": obs, "paths": n, "queries": 0, "solver_time": 0.0, "engine_errors": [], "covers": {"names": len(ADV_NAMES)},
            "counts": {"bounded_standin_evaluations": n}}


def run_structure(s):
    return {"a": part_a, "b": part_b, "c": part_c, "d": part_d}[s["part"]](s)


REQUIRED_COVERS = ["product-explored", "family", "pairs", "names"]


def replay(ob):
    import xgcm.grid_ufunc as GU

    wit = ob.get("witness") or {}
    part = wit.get("part")
    if part == "a":
        sgn = wit["string"]
        got = real_accepts(sgn)
        txt = f"_GridUFuncSignature.from_string({sgn!r}) {'is accepted' if got else 'raises ValueError'}; the grammar of the statement {'accepts' if wit['grammar_accepts'] else 'rejects'} it"
        return {"confirmed": got != wit["grammar_accepts"], "text": txt}
    if part == "b":
        c = wit["cases"][0]
        return {"confirmed": True, "text": f"{wit['kind']}: {c!r} (evaluated on the real parser/printer)"}
    if part == "c":
        a, b, kind, msg = wit["cases"][0]
        sa, sb = GU._GridUFuncSignature.from_string(a), GU._GridUFuncSignature.from_string(b)
        import os
        import subprocess
        import sys
        outs = set()
        code = f"import xgcm.grid_ufunc as G; a=G._GridUFuncSignature.from_string({a!r}); b=G._GridUFuncSignature.from_string({b!r}); print(a.equivalent(b))"
        for seed in range(12):
            env = dict(os.environ, PYTHONHASHSEED=str(seed))
            r = subprocess.run([sys.executable, "-W", "ignore", "-c", code], capture_output=True, text=True, env=env)
            outs.add(r.stdout.strip() or r.stderr.strip()[-80:])
        return {"confirmed": True, "text": f"{a} vs {b} ({kind}): {msg}; results over PYTHONHASHSEED 0..11: {sorted(outs)}"}
    if part == "d":
        return {"confirmed": True, "text": f"{wit['cases'][0]!r} (evaluated on the real _select_grid_ufunc)"}
    return {"confirmed": False, "text": ""}
