"""Native replay of padding counterexamples: real xarray inputs are built from the solver's
model, the REAL xgcm.padding.pad is called (no proxies, no model of xarray), and its output is
compared cell by cell with the specification clauses evaluated on numbers."""
from __future__ import annotations

import itertools
import json
import traceback

import numpy as np
import z3

from vp.world import raised_in_harness as _rih
from vp import symx, util

B = 64


def _numfun(fn, offset=0.25, sign=1):
    n = fn.arity()
    e = z3.IntVal(0)
    for k in range(n):
        e = e * B + z3.Var(k, z3.IntSort())
    return (fn, sign * (z3.ToReal(e) + z3.RealVal(str(offset))))


def _np_field(shape, offset=0.25, sign=1):
    idx = np.indices(shape)
    e = np.zeros(shape)
    for k in range(len(shape)):
        e = e * B + idx[k]
    return sign * (e + offset)


def evalnum(t, subs, funs):
    t = z3.substitute(t, *subs) if subs else t
    t = z3.substitute_funs(t, *funs) if funs else t
    t = z3.simplify(t)
    if z3.is_true(t):
        return True
    if z3.is_false(t):
        return False
    if z3.is_int_value(t):
        return t.as_long()
    if z3.is_rational_value(t):
        return t.numerator_as_long() / t.denominator_as_long()
    if z3.is_algebraic_value(t):
        return float(t.approx(20).as_fraction())
    raise ValueError(f"term did not evaluate to a number: {t}")


def replay_face(ob):
    import xarray as xr
    import xgcm
    import xgcm.padding as P
    import harness.C05 as H

    w = ob.get("witness") or {}
    st = dict(w["structure"])
    st["entry"] = {(k[0], int(k[1])): tuple(v) for k, v in st["entry"].items()}
    st["bw"] = tuple(st["bw"])
    st["conn"] = tuple(st["conn"])
    st.pop("canary", None)
    m = w.get("model", {})
    text = []

    def val(name, dflt):
        v = m.get(name, dflt)
        return int(v) if not isinstance(v, str) else float(eval(v.replace("?", ""))) if "/" in v or "." in v else int(v)
    N = max(2, val("N", 3))
    F = max(1, val("F", 2))
    T, Z = max(1, val("T", 2)), max(1, val("Z", 2))
    if N > 16 or F > 12 or T > 4 or Z > 4:
        N, F, T, Z = min(N, 16), min(F, 12), min(T, 4), min(Z, 4)
    gi = 0
    for k, v in m.items():
        if k.startswith("i!"):
            gi = int(v)
    gi = min(gi, F - 1)
    Wv = {a: (min(N, max(0, val(f"w{a}lo", 1))), min(N, max(0, val(f"w{a}hi", 1)))) for a in st["bw"]}
    srcv = {k: min(F - 1, max(0, val(f"src_{k[0]}{k[1]}", 0))) for k in st["entry"]}
    fillv = {"X": 0.5, "Y": -1.5}
    kind = st["kind"]
    # ---- symbolic side: clauses of the specification ------------------------------------------
    mods = util.xgcm_modules()
    symx.CUR = symx.Ctx([])
    try:
        with util.patched(*util.std_patches(mods)):
            b = H.build(st)
        gsym = z3.Int("i_replay")
        symx.CUR.ghost["generic"] = (gsym, b["F"])

        class FakeOut:
            dims = b["da"].dims
            sizes = {}

            @staticmethod
            def elem(idx):
                return z3.Real("GOT")
        xd, yd = b["xd"], b["yd"]
        osz = {d: b["da"].sizes[d] for d in b["da"].dims}
        FakeOut.sizes = osz
        H.expected(st, b, FakeOut, None)
        cells, q = b["cells"], b["q"]
    finally:
        symx.CUR = None
    consts = [(z3.Int("N"), z3.IntVal(N)), (z3.Int("F"), z3.IntVal(F)), (z3.Int("T"), z3.IntVal(T)),
              (z3.Int("Z"), z3.IntVal(Z)), (gsym, z3.IntVal(gi)),
              (z3.Real("fillX"), z3.RealVal(str(fillv["X"]))), (z3.Real("fillY"), z3.RealVal(str(fillv["Y"])))]
    for a in st["bw"]:
        consts += [(z3.Int(f"w{a}lo"), z3.IntVal(Wv[a][0])), (z3.Int(f"w{a}hi"), z3.IntVal(Wv[a][1]))]
    for k, v in srcv.items():
        consts.append((z3.Int(f"src_{k[0]}{k[1]}"), z3.IntVal(v)))
    funs = [_numfun(b["da"].fn)]
    if b["partner"] is not None:
        funs.append(_numfun(b["partner"].fn, 0.5, -1))
    # ---- native side -----------------------------------------------------------------------------
    pre, post = b["pre"], b["post"]
    esz = {"t": T, "z": Z}

    def mk(ydim, xdim, off, sign):
        dims = pre + ["face"] + post + [ydim, xdim]
        shape = [esz[d] for d in pre] + [F] + [esz[d] for d in post] + [N, N]
        return xr.DataArray(_np_field(tuple(shape), off, sign), dims=dims)
    if kind is None:
        da = mk("y", "x", 0.25, 1)
        arg, oc = da, None
    elif kind == "X":
        da, pa = mk("y", "xl", 0.25, 1), mk("yl", "x", 0.5, -1)
        arg, oc = {"X": da}, {"Y": pa}
    else:
        da, pa = mk("yl", "x", 0.25, 1), mk("y", "xl", 0.5, -1)
        arg, oc = {"Y": da}, {"X": pa}
    ds = xr.Dataset(coords={d: np.arange(n) for d, n in
                            {"x": N, "xl": N, "y": N, "yl": N, "face": F, "t": T, "z": Z}.items()})
    grid = xgcm.Grid(ds, coords={"X": {"center": "x", "left": "xl"}, "Y": {"center": "y", "left": "yl"}},
                     periodic=False, autoparse_metadata=False)
    table = {f: {a: (None, None) for a in st["conn"]} for f in range(F)}
    ent = {}
    for (a, side), (lk, rev) in st["entry"].items():
        lr = list(ent.get(a, (None, None)))
        lr[side] = (srcv[(a, side)], a if lk == "same" else H.OTHER[a], bool(rev))
        ent[a] = tuple(lr)
    table[gi] = {**table[gi], **ent}
    grid._facedim = "face"
    grid._face_connections = {"face": table}
    params = dict(N=N, F=F, T=T, Z=Z, face=gi, widths=Wv, src={f"{k[0]}{k[1]}": v for k, v in srcv.items()},
                  fills=fillv, table_entry=str(table[gi]), kind=kind, rules=st["rules"], extra=st["extra"])
    text.append("native replay parameters: " + json.dumps(params, default=str))
    text.append("(the link table is injected into a real Grid after construction; all other objects are real xarray)")
    try:
        out = P.pad(arg, grid, boundary_width=dict(Wv), boundary=dict(st["rules"]), fill_value=dict(fillv),
                    other_component=oc)
    except Exception as e:  # noqa
        text.append(f"REAL CODE RAISED {type(e).__name__}: {e}")
        text.append(traceback.format_exc(limit=4))
        return {"confirmed": not _rih(e), "text": "\n".join(text)}
    if isinstance(out, dict):
        (out,) = out.values()
    xd, yd = b["xd"], b["yd"]
    mism = []
    exp_sizes = {xd: N + sum(Wv.get("X", (0, 0))), yd: N + sum(Wv.get("Y", (0, 0))), "face": F}
    for d, n in exp_sizes.items():
        if d not in out.dims or out.sizes[d] != n:
            mism.append(f"size of {d}: got {out.sizes.get(d)} expected {n}")
    if not mism:
        outv = out.transpose(*pre, "face", *post, yd, xd).values
        for ext in itertools.product(*[range(esz[d]) for d in pre + post]):
            exd = dict(zip(pre + post, ext))
            for qy in range(exp_sizes[yd]):
                for qx in range(exp_sizes[xd]):
                    subs = consts + [(q[yd], z3.IntVal(qy)), (q[xd], z3.IntVal(qx))] + \
                        [(q[d], z3.IntVal(v)) for d, v in exd.items()]
                    for name, region, valt in cells:
                        if evalnum(region, subs, []):
                            want = evalnum(valt, subs, funs)
                            pos = tuple(exd[d] for d in pre) + (gi,) + tuple(exd[d] for d in post) + (qy, qx)
                            got = float(outv[pos])
                            if not (abs(got - want) < 1e-9):
                                mism.append(f"{name}: cell {dict(exd, face=gi, **{yd: qy, xd: qx})} got {got} expected {want}")
                            break
                    if len(mism) > 8:
                        break
    if mism:
        text.append("REAL CODE DISAGREES WITH THE SPECIFICATION:")
        text += mism[:10]
        return {"confirmed": True, "text": "\n".join(text)}
    text.append("real code agrees with the specification on this input (model not confirmed natively)")
    return {"confirmed": False, "text": "\n".join(text)}


# ---- bounded native battery: whole consistent tables on the real code ------------------------------------------------
def random_table(rng, F, p_open=0.2, p_rev=0.35, allow_self=True):
    """a random RECIPROCAL link table over F faces and the axes X, Y (the constructor's reciprocity rule: a link stored on
    side s points to the neighbour's side 1-s, or to side s when the reverse flag is set)"""
    slots = [(f, a, s) for f in range(F) for a in "XY" for s in (0, 1)]
    rng.shuffle(slots)
    table = {f: {"X": [None, None], "Y": [None, None]} for f in range(F)}
    free = set(slots)
    for sl in slots:
        if sl not in free:
            continue
        free.discard(sl)
        if rng.random() < p_open:
            continue
        f, a, s = sl
        rev = rng.random() < p_rev
        t_side = s if rev else 1 - s
        cands = sorted(c for c in free if c[2] == t_side and (allow_self or c[0] != f))
        if not cands:
            continue
        g, b2, t = cands[rng.randrange(len(cands))]
        table[f][a][s] = (g, b2, rev)
        table[g][b2][t] = (f, a, rev)
        free.discard((g, b2, t))
    return {f: {a: tuple(v) for a, v in d.items()} for f, d in table.items()}


def ring_table(F, axis="X"):
    """F faces in a periodic ring along one axis (F = 1: a periodic self link, F = 2: both sides of a face lead to the same face)"""
    return {f: {axis: (((f - 1) % F, axis, False), ((f + 1) % F, axis, False))} for f in range(F)}


def listed(table, face_order=None, axis_order=None):
    """the same table with faces / axes LISTED in another order (dict insertion order) - equal as a mapping"""
    faces = list(face_order) if face_order is not None else list(table)
    out = {}
    for f in faces:
        axes = [a for a in (axis_order or list(table[f])) if a in table[f]]
        out[f] = {a: table[f][a] for a in axes}
    return out


def check_table(table, kind, Wv, rules, N=4, extra="none", face_order=None, axis_order=None, return_output=False):
    """real Grid (through the real constructor), real xarray, real pad on the whole table; every non-corner cell of EVERY face is
    compared with the specification clauses of C05 evaluated on numbers.  Returns (list of mismatch texts, cells compared)."""
    import xarray as xr
    import xgcm
    import xgcm.padding as P
    import harness.C05 as H

    F = len(table)
    T, Z = 2, 2
    conn = tuple(sorted({a for d in table.values() for a in d}))
    fillv = {"X": 0.5, "Y": -1.5}
    pre = ["t"] if extra in ("before", "both") else []
    post = ["z"] if extra in ("after", "both") else []
    esz = {"t": T, "z": Z}

    def mk(ydim, xdim, off, sign):
        dims = pre + ["face"] + post + [ydim, xdim]
        shape = [esz[d] for d in pre] + [F] + [esz[d] for d in post] + [N, N]
        return xr.DataArray(_np_field(tuple(shape), off, sign), dims=dims)
    if kind is None:
        arg, oc = mk("y", "x", 0.25, 1), None
    elif kind == "X":
        arg, oc = {"X": mk("y", "xl", 0.25, 1)}, {"Y": mk("yl", "x", 0.5, -1)}
    else:
        arg, oc = {"Y": mk("yl", "x", 0.25, 1)}, {"X": mk("y", "xl", 0.5, -1)}
    ds = xr.Dataset(coords={d: np.arange(n) for d, n in {"x": N, "xl": N, "y": N, "yl": N, "face": F, "t": T, "z": Z}.items()})
    grid = xgcm.Grid(ds, coords={"X": {"center": "x", "left": "xl"}, "Y": {"center": "y", "left": "yl"}}, periodic=False,
                     face_connections={"face": listed(table, face_order, axis_order)}, autoparse_metadata=False)
    try:
        out = P.pad(arg, grid, boundary_width=dict(Wv), boundary=dict(rules), fill_value=dict(fillv), other_component=oc)
    except Exception as e:  # noqa
        if return_output:
            return f"raised {type(e).__name__}"
        return [f"REAL CODE RAISED {type(e).__name__}: {e}"], 0
    if isinstance(out, dict):
        (out,) = out.values()
    if return_output:
        return out
    mism, ncmp = [], 0
    mods = util.xgcm_modules()
    for gi in range(F):
        entry, srcv = {}, {}
        for a, lr in table[gi].items():
            for side, lk in enumerate(lr):
                if lk is not None:
                    entry[(a, side)] = ("same" if lk[1] == a else "swap", bool(lk[2]))
                    srcv[(a, side)] = lk[0]
        st = H.mk(kind, entry, tuple(Wv), dict(rules), extra)
        st["conn"] = conn
        symx.CUR = symx.Ctx([])
        try:
            with util.patched(*util.std_patches(mods)):
                b = H.build(st)
            gsym = z3.Int("i_replay")
            symx.CUR.ghost["generic"] = (gsym, b["F"])

            class FakeOut:
                dims = b["da"].dims
                sizes = {d: b["da"].sizes[d] for d in b["da"].dims}

                @staticmethod
                def elem(idx):
                    return z3.Real("GOT")
            H.expected(st, b, FakeOut, None)
            cells, q = b["cells"], b["q"]
        finally:
            symx.CUR = None
        xd, yd = b["xd"], b["yd"]
        consts = [(z3.Int("N"), z3.IntVal(N)), (z3.Int("F"), z3.IntVal(F)), (z3.Int("T"), z3.IntVal(T)), (z3.Int("Z"), z3.IntVal(Z)), (gsym, z3.IntVal(gi)),
                  (z3.Real("fillX"), z3.RealVal(str(fillv["X"]))), (z3.Real("fillY"), z3.RealVal(str(fillv["Y"])))]
        for a in st["bw"]:
            consts += [(z3.Int(f"w{a}lo"), z3.IntVal(Wv[a][0])), (z3.Int(f"w{a}hi"), z3.IntVal(Wv[a][1]))]
        for k, v in srcv.items():
            consts.append((z3.Int(f"src_{k[0]}{k[1]}"), z3.IntVal(v)))
        funs = [_numfun(b["da"].fn)]
        if b["partner"] is not None:
            funs.append(_numfun(b["partner"].fn, 0.5, -1))
        exp_sizes = {xd: N + sum(Wv.get("X", (0, 0))), yd: N + sum(Wv.get("Y", (0, 0))), "face": F}
        for d, n in exp_sizes.items():
            if d not in out.dims or out.sizes[d] != n:
                return [f"size of {d}: got {out.sizes.get(d)} expected {n}"], ncmp
        outv = out.transpose(*pre, "face", *post, yd, xd).values
        ext = tuple(0 for _ in pre + post)
        exd = dict(zip(pre + post, ext))
        for qy in range(exp_sizes[yd]):
            for qx in range(exp_sizes[xd]):
                subs = consts + [(q[yd], z3.IntVal(qy)), (q[xd], z3.IntVal(qx))] + [(q[d], z3.IntVal(v)) for d, v in exd.items()]
                for name, region, valt in cells:
                    if evalnum(region, subs, []):
                        want = evalnum(valt, subs, funs)
                        pos = tuple(exd[d] for d in pre) + (gi,) + tuple(exd[d] for d in post) + (qy, qx)
                        got = float(outv[pos])
                        ncmp += 1
                        if not (abs(got - want) < 1e-9):
                            mism.append(f"face {gi} (links {table[gi]}), {name}: cell {yd}={qy} {xd}={qx} got {got} expected {want}")
                        break
        if len(mism) > 6:
            break
    return mism, ncmp
