"""C16 - the metric registry reflects exactly what was registered, in any batching.

Data-structure contract on the real Grid.set_metrics / the metrics= loop of Grid.__init__:
abstract view(G): (axes set, dims set) -> variable name; invariant well_formed(G): per axes set the
entries have pairwise different dims sets.  One-step contract, for EVERY well-formed pre-state over
the pool and every call set_metrics(key, names, overwrite): the post view equals the fold of the
single-variable step over `names` in order (refusal = ValueError, leaving the view as the successful
prefix made it), all other keys untouched, well_formed preserved.  The history property follows by
induction over the call sequence.  Values play no role, so the pre-states and calls are enumerated
exhaustively by shape (finite); nothing is sampled.
"""
from __future__ import annotations

import itertools

from vp import symx, util
from vp.symx import oblige
from vp.world import SymWorld
from vp.gridlib import make_layout

PROPERTY = "C16"
META = {
    "level": "proof",
    "exhaustive": True,
    "functions_under_contract": ["xgcm.grid.Grid.set_metrics", "xgcm.grid.Grid.__init__ (metrics= loop)"],
    "trusted_base": ["dataset model: ds[name].reset_coords(drop=True) yields the variable with its name and dims", "CPython executes the function as written",
                     "induction over the call history from the one-step contract (well_formed is an invariant)"],
    "assumptions": ["pool: 5 variables on 3 positions of axis X, 2 on axis Y, 4 two-dimensional (2 positions, each in both dimension orders); pre-states: every ordered selection with pairwise different slots (0-3 entries per axes set); calls: 1-3 variables at pairwise different positions, overwrite True/False"],
}

POOL = {  # name -> (axes key, dims)
    "dx_c": (("X",), ("x_c",)), "dx_c2": (("X",), ("x_c",)), "dx_l": (("X",), ("x_l",)), "dx_l2": (("X",), ("x_l",)), "dx_o": (("X",), ("x_o",)),
    "dy_c": (("Y",), ("y_c",)), "dy_l": (("Y",), ("y_l",)),
    "a_cc": (("X", "Y"), ("x_c", "y_c")), "a_lc": (("X", "Y"), ("x_l", "y_c")),
    # the same positions with the dimensions stored in the other order: a position is a SET of dimensions
    "a_cc_t": (("X", "Y"), ("y_c", "x_c")), "a_lc_t": (("X", "Y"), ("y_c", "x_l")),
}
LAY = {"X": ("center", "left", "outer"), "Y": ("center", "left")}


def slot(name):
    return frozenset(POOL[name][1])


def distinct_slot_seqs(names, maxlen):
    out = [()]
    for k in range(1, maxlen + 1):
        for seq in itertools.permutations(names, k):
            if len({slot(n) for n in seq}) == k:
                out.append(seq)
    return out


XNAMES = [n for n in POOL if POOL[n][0] == ("X",)]
ANAMES = [n for n in POOL if POOL[n][0] == ("X", "Y")]


def structures(tier, seed):
    out = []
    for pre in distinct_slot_seqs(XNAMES, 3):
        out.append({"sid": f"key=X;pre=[{','.join(pre)}]", "key": ["X"], "pre": list(pre), "names_pool": XNAMES})
    for pre in distinct_slot_seqs(ANAMES, 2):
        out.append({"sid": f"key=XY;pre=[{','.join(pre)}]", "key": ["X", "Y"], "pre": list(pre), "names_pool": ANAMES})
    out.append({"sid": "canary;spec-keeps-only-last", "key": ["X"], "pre": ["dx_c"], "names_pool": XNAMES, "canary": True})
    return out


def view_of(g):
    v = {}
    wf = True
    for k, lst in g._metrics.items():
        seen = set()
        for arr in lst:
            sl = frozenset(arr.dims)
            if sl in seen:
                wf = False
            seen.add(sl)
            v[(frozenset(k), sl)] = arr.name
    return v, wf


def spec_step(view, key, names, overwrite, keep_only_last=False):
    """fold of the single-variable registration, from the statement; returns (view', raised)"""
    v = dict(view)
    if keep_only_last:
        names = names[-1:]
    for n in names:
        sl = (frozenset(key), slot(n))
        if sl in v:
            if overwrite:
                v[sl] = n
            else:
                return v, True
        else:
            v[sl] = n
    return v, False


def run_structure(s):
    mods = util.xgcm_modules()
    covers = {}
    key = tuple(s["key"])
    obs = []
    stats = dict(paths=0, queries=0, solver_time=0.0, engine_errors=[])
    calls = [seq for seq in distinct_slot_seqs(s["names_pool"], 3) if seq]
    canary = s.get("canary")

    def body():
        w = SymWorld()
        layout = make_layout(LAY)
        n = w.size("n", 2)
        dims = {"x_c": n, "x_l": n, "x_o": symx.mk_int(symx.zint(n) + 1), "y_c": n, "y_l": n}
        ds = w.dataset(dims, coords={d: (d,) for d in dims}, data_vars={k: v[1] for k, v in POOL.items()})
        for names in calls:
            for overwrite in (False, True):
                for key_spelling in ("tuple", "str") if len(key) == 1 else ("tuple",):
                    tag = f"set_metrics({','.join(names)};overwrite={overwrite};key={key_spelling})"
                    metrics0 = {("Y",): ["dy_c"]}
                    if s["pre"]:
                        metrics0[key] = list(s["pre"])
                    try:
                        g = w.grid(ds, layout, periodic=False, metrics=metrics0)
                    except Exception as e:  # noqa
                        oblige(f"ctor-registers-metrics:{tag}", False, detail=f"{type(e).__name__}: {e}")
                        continue
                    v0, wf0 = view_of(g)
                    want0, _ = spec_step({}, ("Y",), ["dy_c"], False)
                    want0, _ = spec_step(want0, key, list(s["pre"]), False)
                    oblige("ctor-view-is-what-was-registered", v0 == want0 and wf0, detail=f"{v0} vs {want0}")
                    want, want_raise = spec_step(v0, key, list(names), overwrite, keep_only_last=bool(canary))
                    arg_names = list(names)
                    try:
                        g.set_metrics(key if key_spelling == "tuple" else key[0], arg_names if len(names) > 1 else (arg_names if key_spelling == "tuple" else names[0]), overwrite=overwrite)
                        raised = None
                    except (symx.EngineUnsupported, symx.InfeasiblePath, symx.PathAbort):
                        raise
                    except Exception as e:  # noqa
                        raised = e
                    v1, wf1 = view_of(g)
                    covers["raised" if raised is not None else "returned"] = covers.get("raised" if raised is not None else "returned", 0) + 1
                    oblige(f"refusal-iff-occupied-slot-without-overwrite:{tag}", (raised is not None) == want_raise and (raised is None or isinstance(raised, ValueError)),
                           detail=f"raised {type(raised).__name__ if raised else None}, statement says refusal={want_raise}")
                    oblige(f"view-after-call:{tag}", v1 == want,
                           detail=f"registry {sorted((sorted(k[0]), sorted(k[1]), n) for k, n in v1.items())} expected {sorted((sorted(k[0]), sorted(k[1]), n) for k, n in want.items())}")
                    # get_metric takes the LAST entry of a key when it has to interpolate: the order of the entries must be that of the
                    # one-at-a-time registration too, or the batching would show through get_metric
                    fk = frozenset(key)
                    oblige(f"entries-in-the-order-of-one-at-a-time-registration:{tag}",
                           [(k, nm) for k, nm in v1.items() if k[0] == fk] == [(k, nm) for k, nm in want.items() if k[0] == fk],
                           detail=f"{[nm for k, nm in v1.items() if k[0] == fk]} vs {[nm for k, nm in want.items() if k[0] == fk]}")
                    oblige(f"well-formed-preserved:{tag}", wf1)
                    oblige(f"frame:names-argument-unchanged:{tag}", arg_names == list(names))
    with util.patched(*util.std_patches(mods)):
        rep = symx.explore(body, s["sid"])
    for name, ob in rep.merged().items():
        rec = {"fn": "grid.Grid.set_metrics", "clause": name, "status": ob.status, "time": ob.time, "detail": ob.detail}
        if ob.status == "failed":
            rec["witness"] = {"key": list(key), "pre": s["pre"], "clause": name, "detail": ob.detail}
        if canary:
            if name.startswith("view-after-call") and ob.status == "failed":
                rec["canary"] = True
                obs.append(rec)
            continue
        obs.append(rec)
    if canary:
        obs = obs[:1] or [{"fn": "canary", "clause": "none-refuted", "status": "proved", "canary": True, "time": 0}]
    return {"sid": s["sid"], "obligations": obs, "paths": rep.paths, "queries": rep.queries,
            "solver_time": rep.solver_time, "engine_errors": rep.engine_errors, "covers": covers}


REQUIRED_COVERS = ["raised", "returned"]


def replay(ob):
    """native replay on real xarray objects"""
    import re
    import warnings

    import numpy as np
    import xarray as xr
    import xgcm

    warnings.simplefilter("ignore")
    wit = ob.get("witness") or {}
    clause = wit.get("clause", "")
    m = re.search(r"set_metrics\(([^;]*);overwrite=(True|False);key=(\w+)\)", clause)
    key = tuple(wit["key"])
    n = 4
    sizes = {"x_c": n, "x_l": n, "x_o": n + 1, "y_c": n, "y_l": n}
    ds = xr.Dataset(coords={d: np.arange(k) for d, k in sizes.items()})
    for name, (_, dims) in POOL.items():
        ds[name] = (dims, np.ones(tuple(sizes[d] for d in dims)))
    coords = {"X": {"center": "x_c", "left": "x_l", "outer": "x_o"}, "Y": {"center": "y_c", "left": "y_l"}}
    metrics0 = {("Y",): ["dy_c"]}
    if wit["pre"]:
        metrics0[key] = list(wit["pre"])
    text = [f"Grid(ds, metrics={metrics0})"]
    try:
        g = xgcm.Grid(ds, coords=coords, periodic=False, metrics=metrics0, autoparse_metadata=False)
    except Exception as e:  # noqa
        return {"confirmed": True, "text": "\n".join(text + [f"constructor raised {type(e).__name__}: {e}"])}

    def view(g):
        return {(frozenset(k), frozenset(a.dims)): a.name for k, lst in g._metrics.items() for a in lst}
    v0 = view(g)
    if not m:
        want0, _ = spec_step({}, ("Y",), ["dy_c"], False)
        want0, _ = spec_step(want0, key, list(wit["pre"]), False)
        return {"confirmed": v0 != want0, "text": "\n".join(text + [f"registry {v0} expected {want0}"])}
    names = m.group(1).split(",")
    overwrite = m.group(2) == "True"
    want, want_raise = spec_step(v0, key, names, overwrite)
    text.append(f"g.set_metrics({key!r}, {names!r}, overwrite={overwrite})")
    try:
        g.set_metrics(key, names, overwrite=overwrite)
        raised = None
    except Exception as e:  # noqa
        raised = e
    v1 = view(g)
    bad = []
    if (raised is not None) != want_raise:
        bad.append(f"raised={type(raised).__name__ if raised else None}; the statement prescribes refusal={want_raise}")
    if v1 != want:
        fmt = lambda v: sorted((sorted(k[0]), sorted(k[1]), nm) for k, nm in v.items())  # noqa
        bad.append(f"registry afterwards {fmt(v1)}; one-at-a-time registration gives {fmt(want)}")
    for k, lst in g._metrics.items():
        slots = [frozenset(a.dims) for a in lst]
        if len(set(slots)) != len(slots):
            bad.append(f"two variables are registered for the same position of axes {sorted(k)}: {[(a.name, a.dims) for a in lst]} (a slot holds ONE variable)")
    return {"confirmed": bool(bad), "text": "\n".join(text + bad)}
