"""C05 - halo cells across every kind of face link come from the documented cell.

Function under contract: xgcm.padding._pad_face_connections (real function object, with its
closures), _maybe_rename_grid_positions, _maybe_swap_dimension_names, _get_all_connection_axes,
_pad_basic (inlined; its own contract is proved in C02).

Unbounded: face size N>=2, widths 0..N per side and axis, number of faces F, face index i,
source faces, all data values, fill values.  Structural enumeration: link shape of the generic
face, input kind (scalar / vector component), boundary rule on open edges, which axes are in
boundary_width, position of extra dimensions.
"""
from __future__ import annotations

import itertools
import random

import z3

from vp import symx
from vp.symx import SymInt, mk_int, oblige, zint
from vp.mxr import MArr, MDataset, XRModel
from vp import util
from contracts import spec

PROPERTY = "C05"
FN = "padding._pad_face_connections"

META = {
    "level": "proof",
    "functions_under_contract": [
        "xgcm.padding._pad_face_connections (incl. closures _max_boundary_width, _trim_expanded_padding_width)",
        "xgcm.padding._maybe_rename_grid_positions", "xgcm.padding._maybe_swap_dimension_names",
        "xgcm.padding._get_all_connection_axes", "xgcm.padding._pad_basic (inlined)",
        "xgcm.axis.Axis._get_position_name", "xgcm.axis.Axis.__init__",
    ],
    "trusted_base": [
        "xarray model vp/mxr.py: isel/rename/squeeze/expand_dims/pad/concat(ensure_common_dims)/drop_vars/copy (assumed contracts, conformance-sampled)",
        "generic-face rule: loop over faces has no loop-carried state except faces.append (checked syntactically by vp/loopcheck.py on every run)",
        "CPython executes the function as written; proxies intercept all symbolic control flow",
        "z3 5.1 is sound",
        "floating-point data treated as mathematical reals (only negation and copying occur here)",
    ],
    "assumptions": [
        "faces are square N x N with N >= 2; requested widths 0 <= w <= N",
        "the link table is reciprocal (C17) - only used to know that both axes carry connections when a swapped link exists",
        "halo corner cells are excluded (C12 covers determinism there)",
    ],
    "bounded_standins": [
        "native-table[bounded]: whole reciprocal tables (periodic rings of 1-3 faces on either axis; 10 / 40 random tables over 2-5 faces with reversed, axis-swapping "
        "and self links) through the real constructor, real xarray and real pad, scalar and both vector components, 4 x 4 faces: every non-corner cell of every "
        "face against the C05 specification. Stands in for what the generic-face proof cannot see by construction: state carried between faces of the loop, "
        "coinciding links of one face, self links. Never counted as proved.",
    ],
}

LINK_KINDS = [("same", False), ("same", True), ("swap", False), ("swap", True)]
SLOTS = [("X", 0), ("X", 1), ("Y", 0), ("Y", 1)]
OTHER = {"X": "Y", "Y": "X"}


class GenTable:
    """ghost connection table for an arbitrary number of faces: the entry of the generic face
    has a concrete shape and symbolic contents"""

    def __init__(self, entry, conn_axes):
        self.entry = entry
        self.conn_axes = conn_axes

    def __getitem__(self, i):
        return self.entry

    def values(self):
        return [self.entry, {a: (None, None) for a in self.conn_axes}]

    def keys(self):
        raise symx.EngineUnsupported("iteration over the generic face table")

    def items(self):
        raise symx.EngineUnsupported("iteration over the generic face table")

    def __iter__(self):
        raise symx.EngineUnsupported("iteration over the generic face table")

    def __len__(self):
        raise symx.EngineUnsupported("len() of the generic face table")

    def __getattr__(self, name):
        # any other use of the ghost table is a limit of the generic-face abstraction, not a behaviour of the code under proof
        if name.startswith("_"):
            raise AttributeError(name)
        raise symx.EngineUnsupported(f"the generic face table does not model `{name}`")

    def __bool__(self):
        return True


def sid_of(s):
    ent = ",".join(f"{a}{'lr'[side]}:{k[0]}{'-rev' if k[1] else ''}" for (a, side), k in sorted(s["entry"].items()))
    return (f"kind={s['kind']};links={ent or 'none'};bw={''.join(s['bw'])};rules={s['rules']['X']}/{s['rules']['Y']};"
            f"conn={''.join(s['conn'])};extra={s['extra']}" + (";canary=" + s["canary"] if s.get("canary") else ""))


def mk(kind, entry, bw, rules, extra="none", canary=None):
    conn = set(a for (a, _), _ in entry.items())
    for (a, _), (k, _) in entry.items():
        if k == "swap":
            conn.add(OTHER[a])
    s = {"kind": kind, "entry": dict(entry), "bw": tuple(bw), "rules": dict(rules), "conn": tuple(sorted(conn)),
         "extra": extra}
    if canary:
        s["canary"] = canary
    s["sid"] = sid_of(s)
    return s


def side_conditions():
    from vp.loopcheck import check_independent_loop
    import xgcm.padding as P

    ok, problems, info = check_independent_loop(P._pad_face_connections, "n_facedim", {("faces", "append")})
    return [("generic-face: the loop over faces has no loop-carried state", ok, problems, info)]


def structures(tier, seed):
    out = []
    rules_ff = {"X": "fill", "Y": "fill"}
    # (1) every link kind on every slot, one at a time, for every input kind
    for slot in SLOTS:
        for lk in LINK_KINDS:
            for kind in (None, "X", "Y"):
                out.append(mk(kind, {slot: lk}, (slot[0],), rules_ff))
    # (2) two padded axes + every rule on the open edges, scalar + vector
    for rx, ry in itertools.product(("fill", "extend", "periodic"), repeat=2):
        out.append(mk(None, {("X", 1): ("same", False)}, ("X", "Y"), {"X": rx, "Y": ry}))
    for lk in LINK_KINDS:
        out.append(mk(None, {("X", 1): lk, ("Y", 0): lk}, ("X", "Y"), {"X": "extend", "Y": "fill"}))
        out.append(mk("X", {("X", 0): lk}, ("X", "Y"), {"X": "fill", "Y": "extend"}))
        out.append(mk("Y", {("Y", 1): lk}, ("X", "Y"), {"X": "periodic", "Y": "fill"}))
    # (2a) scalars with BOTH slots of an axis linked by different kinds
    for a in ("X", "Y"):
        for lkL, lkR in itertools.product(LINK_KINDS, repeat=2):
            if lkL != lkR:
                out.append(mk(None, {(a, 0): lkL, (a, 1): lkR}, (a,), rules_ff))
    # (2b) vector components with BOTH slots of an axis linked (different kinds on the two sides)
    for kind in ("X", "Y"):
        for a in ("X", "Y"):
            for lkL, lkR in itertools.product(LINK_KINDS, repeat=2):
                if tier == "quick" and (lkL[1] and lkR[1]):
                    continue
                out.append(mk(kind, {(a, 0): lkL, (a, 1): lkR}, (a,), rules_ff))
    # (3) extra dimensions before / after the face dimension
    for extra in ("before", "after", "both"):
        out.append(mk(None, {("X", 1): ("swap", False)}, ("X",), rules_ff, extra))
        out.append(mk("X", {("X", 0): ("swap", True)}, ("X",), rules_ff, extra))
    # (4) no link at all on the generic face of a connected grid / width axes without links
    out.append(mk(None, {}, ("X", "Y"), {"X": "extend", "Y": "periodic"}))
    out[-1]["conn"] = ("X",)
    out[-1]["sid"] = sid_of(out[-1])
    # (5) seeded random multi-slot shapes
    rng = random.Random(seed)
    n_rand = 30 if tier == "quick" else 80
    for _ in range(n_rand):
        entry = {}
        for slot in SLOTS:
            if rng.random() < 0.6:
                entry[slot] = rng.choice(LINK_KINDS)
        kind = rng.choice([None, None, "X", "Y"])
        bw = rng.choice([("X",), ("Y",), ("X", "Y")])
        rules = {"X": rng.choice(["fill", "extend", "periodic"]), "Y": rng.choice(["fill", "extend", "periodic"])}
        out.append(mk(kind, entry, bw, rules, rng.choice(["none", "none", "before", "after"])))
        out[-1]["sid"] = "rnd:" + out[-1]["sid"]
    if tier == "thorough":
        # all 5^4 = 625 slot shapes x 3 input kinds under one rule assignment
        for combo in itertools.product([None] + LINK_KINDS, repeat=4):
            entry = {slot: lk for slot, lk in zip(SLOTS, combo) if lk is not None}
            for kind in (None, "X", "Y"):
                out.append(mk(kind, entry, ("X", "Y"), {"X": "fill", "Y": "extend"}))
        # all 9 rule assignments on single-slot shapes
        for slot in SLOTS:
            for lk in LINK_KINDS:
                for rx, ry in itertools.product(("fill", "extend", "periodic"), repeat=2):
                    out.append(mk(None, {slot: lk}, ("X", "Y"), {"X": rx, "Y": ry}))
    # canaries: deliberately wrong twins of the spec that must be refuted
    out.append(mk(None, {("X", 1): ("same", False)}, ("X",), rules_ff, canary="depth-off-by-one"))
    out.append(mk(None, {("X", 1): ("swap", False)}, ("X",), rules_ff, canary="no-mirror"))
    out.append(mk("X", {("X", 0): ("same", True)}, ("X",), rules_ff, canary="no-sign"))
    out.append(mk("Y", {("X", 1): ("swap", False)}, ("X",), rules_ff, canary="wrong-partner"))
    out += native_table_structures(tier, seed)
    seen = {}
    for s in out:
        seen.setdefault(s["sid"], s)
    return list(seen.values())


def build(s):
    """symbolic inputs + ghost grid for structure s; returns a dict of everything"""
    c = symx.ctx()
    N = SymInt(z3.Int("N"))
    F = SymInt(z3.Int("F"))
    c.assume(N.e >= 2, F.e >= 1)
    W = {}
    for a in s["bw"]:
        lo, hi = z3.Int(f"w{a}lo"), z3.Int(f"w{a}hi")
        c.assume(lo >= 0, hi >= 0, lo <= N.e, hi <= N.e)
        W[a] = (mk_int(lo), mk_int(hi))
    kind = s["kind"]
    if kind is None:
        xd, yd = "x", "y"
        pxd, pyd = None, None
    elif kind == "X":
        xd, yd = "xl", "y"
        pxd, pyd = "x", "yl"
    else:
        xd, yd = "x", "yl"
        pxd, pyd = "xl", "y"
    pre, post = [], []
    if s["extra"] in ("before", "both"):
        pre = ["t"]
    if s["extra"] in ("after", "both"):
        post = ["z"]
    T, Z = SymInt(z3.Int("T")), SymInt(z3.Int("Z"))
    c.assume(T.e >= 1, Z.e >= 1)
    esz = {"t": T, "z": Z}

    def mkfield(name, ydim, xdim):
        dims = pre + ["face"] + post + [ydim, xdim]
        sizes = {**{d: esz[d] for d in pre + post}, "face": F, ydim: N, xdim: N}
        return util.field(name, dims, sizes)
    da = mkfield("D", yd, xd)
    partner = mkfield("P", pyd, pxd) if kind else None
    ds = MDataset({"x": N, "xl": N, "y": N, "yl": N, "face": F, "t": T, "z": Z})
    from xgcm.axis import Axis

    fills = {"X": z3.Real("fillX"), "Y": z3.Real("fillY")}
    axes = {"X": Axis(ds, "X", {"center": "x", "left": "xl"}), "Y": Axis(ds, "Y", {"center": "y", "left": "yl"})}
    entry = {}
    srcs = {}
    for (a, side), (k, rev) in s["entry"].items():
        src = z3.Int(f"src_{a}{side}")
        c.assume(src >= 0, src < F.e)
        srcs[(a, side)] = src
        lr = list(entry.get(a, (None, None)))
        lr[side] = (mk_int(src), a if k == "same" else OTHER[a], rev)
        entry[a] = tuple(lr)

    class Grid:
        pass
    g = Grid()
    g.axes = axes
    g._facedim = "face"
    g._face_connections = {"face": GenTable(entry, s["conn"])}
    return dict(N=N, F=F, W=W, da=da, partner=partner, grid=g, fills=fills, srcs=srcs, xd=xd, yd=yd,
                pre=pre, post=post, esz=esz)


def expected(s, b, out, canary=None):
    """emit the postcondition obligations (from the property statement) on `out`"""
    c = symx.ctx()
    N = b["N"].e
    kind = s["kind"]
    xd, yd = b["xd"], b["yd"]
    D = b["da"].fn
    Pn = b["partner"].fn if b["partner"] is not None else None
    W = {a: (zint(b["W"][a][0]), zint(b["W"][a][1])) if a in b["W"] else (z3.IntVal(0), z3.IntVal(0)) for a in ("X", "Y")}
    gen = c.ghost.get("generic")
    if gen is None:
        oblige("generic-face-loop-used", False)
        return
    fi = gen[0]
    obs = []
    dimof = {"X": xd, "Y": yd}
    for a in ("X", "Y"):
        d = dimof[a]
        if d not in out.sizes:
            obs.append((f"dims:{a}-dimension-present", False))
            return obs
        obs.append((f"size:{a}", zint(out.sizes[d]) == N + W[a][0] + W[a][1]))
    obs.append(("size:face", zint(out.sizes.get("face", 0)) == b["F"].e))
    obs.append(("dims:same-set", set(out.dims) == set(b["da"].dims)))
    for d in b["pre"] + b["post"]:
        obs.append((f"size:{d}", zint(out.sizes[d]) == b["esz"][d].e))
    qx, qy = z3.Int("qx"), z3.Int("qy")
    ex = {d: z3.Int(f"q{d}") for d in b["pre"] + b["post"]}
    rng = [z3.And(ex[d] >= 0, ex[d] < b["esz"][d].e) for d in ex]
    rng += [qx >= 0, qx < N + W["X"][0] + W["X"][1], qy >= 0, qy < N + W["Y"][0] + W["Y"][1]]
    rng = z3.And(*rng)
    got = out.elem({**ex, "face": fi, yd: qy, xd: qx})
    cells = []  # (name, region, value) - also used by the native replay
    cx, cy = qx - W["X"][0], qy - W["Y"][0]
    exl = [ex[d] for d in b["pre"]]
    exr = [ex[d] for d in b["post"]]

    def at(fn, f, y, x):
        return fn(*exl, f, *exr, y, x)
    inx = z3.And(cx >= 0, cx < N)
    iny = z3.And(cy >= 0, cy < N)
    cells.append(("interior", z3.And(rng, inx, iny), at(D, fi, cy, cx)))
    rules, fills = s["rules"], b["fills"]
    for a in ("X", "Y"):
        o = OTHER[a]
        ca, co = (cx, cy) if a == "X" else (cy, cx)  # coordinate along a / along the edge
        in_o = z3.And(co >= 0, co < N)
        for side in (0, 1):
            region = z3.And(rng, in_o, (ca >= N) if side else (ca < 0))
            k = (ca - N + 1) if side else (-ca)
            t = co
            link = s["entry"].get((a, side))
            tag = f"{a}-{'right' if side else 'left'}"
            if link is None:
                def getter(j, a=a):
                    return at(D, fi, cy, j) if a == "X" else at(D, fi, j, cx)
                val = spec.ext(rules[a], getter, N, ca, fills[a])
                cells.append((f"open-edge:{tag}", region, val))
            else:
                lk, rev = link
                same = lk == "same"
                src_axis = a if same else o
                src = b["srcs"][(a, side)]
                kk = k + 1 if canary == "depth-off-by-one" else k
                cc, tt = spec.link_source(N, side == 1, same, rev, kk, t)
                if canary == "no-mirror":
                    tt = t
                sign = spec.link_sign(kind, a, same, rev)
                if canary == "no-sign":
                    sign = 1
                C = D if (kind is None or same) else Pn
                if canary == "wrong-partner":
                    C = D
                # source cell: position cc along src_axis, tt along the other axis
                val = at(C, src, tt, cc) if src_axis == "X" else at(C, src, cc, tt)
                if sign == -1:
                    val = -val
                cells.append((f"halo:{tag}", region, val))
    for name, region, val in cells:
        obs.append((name, z3.Implies(region, got == val)))
    b["cells"] = cells
    b["q"] = {"face": fi, yd: qy, xd: qx, **ex}
    return obs


def native_table_structures(tier, seed):
    """[bounded] whole reciprocal tables on the real code: covers what the generic-face rule cannot see by construction
    (state carried from one face of the loop to the next, links of one face that coincide, self links)"""
    import random
    out = []
    for F in (1, 2, 3):
        for ax in ("X", "Y"):
            out.append({"part": "native-table", "sid": f"native-table[bounded];ring;F={F};axis={ax}", "table": "ring", "F": F, "axis": ax})
    rng = random.Random(1000 + int(seed))
    for k in range(40 if tier == "thorough" else 10):
        out.append({"part": "native-table", "sid": f"rnd:native-table[bounded];{k}", "table": "random", "F": rng.choice((2, 3, 3, 4, 5)), "rseed": rng.randrange(10 ** 6)})
    return out


def run_native_table(s):
    import random
    import time
    from harness import native_pad as NP
    t0 = time.time()
    rng = random.Random(s.get("rseed", 0))
    if s["table"] == "ring":
        table = NP.ring_table(s["F"], s["axis"])
    else:
        table = NP.random_table(rng, s["F"])
    conn = sorted({a for d in table.values() for a in d})
    bad, ncmp, nrun = [], 0, 0
    wsets = [{"X": (1, 1), "Y": (1, 1)}, {"X": (2, 1), "Y": (1, 2)}, {"X": (0, 2), "Y": (2, 0)}]
    rsets = [{"X": "fill", "Y": "extend"}, {"X": "extend", "Y": "periodic"}, {"X": "periodic", "Y": "fill"}]
    for kind in (None, "X", "Y"):
        for k in range(2):
            Wv = dict(wsets[rng.randrange(3)])
            if s["table"] == "ring":
                Wv = {s["axis"]: Wv[s["axis"]]}
            rules = rsets[rng.randrange(3)]
            extra = ("none", "before", "after")[rng.randrange(3)]
            # the table is a mapping: the order in which faces and axes are LISTED is arbitrary
            forder = list(table)
            rng.shuffle(forder)
            aorder = ["Y", "X"] if rng.random() < 0.5 else ["X", "Y"]
            try:
                mism, n = NP.check_table(table, kind, Wv, rules, N=4, extra=extra, face_order=forder, axis_order=aorder)
            except Exception as e:  # noqa
                import traceback
                return {"sid": s["sid"], "crash": f"native table harness: {type(e).__name__}: {e}", "tb": traceback.format_exc(limit=6), "obligations": [], "paths": 0, "queries": 0, "solver_time": 0.0}
            ncmp += n
            nrun += 1
            if mism:
                bad.append({"face_order": forder, "axis_order": aorder, "table": {str(f): {a: [None if l is None else list(l) for l in lr] for a, lr in d.items()} for f, d in table.items()}, "kind": kind, "widths": {a: list(v) for a, v in Wv.items()},
                            "rules": rules, "extra": extra, "mismatches": mism[:4]})
                break
        if bad:
            break
    rec = {"fn": "padding.pad[bounded, real xarray]", "clause": "every-non-corner-cell-of-every-face-is-the-documented-cell", "status": "failed" if bad else "proved", "time": time.time() - t0,
           "detail": f"{nrun} pad calls, {ncmp} cells compared" if not bad else bad[0]["mismatches"][0]}
    if bad:
        rec["witness"] = {"part": "native-table", "case": bad[0]}
    return {"sid": s["sid"], "obligations": [rec], "paths": 0, "queries": 0, "solver_time": 0.0, "engine_errors": [], "covers": {"native-table": 1},
            "counts": {"bounded_standin_evaluations": nrun, "bounded_cells_compared": ncmp}}


def run_structure(s):
    if s.get("part") == "native-table":
        return run_native_table(s)
    mods = util.xgcm_modules()
    P = mods["padding"]
    canary = s.get("canary")
    covers = {}

    def body():
        b = build(s)
        arg = b["da"] if s["kind"] is None else util.TrackedDict({s["kind"]: b["da"]})
        oc = None if s["kind"] is None else util.TrackedDict({OTHER[s["kind"]]: b["partner"]})
        try:
            out = P._pad_face_connections(arg, b["grid"], dict(b["W"]), dict(s["rules"]),
                                          {a: symx.SymFloat(b["fills"][a]) for a in ("X", "Y")}, other_component=oc)
        except (symx.EngineUnsupported, symx.InfeasiblePath, symx.PathAbort):
            raise
        except Exception as e:  # noqa
            oblige("returns-normally", False, detail=f"{type(e).__name__}: {e}")
            return "raise"
        oblige("returns-normally", True)
        for name, goal in expected(s, b, out, canary):
            ob = oblige(name, goal)
        covers["normal-return"] = covers.get("normal-return", 0) + 1
        return "ok"

    with util.patched(*util.std_patches(mods, sets=True)):
        rep = symx.explore(body, s["sid"])
    return summarize(rep, s, covers, canary)


def summarize(rep, s, covers, canary=None, fn=FN, concretize=None):
    obs = []
    for name, ob in rep.merged().items():
        rec = {"fn": fn, "clause": name, "status": ob.status, "time": ob.time, "detail": ob.detail}
        if ob.status == "failed":
            rec["witness"] = (concretize or witness_of)(s, ob.model)
        if canary:
            # only the clause the canary corrupts is expected to fail
            if name.startswith(("halo:",)):
                rec["canary"] = True
            else:
                continue
        obs.append(rec)
    return {"sid": s["sid"], "obligations": obs, "paths": rep.paths, "queries": rep.queries,
            "solver_time": rep.solver_time, "engine_errors": rep.engine_errors, "covers": covers}


def witness_of(s, model):
    w = {"structure": {k: (v if k != "entry" else {f"{a}{side}": list(x) for (a, side), x in v.items()}) for k, v in s.items()}}
    if model is None:
        return w
    vals = {}
    for d in model.decls():
        if d.arity() == 0:
            v = model[d]
            if z3.is_int_value(v):
                vals[d.name()] = v.as_long()
            elif z3.is_rational_value(v):
                vals[d.name()] = str(v)
    w["model"] = vals
    return w


# ---------------------------------------------------------------------------------------------
def replay(ob):
    """native replay: build real xarray inputs from the model and compare the real
    xgcm.padding.pad with the specification evaluated on numbers"""
    from harness import native_pad

    wit = ob.get("witness") or {}
    if wit.get("part") == "native-table":
        c = wit["case"]
        table = {int(f): {a: tuple(None if l is None else (l[0], l[1], bool(l[2])) for l in lr) for a, lr in d.items()} for f, d in c["table"].items()}
        mism, n = native_pad.check_table(table, c["kind"], {a: tuple(v) for a, v in c["widths"].items()}, c["rules"], N=4, extra=c["extra"],
                                         face_order=c.get("face_order"), axis_order=c.get("axis_order"))
        head = f"real Grid / pad on the table {table} (faces listed in the order {c.get('face_order')}, axes {c.get('axis_order')}), input {'scalar' if c['kind'] is None else 'vector component ' + c['kind']}, widths {c['widths']}, rules {c['rules']}"
        return {"confirmed": bool(mism), "text": "\n".join([head] + (["REAL CODE DISAGREES WITH THE SPECIFICATION:"] + mism[:8] if mism else ["agrees natively"]))}
    return native_pad.replay_face(ob)
