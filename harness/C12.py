"""C12 - results do not depend on the hash seed or on table ordering.

Hash randomisation can influence a pure-Python result only through the iteration order of sets of
strings.  In the modules concerned the names `set` / `frozenset` are bound to DEMONIC versions whose
iteration order is an explored choice (all permutations).  Relational obligation: any two runs that
differ only in those choices (and in the insertion order of the face-connection table) produce the
same dims, the same accept/reject outcome and - for all sizes, widths and data - the same values,
INCLUDING the halo corner cells.

Parts: padding (corners), signature equivalence, axis order of autoparsed grids, metric products.
"""
from __future__ import annotations

import ast
import inspect
import itertools
import textwrap

import z3

from vp import symx, util
from vp.symx import zint
from vp.world import SymWorld, model_values
from harness import C05, C10, C14, C15

PROPERTY = "C12"
META = {
    "level": "proof",
    "functions_under_contract": ["xgcm.padding._pad_face_connections / _get_all_connection_axes (incl. halo corner cells)", "xgcm.grid_ufunc._GridUFuncSignature.equivalent",
                                 "xgcm.comodo.get_all_axes -> metadata_parsers.parse_comodo -> Grid.axes order", "xgcm.sgrid.get_all_axes -> metadata_parsers.parse_sgrid -> Grid.axes order",
                                 "xgcm.metrics.iterate_axis_combinations -> Grid.get_metric (choice among partitions)"],
    "trusted_base": ["the only channel from PYTHONHASHSEED to a result of pure-Python code is the iteration order of set/frozenset objects holding str (dicts are insertion ordered, ints hash to themselves)",
                     "the inventory of set-creating / set-iterating sites is taken from the AST of xgcm on every run (listed in the evidence); sets created by C code of the libraries are outside",
                     "xarray model vp/mxr.py", "z3 5.1 is sound"],
    "assumptions": ["structures enumerated as in C05 / C10 / C14 / C15; sizes, widths, data symbolic"],
}


def set_sites():
    """static inventory: every expression of xgcm that creates a set and every module where one is iterated"""
    mods = util.xgcm_modules()
    sites = []
    for name, mod in mods.items():
        try:
            src = inspect.getsource(mod)
        except OSError:
            continue
        tree = ast.parse(src)
        for n in ast.walk(tree):
            if isinstance(n, ast.Call) and isinstance(n.func, ast.Name) and n.func.id in ("set", "frozenset"):
                sites.append(f"xgcm/{name}.py:{n.lineno} {n.func.id}(...)")
            elif isinstance(n, (ast.Set, ast.SetComp)):
                sites.append(f"xgcm/{name}.py:{n.lineno} set display/comprehension")
    return sites


def structures(tier, seed):
    out = []
    # padding: 2-D widths, every rule pair on the open edges, link shapes with corners of interest
    LK = C05.LINK_KINDS
    rule_pairs = list(itertools.product(("fill", "extend", "periodic"), repeat=2))
    if tier == "quick":
        rule_pairs = [("fill", "extend"), ("extend", "fill"), ("extend", "extend"), ("periodic", "extend")]
    for rx, ry in rule_pairs:
        out.append(dict(part="pad", tier=tier, s5=C05.mk(None, {("X", 1): ("same", False)}, ("X", "Y"), {"X": rx, "Y": ry})))
    for lk in LK:
        out.append(dict(part="pad", tier=tier, s5=C05.mk(None, {("X", 1): lk, ("Y", 0): lk}, ("X", "Y"), {"X": "extend", "Y": "fill"})))
        if tier == "thorough" or lk[0] == "swap":
            out.append(dict(part="pad", tier=tier, s5=C05.mk("X", {("X", 0): lk, ("Y", 1): ("same", False)}, ("X", "Y"), {"X": "fill", "Y": "extend"})))
    out.append(dict(part="pad", s5=C05.mk(None, {("X", 0): ("swap", False), ("X", 1): ("same", True), ("Y", 0): ("same", False), ("Y", 1): ("swap", True)}, ("X", "Y"), {"X": "extend", "Y": "extend"})))
    out.append(dict(part="pad", s5=C05.mk(None, {("Y", 1): ("same", False)}, ("Y", "X"), {"X": "extend", "Y": "fill"}, "before")))
    for d in out:
        d["sid"] = "pad;" + d["s5"]["sid"]
    out.append(dict(part="equiv", sid="equivalent;all-set-orders", seed=seed, tier=tier))
    for k, s14 in enumerate(C14.comodo_structures("quick")[-4:] + [s for s in C14.sgrid_structures("quick") if s["topo"] in ("2d+v", "3d")][:6]):
        out.append(dict(part="parse", sid="parse;" + s14["sid"], s14=s14))
    for reg in ({"X": ["dx_c"], "Y": ["dy_c"], "Z": ["dz_c"], "XY": ["a_cc"], "YZ": ["yz_cc"]}, {"X": ["dx_c"], "Y": ["dy_c"], "Z": ["dz_c"], "XY": ["a_cc"]},
                {"X": ["dx_c", "dx_l"], "Y": ["dy_c"], "Z": ["dz_c"]}, {"XY": ["a_cc", "a_lc"], "YZ": ["yz_cc"], "X": ["dx_l"], "Z": ["dz_c"]}):
        out.append(dict(part="metric", sid="metric;" + C10.reg_sid({tuple(k): v for k, v in reg.items()}), reg=reg))
    # binding of the dummy names of a multi-argument signature to the real axes (by order of first appearance): one outcome whatever
    # the iteration order of any set created on the way
    for k, (dummies, axis) in enumerate([([("Z",), ("X", "Y")], [("depth",), ("lon", "lat")]), ([("A", "B"), ("C", "D", "A")], [("lon", "lat"), ("depth", "time", "lon")]),
                                          ([("X",), ("Y",), ("Z", "W")], [("a",), ("b",), ("c", "d")]), ([("X", "Y")], [("lat", "lon")])]):
        out.append(dict(part="bind", sid=f"bind;{k}", dummies=[list(d) for d in dummies], axis=[list(a) for a in axis]))
    # [bounded] fresh interpreters under different string-hash seeds: the axis order of autoparsed grids (catches sets that are not
    # created through the names `set` / `frozenset`, e.g. `d.keys() | {...}`)
    out.append(dict(part="native-seeds", sid="native-seeds[bounded];autoparsed-axis-order"))
    out.append(dict(part="canary", sid="canary;order-dependent-function"))
    # [bounded] the same link table / width mapping LISTED in different orders (faces, axes inside a face, keys of boundary_width), on
    # the real constructor, real xarray and real pad: the results are compared with each other, corners included
    for k in range(12 if tier == "thorough" else 4):
        out.append(dict(part="native-listing", sid=f"rnd:native-listing[bounded];{k}", rseed=1000 * int(seed) + k))
    out.append(dict(part="native-listing", sid="native-listing[bounded];two-face-ring", rseed=-1))
    return out


def run_native_listing(s):
    import random
    import time

    import numpy as np
    from harness import native_pad as NP
    t0 = time.time()
    rng = random.Random(s["rseed"])
    if s["rseed"] < 0:
        table = {0: {"X": (None, (1, "X", False)), "Y": ((1, "Y", True), None)}, 1: {"X": ((0, "X", False), None), "Y": ((0, "Y", True), None)}}
    else:
        table = NP.random_table(rng, rng.choice((2, 3, 4)))
    faces = list(table)
    bad, ncmp = [], 0
    for kind in (None, "X"):
        Wv = {"X": (1, 2), "Y": (2, 1)}
        rules = [{"X": "extend", "Y": "fill"}, {"X": "fill", "Y": "extend"}, {"X": "extend", "Y": "extend"}][rng.randrange(3)]
        ref = NP.check_table(table, kind, Wv, rules, N=3, return_output=True)
        for trial in range(4):
            fo = faces[:]
            rng.shuffle(fo)
            if trial == 0:
                fo = faces[::-1]
            ao = ["Y", "X"] if trial % 2 == 0 else ["X", "Y"]
            Wl = {a: Wv[a] for a in (["Y", "X"] if trial < 2 else ["X", "Y"])}
            got = NP.check_table(table, kind, Wl, {a: rules[a] for a in reversed(list(rules))}, N=3, return_output=True, face_order=fo, axis_order=ao)
            ncmp += 1
            same = (isinstance(ref, str) and ref == got) or (not isinstance(ref, str) and not isinstance(got, str) and set(ref.dims) == set(got.dims)
                                                              and np.array_equal(ref.values, got.transpose(*ref.dims).values))
            if not same:
                bad.append({"table": {str(f): {a: [None if l is None else list(l) for l in lr] for a, lr in d.items()} for f, d in table.items()}, "kind": kind, "face_order": fo,
                            "axis_order": ao, "width_keys": list(Wl), "rules": rules})
                break
        if bad:
            break
    rec = {"fn": "padding.pad[bounded, real xarray]", "clause": "same-result-for-every-listing-order-of-the-table-and-of-boundary_width", "status": "failed" if bad else "proved",
           "time": time.time() - t0, "detail": f"{ncmp} listings compared" if not bad else f"faces listed {bad[0]['face_order']}, axes {bad[0]['axis_order']}, width keys {bad[0]['width_keys']}"}
    if bad:
        rec["witness"] = {"part": "native-listing", "case": bad[0]}
    return {"sid": s["sid"], "obligations": [rec], "paths": 0, "queries": 0, "solver_time": 0.0, "engine_errors": [], "covers": {"native-listing": 1},
            "counts": {"bounded_standin_evaluations": ncmp}}


def side_conditions():
    sites = set_sites()
    return [("inventory of set-creating sites taken from the AST", True, [], {"sites": sites, "count": len(sites)})]


def result(obs, s, rep, covers, n_pairs=0):
    return {"sid": s["sid"], "obligations": obs, "paths": rep.paths if rep else 0, "queries": rep.queries if rep else 0,
            "solver_time": rep.solver_time if rep else 0.0, "engine_errors": rep.engine_errors if rep else [], "covers": covers,
            "counts": {"order_pairs_compared": n_pairs}}


def verdicts(fn, diffs, n_checked, s, extra_witness=None):
    obs = []
    failed = [d for d in diffs if d[0] == "failed"]
    unknown = [d for d in diffs if d[0] == "unknown"]
    st = "failed" if failed else ("unknown" if unknown else "proved")
    rec = {"fn": fn, "clause": "result-independent-of-set-iteration-and-table-order", "status": st, "time": 0,
           "detail": f"{n_checked} jointly feasible order pairs compared" if st == "proved" else f"{(failed or unknown)[0][1]} differs between orders {(failed or unknown)[0][2]['order']} and {(failed or unknown)[0][3]['order']}"}
    if failed:
        d = failed[0]
        rec["witness"] = {"part": s["part"], "what": d[1], "order_a": repr(d[2]["order"]), "order_b": repr(d[3]["order"]), "model": model_values(d[4]), **(extra_witness or {})}
    obs.append(rec)
    return obs


def run_pad(s):
    mods = util.xgcm_modules()
    P = mods["padding"]
    s5 = s["s5"]
    covers = {}

    def make_body(table_perm):
        def body():
            b = C05.build(s5)
            # insertion order of the table: order of the axis keys of the generic face's entry and of the list of faces
            tab = b["grid"]._face_connections["face"]
            ent = tab.entry
            keys = list(ent)
            if table_perm[0] and len(keys) > 1:
                ent2 = {k: ent[k] for k in reversed(keys)}
                tab.entry = ent2
            if table_perm[1]:
                orig_values = tab.values
                tab.values = lambda: list(reversed(orig_values()))
            arg = b["da"] if s5["kind"] is None else {s5["kind"]: b["da"]}
            oc = None if s5["kind"] is None else {C05.OTHER[s5["kind"]]: b["partner"]}
            W = dict(b["W"])
            if table_perm[2]:
                W = {k: W[k] for k in reversed(list(W))}
            try:
                out = P._pad_face_connections(arg, b["grid"], W, dict(s5["rules"]), {a: symx.SymFloat(b["fills"][a]) for a in ("X", "Y")}, other_component=oc)
            except (symx.EngineUnsupported, symx.InfeasiblePath, symx.PathAbort):
                raise
            except Exception as e:  # noqa
                return {"order": (table_perm, tuple(map(tuple, symx.ctx().ghost.get("set-order", {}).values()))), "flags": {"exit": type(e).__name__}, "terms": {}}
            gen = symx.ctx().ghost.get("generic")
            fi = gen[0]
            xd, yd = b["xd"], b["yd"]
            q = {d: z3.Int(f"q_{d}") for d in out.dims}
            q["face"] = fi
            rng = z3.And(*[z3.And(q[d] >= 0, q[d] < zint(out.sizes[d])) for d in out.dims if d != "face"])
            covers["padded"] = covers.get("padded", 0) + 1
            return {"order": (table_perm, tuple(map(tuple, symx.ctx().ghost.get("set-order", {}).values()))),
                    "flags": {"exit": "return", "dims": tuple(sorted(out.dims))},
                    "terms": {"value(every cell incl. corners)": z3.If(rng, out.elem(q), z3.RealVal(0)),
                              **{f"size:{d}": zint(out.sizes[d]) for d in out.dims}}}
        return body
    records = []
    rep_all = None
    with util.patched(*util.std_patches(mods, sets=True)):
        perms = list(itertools.product((False, True), repeat=3))
        if s.get("tier", "quick") == "quick":
            perms = [(False, False, False), (True, False, False), (False, True, False), (False, False, True)]
        for perm in perms:
            rep, recs = symx.explore_records(make_body(perm), s["sid"])
            records += recs
            if rep_all is None:
                rep_all = rep
            else:
                rep_all.paths += rep.paths
                rep_all.queries += rep.queries
                rep_all.solver_time += rep.solver_time
                rep_all.engine_errors += rep.engine_errors
    diffs, n = symx.compare_records(records)
    return result(verdicts("padding._pad_face_connections", diffs, n, s, {"s5": {k: (v if k != "entry" else {f"{a}{sd}": list(x) for (a, sd), x in v.items()}) for k, v in s5.items()}}), s, rep_all, covers, n)


def run_equiv(s):
    r = C15.part_c({"sid": s["sid"], "seed": s["seed"], "tier": "quick"})
    obs = []
    for o in r["obligations"]:
        o = dict(o, fn="grid_ufunc._GridUFuncSignature.equivalent", clause="result-independent-of-set-iteration-and-table-order")
        if "witness" in o:
            o["witness"] = {"part": "equiv", **o["witness"]}
        obs.append(o)
    return {"sid": s["sid"], "obligations": obs, "paths": r["paths"], "queries": 0, "solver_time": 0.0, "engine_errors": [], "covers": {"equiv": 1},
            "counts": {"order_pairs_compared": r["paths"]}}


NATIVE_SEED_CODE = r"""
import warnings
import numpy as np, xarray as xr
import xgcm
warnings.simplefilter("ignore")
N = 3
out = []
for vert in (True, False):
    attrs = {"cf_role": "grid_topology", "topology_dimension": 2, "node_dimensions": "XG YG", "face_dimensions": "XC: XG (padding: high) YC: YG (padding: low)"}
    if vert:
        attrs["vertical_dimensions"] = "ZC: ZG (padding: high)"
    ds = xr.Dataset({"grid": ((), np.array(1, dtype="int32"), attrs)}, attrs={"Conventions": "SGRID-0.3"},
                    coords={"XC": np.arange(N) + 0.5, "XG": np.arange(N), "YC": np.arange(N) + 0.5, "YG": np.arange(N), "ZC": np.arange(2) + 0.5, "ZG": np.arange(2)})
    out.append(list(xgcm.Grid(ds, periodic=False).axes))
ds3 = xr.Dataset({"grid": ((), np.array(1, dtype="int32"), {"cf_role": "grid_topology", "topology_dimension": 3, "node_dimensions": "XG YG ZG",
                 "volume_dimensions": "XC: XG (padding: high) YC: YG (padding: high) ZC: ZG (padding: high)"})}, attrs={"Conventions": "SGRID-0.3"},
                 coords={"XC": np.arange(N) + 0.5, "XG": np.arange(N), "YC": np.arange(N) + 0.5, "YG": np.arange(N), "ZC": np.arange(2) + 0.5, "ZG": np.arange(2)})
out.append(list(xgcm.Grid(ds3, periodic=False).axes))
dc = xr.Dataset(coords={"lon_c": ("lon_c", np.arange(N) + 0.5, {"axis": "X"}), "lon_g": ("lon_g", np.arange(N) * 1.0, {"axis": "X", "c_grid_axis_shift": -0.5}),
                        "lat_c": ("lat_c", np.arange(N) + 0.5, {"axis": "Y"}), "lat_g": ("lat_g", np.arange(N) * 1.0, {"axis": "Y", "c_grid_axis_shift": -0.5}),
                        "dep": ("dep", np.arange(2) * 1.0, {"axis": "Z"}), "time": ("time", np.arange(2) * 1.0, {"axis": "T"})})
g = xgcm.Grid(dc, periodic=False)
out.append(list(g.axes))
out.append([sorted(ax.coords.items()) for ax in g.axes.values()])
print(out)
"""


def run_native_seeds(s):
    import time
    t0 = time.time()
    outs = _multi_seed(NATIVE_SEED_CODE, seeds=range(10))
    rec = {"fn": "metadata_parsers / Grid.__init__[bounded, fresh interpreters]", "clause": "autoparsed-axis-order-the-same-under-10-hash-seeds", "status": "proved" if len(outs) == 1 else "failed",
           "time": time.time() - t0, "detail": next(iter(outs))[:200] if len(outs) == 1 else f"{len(outs)} distinct outcomes: {[k[:120] for k in list(outs)[:3]]}"}
    if len(outs) != 1:
        rec["witness"] = {"part": "native-seeds", "outcomes": {k[:300]: v for k, v in outs.items()}}
    return {"sid": s["sid"], "obligations": [rec], "paths": 0, "queries": 0, "solver_time": 0.0, "engine_errors": [], "covers": {"native-seeds": 1},
            "counts": {"bounded_standin_evaluations": 10}}


def run_bind(s):
    """_identify_dummy_axes_with_real_axes under demonic set iteration: the mapping is the positional one (first appearance)"""
    mods = util.xgcm_modules()
    GU = mods["grid_ufunc"]
    dummies = [tuple(d) for d in s["dummies"]]
    axis = [tuple(a) for a in s["axis"]]
    want = {}
    for dn, rn in zip([x for arg in dummies for x in arg], [x for arg in axis for x in arg]):
        want.setdefault(dn, rn)
    covers = {}

    def body():
        try:
            m = dict(GU._identify_dummy_axes_with_real_axes(dummies, axis))
        except (symx.EngineUnsupported, symx.InfeasiblePath, symx.PathAbort):
            raise
        except Exception as e:  # noqa
            symx.oblige("binding-is-by-order-of-first-appearance-for-every-set-order", False, detail=f"{type(e).__name__}: {e}")
            return
        covers["bind"] = 1
        symx.oblige("binding-is-by-order-of-first-appearance-for-every-set-order", m == want, detail=f"{m} vs {want}; set orders {dict(symx.ctx().ghost.get('set-order', {}))}")
    with util.patched((GU, "set", util.DemonicSet), (GU, "frozenset", C10.DemonicFrozenSet)):
        rep = symx.explore(body, s["sid"])
    obs = []
    for name, ob in rep.merged().items():
        rec = {"fn": "grid_ufunc._identify_dummy_axes_with_real_axes", "clause": name, "status": ob.status, "time": ob.time, "detail": ob.detail}
        if ob.status == "failed":
            rec["witness"] = {"part": "bind", "dummies": s["dummies"], "axis": s["axis"]}
        obs.append(rec)
    return result(obs, s, rep, covers)


def run_parse(s):
    mods = util.xgcm_modules()
    s14 = s["s14"]
    covers = {}

    def body():
        w = SymWorld()
        if s14["part"] == "comodo":
            ds, layout, _ = C14.comodo_dataset(w, s14)
        else:
            ds, layout = C14.sgrid_dataset(w, s14)
        from xgcm import Grid
        try:
            g = Grid(ds, periodic=False)
        except (symx.EngineUnsupported, symx.InfeasiblePath, symx.PathAbort):
            raise
        except Exception as e:  # noqa
            return {"order": tuple(map(tuple, symx.ctx().ghost.get("set-order", {}).values())), "flags": {"exit": type(e).__name__}, "terms": {}}
        covers["parsed"] = covers.get("parsed", 0) + 1
        return {"order": tuple(map(tuple, symx.ctx().ghost.get("set-order", {}).values())),
                "flags": {"exit": "return", "axis-order": tuple(g.axes), "coords": tuple((a, tuple(ax.coords.items())) for a, ax in sorted(g.axes.items()))}, "terms": {}}
    pt = [(mods[m], "set", util.DemonicSet) for m in ("comodo", "sgrid", "metadata_parsers")]
    with util.patched(*util.std_patches(mods), *pt):
        rep, recs = symx.explore_records(body, s["sid"])
    diffs, n = symx.compare_records(recs)
    return result(verdicts("metadata_parsers.parse_metadata -> Grid.axes", diffs, n, s, {"s14": s14}), s, rep, covers, n)


def run_metric(s):
    mods = util.xgcm_modules()
    covers = {}
    obs = []
    rep_all = None
    n_all = 0
    for aname in ("ccc", "lcc"):
        for req in (["X", "Y", "Z"], ["Z", "Y", "X"]):
            def body():
                w = SymWorld()
                layout, ns, dims, ds, g = C10.build(w, s["reg"])
                arr = w.array("A", list(C10.ARRAYS[aname]), ds, with_coords=True)
                import warnings
                with warnings.catch_warnings():
                    warnings.simplefilter("ignore")
                    try:
                        m = g.get_metric(arr, tuple(req))
                    except (symx.EngineUnsupported, symx.InfeasiblePath, symx.PathAbort):
                        raise
                    except Exception as e:  # noqa
                        return {"order": tuple(map(tuple, symx.ctx().ghost.get("set-order", {}).values())), "flags": {"exit": type(e).__name__}, "terms": {}}
                covers["metric"] = covers.get("metric", 0) + 1
                q = {d: z3.Int(f"q_{d}") for d in m.dims}
                return {"order": tuple(map(tuple, symx.ctx().ghost.get("set-order", {}).values())), "flags": {"exit": "return", "dims": tuple(sorted(m.dims))},
                        "terms": {"value": m.elem(q)}}
            with util.patched(*util.std_patches(mods), (mods["metrics"], "frozenset", C10.DemonicFrozenSet), (mods["grid"], "frozenset", C10.DemonicFrozenSet),
                              (mods["grid"], "set", util.DemonicSet)):
                rep, recs = symx.explore_records(body, s["sid"])
            diffs, n = symx.compare_records(recs)
            n_all += n
            for o in verdicts("grid.Grid.get_metric", diffs, n, s, {"reg": s["reg"], "array": aname, "request": req}):
                o["clause"] += f":array={aname};axes={''.join(req)}"
                obs.append(o)
            if rep_all is None:
                rep_all = rep
            else:
                rep_all.paths += rep.paths
                rep_all.queries += rep.queries
                rep_all.solver_time += rep.solver_time
                rep_all.engine_errors += rep.engine_errors
    return result(obs, s, rep_all, covers, n_all)


def run_canary(s):
    """a function that does depend on set order must be flagged"""
    def body():
        st = util.DemonicSet(["X", "Y"])
        first = list(st)[0]
        return {"order": tuple(st._order()), "flags": {"first": first}, "terms": {}}
    rep, recs = symx.explore_records(body, s["sid"])
    diffs, n = symx.compare_records(recs)
    obs = [{"fn": "canary", "clause": "order-dependence-is-detected", "status": "failed" if diffs else "proved", "canary": True, "time": 0}]
    return result(obs, s, rep, {}, n)


def run_structure(s):
    return {"pad": run_pad, "equiv": run_equiv, "parse": run_parse, "metric": run_metric, "canary": run_canary, "native-listing": run_native_listing, "bind": run_bind, "native-seeds": run_native_seeds}[s["part"]](s)


REQUIRED_COVERS = ["padded", "parsed", "metric", "equiv"]


# ---- native replay: fresh interpreters under different PYTHONHASHSEED -------------------------------
def _multi_seed(code, seeds=range(24)):
    import os
    import subprocess
    import sys

    outs = {}
    for seed in seeds:
        env = dict(os.environ, PYTHONHASHSEED=str(seed))
        r = subprocess.run([sys.executable, "-W", "ignore", "-c", code], capture_output=True, text=True, env=env, timeout=120)
        outs.setdefault((r.stdout.strip() or r.stderr.strip()[-300:]), []).append(seed)
    return outs


def replay(ob):
    wit = ob.get("witness") or {}
    part = wit.get("part")
    if part == "native-seeds":
        outs = _multi_seed(NATIVE_SEED_CODE, seeds=range(10))
        return {"confirmed": len(outs) > 1, "text": f"autoparsed grids in fresh interpreters under 10 hash seeds: {len(outs)} distinct outcome(s): " + "; ".join(f"{k[:160]} (seeds {v})" for k, v in list(outs.items())[:3])}
    if part == "bind":
        code = f"""
import xgcm.grid_ufunc as GU
print(sorted(dict(GU._identify_dummy_axes_with_real_axes({[tuple(d) for d in wit['dummies']]!r}, {[tuple(a) for a in wit['axis']]!r})).items()))
"""
        outs = _multi_seed(code)
        distinct = sorted(outs)  # _multi_seed maps each distinct output to the seeds that produced it
        return {"confirmed": len(distinct) > 1, "text": f"_identify_dummy_axes_with_real_axes({wit['dummies']}, {wit['axis']}) in fresh interpreters under 24 hash seeds: {len(distinct)} distinct outcome(s): {distinct[:3]}"}
    if part == "native-listing":
        import numpy as np
        from harness import native_pad as NP
        c = wit["case"]
        table = {int(f): {a: tuple(None if l is None else (l[0], l[1], bool(l[2])) for l in lr) for a, lr in d.items()} for f, d in c["table"].items()}
        Wv = {"X": (1, 2), "Y": (2, 1)}
        ref = NP.check_table(table, c["kind"], Wv, c["rules"], N=3, return_output=True)
        got = NP.check_table(table, c["kind"], {a: Wv[a] for a in c["width_keys"]}, c["rules"], N=3, return_output=True, face_order=c["face_order"], axis_order=c["axis_order"])
        same = (isinstance(ref, str) and ref == got) or (not isinstance(ref, str) and not isinstance(got, str) and np.array_equal(ref.values, got.transpose(*ref.dims).values))
        return {"confirmed": not same, "text": f"table {table}: listed as given vs faces in the order {c['face_order']}, axes {c['axis_order']}, boundary_width keys {c['width_keys']}: "
                + ("identical results" if same else "DIFFERENT results on the real code")}
    if part == "pad":
        s5 = wit["s5"]
        code = f"""
import numpy as np, xarray as xr, xgcm, warnings
warnings.simplefilter('ignore')
N=3; F=2
ds=xr.Dataset(coords={{d: np.arange(N) for d in ('x','xl','y','yl')}}); ds=ds.assign_coords(face=np.arange(F))
g=xgcm.Grid(ds, coords={{'X':{{'center':'x','left':'xl'}},'Y':{{'center':'y','left':'yl'}}}}, periodic=False, autoparse_metadata=False)
entry={s5['entry']!r}
OTHER={{'X':'Y','Y':'X'}}
tab={{f: {{a:(None,None) for a in {list(s5['conn'])!r}}} for f in range(F)}}
ent={{}}
for k,(lk,rev) in entry.items():
    a,side=k[0],int(k[1]); lr=list(ent.get(a,(None,None))); lr[side]=(1, a if lk=='same' else OTHER[a], bool(rev)); ent[a]=tuple(lr)
tab[0]={{**tab[0],**ent}}
g._facedim='face'; g._face_connections={{'face':tab}}
kind={s5['kind']!r}
rng=np.random.default_rng(0)
mk=lambda yd,xd: xr.DataArray(rng.random((F,N,N)), dims=('face',yd,xd))
if kind is None: arg,oc=mk('y','x'),None
elif kind=='X': arg,oc={{'X':mk('y','xl')}},{{'Y':mk('yl','x')}}
else: arg,oc={{'Y':mk('yl','x')}},{{'X':mk('y','xl')}}
out=xgcm.padding.pad(arg,g,boundary_width={{'X':(1,2),'Y':(2,1)}},boundary={s5['rules']!r},fill_value={{'X':0.5,'Y':-1.5}},other_component=oc)
out=list(out.values())[0] if isinstance(out,dict) else out
print(np.round(out.transpose('face',*sorted(d for d in out.dims if d!='face')).values,6).tolist())
"""
        outs = _multi_seed(code)
        return {"confirmed": len(outs) > 1, "text": f"padded array (incl. corners) under PYTHONHASHSEED 0..23: {len(outs)} distinct result(s); seeds per result: {list(outs.values())}"}
    if part == "parse":
        s14 = wit["s14"]
        code = f"""
import warnings; warnings.simplefilter('ignore')
import xgcm
from vp.world import NativeWorld
from harness import C14
s={s14!r}
nw=NativeWorld({{}})
ds=(C14.comodo_dataset(nw,s)[0] if s['part']=='comodo' else C14.sgrid_dataset(nw,s)[0])
print(list(xgcm.Grid(ds, periodic=False).axes))
"""
        outs = _multi_seed(code)
        return {"confirmed": len(outs) > 1, "text": f"list(Grid(ds).axes) under PYTHONHASHSEED 0..23: {list(outs.keys())}"}
    if part == "metric":
        code = f"""
import warnings; warnings.simplefilter('ignore')
import numpy as np, xarray as xr, xgcm
from harness import C10
n={{'x_c':4,'x_l':4,'y_c':3,'y_l':3,'z_c':2,'z_o':3,'t':2}}
rng=np.random.default_rng(3)
ds=xr.Dataset(coords={{d:np.arange(k) for d,k in n.items()}})
for name,(_,dd) in C10.POOL.items(): ds[name]=(dd, rng.random(tuple(n[d] for d in dd))+0.5)
coords={{'X':{{'center':'x_c','left':'x_l'}},'Y':{{'center':'y_c','left':'y_l'}},'Z':{{'center':'z_c','outer':'z_o'}}}}
reg={wit['reg']!r}
g=xgcm.Grid(ds,coords=coords,periodic=False,metrics={{tuple(k):v for k,v in reg.items() if v}},autoparse_metadata=False)
ad=C10.ARRAYS[{wit['array']!r}]
arr=xr.DataArray(rng.random(tuple(n[d] for d in ad)),dims=ad)
m=g.get_metric(arr,tuple({wit['request']!r}))
print(sorted(m.dims), round(float(m.sum()),9))
"""
        outs = _multi_seed(code)
        return {"confirmed": len(outs) > 1, "text": f"get_metric under PYTHONHASHSEED 0..23: {list(outs.keys())}"}
    if part == "equiv":
        return C15.replay({"witness": {"part": "c", "cases": wit.get("cases")}})
    return {"confirmed": False, "text": ""}
