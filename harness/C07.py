"""C07 - the conservative transform neither creates nor destroys the transformed quantity.

Functions under contract:
  transform._interp_1d_conservative  (the REAL kernel function object; only numba's @guvectorize
      decorator is absent - the /verif numba stand-in returns the undecorated function as __wrapped__)
  transform.interp_1d_conservative   (monotonicity check, bin flip)
  transform.conservative_interpolation, transform.transform (conservative branch)

Kernel proof = accumulate-loop rule: both loops are `for v in range(..)` whose bodies only add to
output[j] (checked on the AST on every run), so out[j] = sum_i c(i, j) where c(i, j) is the
contribution of ONE generic iteration; the generic iteration (i, j fresh, all values symbolic) is
executed on the real code and its contribution proved equal to the overlap-fraction contribution
written from the statement.  Conservation, bin merging and non-negativity are then lemmas over that
contribution function (telescoping induction over the bins).
"""
from __future__ import annotations

import z3

from vp import symx, util
from vp.symx import SymBool, SymInt, mk_int, oblige, zint
from vp.kern import NVal, KArr, OutArr, KNP, check_accumulate_kernel
from vp.mxr import NArr, generic_range, symlen
from vp.world import SymWorld, model_values

PROPERTY = "C07"
META = {
    "level": "proof",
    "functions_under_contract": ["xgcm.transform._interp_1d_conservative (kernel, undecorated real function)", "xgcm.transform.interp_1d_conservative",
                                 "xgcm.transform.conservative_interpolation", "xgcm.transform.transform (conservative branch, _parse_target, _check_other_dims)",
                                 "xgcm.transform.input_handling"],
    "trusted_base": [
        "numba.guvectorize applies the kernel independently to each column of the broadcast leading dimensions (decorator absent; stand-in in /verif/stubs/numba)",
        "accumulate-loop rule: for loops whose bodies only do output[j] += c(i,j) the final output[j] is the sum of the contributions (loop shape checked syntactically on every run)",
        "exchange of the two finite sums sum_j sum_i = sum_i sum_j", "floats treated as reals; target_data and bins finite (no NaN) for the conservation clauses",
        "xarray model vp/mxr.py (apply_ufunc core dims, rename, assign_coords)", "z3 5.1 is sound",
    ],
    "assumptions": ["bins strictly increasing and contiguous inside the kernel (established by the wrapper contract)",
                    "a homogeneous cell (theta_1 == theta_2) belongs to the bin [lo, hi) containing it, the last bin being closed (any rule assigning it to exactly one bin conserves; this is the one the repaired kernel implements)"],
    "bounded_standins": ["native-columns[bounded]: the real kernel and wrapper on 120 / 400 concrete columns (non-monotonic and repeated target_data, values exactly on bin edges, homogeneous and numerically thin cells, bins in both orders) against the statement's overlap formula in numpy; decides also when the generic-iteration rule is not applicable to a restructured kernel. Never counted as proved."],
}


def contrib_spec(t1, t2, phi, h1, h2, is_last):
    """contribution of one cell to one bin, from the statement: overlap fraction times phi
    (real z3 terms; theta finite)"""
    tmin = z3.If(t1 < t2, t1, t2)
    tmax = z3.If(t1 < t2, t2, t1)
    lo = z3.If(tmin > h1, tmin, h1)
    hi = z3.If(tmax < h2, tmax, h2)
    ov = z3.If(hi - lo > 0, hi - lo, z3.RealVal(0))
    nondeg = ov / (tmax - tmin) * phi
    inbin = z3.Or(z3.And(h1 <= tmin, tmin < h2), z3.And(is_last, tmin == h2))
    hom = z3.If(inbin, phi, z3.RealVal(0))
    return z3.If(tmin == tmax, hom, nondeg)


def structures(tier, seed):
    out = [{"sid": "kernel;generic-iteration", "part": "kernel"},
           {"sid": "kernel;canary-closed-bins", "part": "kernel", "canary": "closed-bins"},
           {"sid": "lemmas", "part": "lemmas"},
           {"sid": "wrapper;interp_1d_conservative", "part": "wrapper"},
           {"sid": "xarray;conservative_interpolation+transform", "part": "xarray"}]
    if tier == "thorough":
        out.append({"sid": "lean;finite-sum-facts", "part": "lean"})
    # [bounded] the real kernel + wrapper on concrete columns against the statement's formula evaluated with numpy: a stand-in that
    # still decides when the generic-iteration rule is not applicable to a restructured kernel (its side condition then fails)
    out.append({"sid": "rnd:native-dask[bounded]", "part": "native-dask", "methods": ['conservative'], "n": 24 if tier == "thorough" else 8, "seed": int(seed)})
    out.append({"sid": "rnd:native-columns[bounded]", "part": "native-columns", "n": 400 if tier == "thorough" else 120, "seed": int(seed)})
    return out


def native_column_oracle(phi, theta, edges):
    """numbers, from the statement: each cell gives each bin phi x (overlap of the cell's interval with the bin) / (cell interval);
    a homogeneous cell goes to the one bin [lo, hi) that contains it (the last bin closed); bins listed in increasing order"""
    import numpy as np
    m = len(edges) - 1
    out = np.zeros(m)
    for i in range(len(phi)):
        lo, hi = min(theta[i], theta[i + 1]), max(theta[i], theta[i + 1])
        for j in range(m):
            b0, b1 = edges[j], edges[j + 1]
            if lo == hi:
                if (b0 <= lo < b1) or (j == m - 1 and lo == b1):
                    out[j] += phi[i]
            else:
                ov = min(hi, b1) - max(lo, b0)
                if ov > 0:
                    out[j] += phi[i] * ov / (hi - lo)
    return out


def run_native_columns(s):
    import time

    import numpy as np
    import xgcm.transform as T
    t0 = time.time()
    rng = np.random.default_rng(100 + s["seed"])
    bad, n = [], 0
    for trial in range(s["n"]):
        ncell = int(rng.integers(1, 6))
        # target_data on the n+1 bounds: monotonic or not, with repeated values and values exactly on bin edges
        grid_vals = np.arange(0, 9) * 0.5
        theta = rng.choice(grid_vals, size=ncell + 1) if trial % 3 else np.sort(rng.random(ncell + 1) * 4)
        if trial % 7 == 0:
            k = int(rng.integers(0, ncell))
            theta[k + 1] = theta[k] + 3e-11 * (trial % 2)  # (numerically) thin and exactly homogeneous cells
        phi = rng.random(ncell) * 4 - 1
        inner = np.unique(np.concatenate([rng.choice(grid_vals, size=int(rng.integers(0, 4))), rng.random(int(rng.integers(0, 3))) * 4]))
        inner = inner[(inner > theta.min()) & (inner < theta.max())]
        edges = np.concatenate([[theta.min() - (0 if trial % 4 else 0.75)], inner, [theta.max() + (0 if trial % 5 else 0.5)]])
        edges = np.unique(edges)
        if len(edges) < 2:
            continue
        want = native_column_oracle(phi, theta, edges)
        for direction in (1, -1):
            got = T.interp_1d_conservative(phi[None, :], theta[None, :], edges[::direction].copy())[0][::direction]
            n += 1
            tol = 1e-9 * max(1.0, float(np.abs(phi).sum()))
            if got.shape != want.shape or not np.allclose(got, want, atol=tol, rtol=0):
                bad.append(f"phi={phi.tolist()} target_data(bounds)={theta.tolist()} bins={edges[::direction].tolist()} -> {got[::direction].tolist()} ; "
                           f"the statement's formula gives {want[::direction].tolist()} (column total {float(phi.sum())})")
                break
        if bad:
            break
    rec = {"fn": "transform.interp_1d_conservative[bounded, real numpy]", "clause": "columns-agree-with-the-overlap-formula-both-bin-orders", "status": "failed" if bad else "proved",
           "time": time.time() - t0, "detail": bad[0] if bad else f"{n} kernel calls"}
    if bad:
        rec["witness"] = {"part": "native-columns", "text": bad[0]}
    return {"sid": s["sid"], "obligations": [rec], "paths": 0, "queries": 0, "solver_time": 0.0, "engine_errors": [], "covers": {"native-columns": 1},
            "counts": {"bounded_standin_evaluations": n}}


def run_lean(s):
    """Lean 4 + Mathlib check of the finite-sum facts used as lemma schemata (exchange of sums, telescoping, prefix recurrence)"""
    import os
    import subprocess
    import time
    path = os.path.join(os.path.dirname(os.path.dirname(os.path.abspath(__file__))), "lean", "SumFacts.lean")
    t = time.time()
    try:
        r = subprocess.run(["lean", path], capture_output=True, text=True, timeout=3000)
        ok = r.returncode == 0 and "error" not in (r.stdout + r.stderr)
        detail = (r.stdout + r.stderr)[-400:]
        status = "proved" if ok else ("failed" if "error" in (r.stdout + r.stderr) else "unknown")
    except Exception as e:  # noqa
        status, detail = "unknown", f"{type(e).__name__}: {e}"
    obs = [{"fn": "lean/SumFacts.lean", "clause": s.get("clause") or "sum_exchange,telescope,prefix_step,accumulate_linear,diff_cumsum", "status": status, "time": time.time() - t, "detail": detail or "accepted by lean 4 + Mathlib"}]
    return {"sid": s["sid"], "obligations": obs, "paths": 0, "queries": 1, "solver_time": time.time() - t, "engine_errors": [], "covers": {}}


def side_conditions():
    import xgcm.transform as T

    ok, problems, info = check_accumulate_kernel(T._interp_1d_conservative.__wrapped__, "output")
    return [("accumulate-loop shape of _interp_1d_conservative (generic-iteration rule)", ok, problems, info)]


def kernel_patches(mods):
    T = mods["transform"]
    return [(T, "np", KNP), (T, "range", generic_range), (T, "len", symlen)]


def run_kernel(s):
    mods = util.xgcm_modules()
    T = mods["transform"]
    kernel = T._interp_1d_conservative.__wrapped__
    covers = {}
    canary = s.get("canary")

    def body():
        c = symx.ctx()
        n = mk_int(z3.Int("n"))
        m = mk_int(z3.Int("m"))
        c.assume(zint(n) >= 1, zint(m) >= 1)
        phi = KArr("phi", n)
        t1 = KArr("theta_1", n)
        t2 = KArr("theta_2", n)
        H1 = z3.Function("hat_1", z3.IntSort(), symx.Val)
        H2 = z3.Function("hat_2", z3.IntSort(), symx.Val)
        # precondition established by the wrapper (bins strictly increasing): instantiated at every index read
        inst = lambda k: c.assume(H1(k) < H2(k))  # noqa
        h1 = KArr("hat_1", m, fn=H1, on_read=inst)
        h2 = KArr("hat_2", m, fn=H2, on_read=inst)
        out = OutArr("output", m)
        try:
            kernel(phi, t1, t2, h1, h2, out)
        except (symx.EngineUnsupported, symx.InfeasiblePath, symx.PathAbort):
            raise
        except Exception as e:  # noqa
            oblige("kernel:returns-normally", False, detail=f"{type(e).__name__}: {e}")
            return
        oblige("kernel:returns-normally", True)
        gen = [v for k, v in c.ghost.items() if k == "generic"]
        # recover the two generic indices from the reads
        oblige("kernel:output-initialised-to-zero", out.filled is not None and out.whole is None and isinstance(out.filled, (int, float)) and out.filled == 0)
        oblige("kernel:at-most-one-store-per-iteration", len(out.stores) <= 1, detail=str(len(out.stores)))
        i_reads = phi.reads + t1.reads + t2.reads
        j_reads = h1.reads + h2.reads
        if not i_reads:
            covers["no-cell-read"] = 1
            return
        i = i_reads[0]
        for r in i_reads[1:]:
            oblige("kernel:one-cell-per-outer-iteration", r == i)
        if not j_reads:
            # both thetas NaN -> continue (infeasible here: theta is finite) or m handled
            oblige("kernel:cell-skipped-only-if-nothing-stored", len(out.stores) == 0)
            return
        j = j_reads[0]
        for r in j_reads[1:]:
            oblige("kernel:one-bin-per-inner-iteration", r == j)
        is_last = j == zint(m) - 1
        if canary == "closed-bins":
            want = contrib_spec(t1.fn(i), t2.fn(i), phi.fn(i), h1.fn(j), h2.fn(j), z3.BoolVal(True))
        else:
            want = contrib_spec(t1.fn(i), t2.fn(i), phi.fn(i), h1.fn(j), h2.fn(j), is_last)
        # contiguity of the bins (only needed to know which bin is the last one's neighbour): hat_2[j] == hat_1[j+1]
        if out.stores:
            covers["store"] = covers.get("store", 0) + 1
            idx, val = out.stores[0]
            oblige("kernel:store-goes-to-the-current-bin", idx == j)
            oblige("kernel:stored-value-is-not-nan", z3.Not(val.nan))
            oblige("kernel:contribution==overlap-fraction*phi", val.v == z3.RealVal(0) + want)
        else:
            covers["no-store"] = covers.get("no-store", 0) + 1
            oblige("kernel:contribution==overlap-fraction*phi", want == 0)
    with util.patched(*kernel_patches(mods)):
        rep = symx.explore(body, s["sid"])
    obs = []
    for name, ob in rep.merged().items():
        rec = {"fn": "transform._interp_1d_conservative", "clause": name, "status": ob.status, "time": ob.time, "detail": ob.detail}
        if ob.status == "failed":
            rec["witness"] = {"part": "kernel", "model": model_values(ob.model)}
        if canary:
            if name == "kernel:contribution==overlap-fraction*phi":
                rec["canary"] = True
                obs.append(rec)
            continue
        obs.append(rec)
    return {"sid": s["sid"], "obligations": obs, "paths": rep.paths, "queries": rep.queries,
            "solver_time": rep.solver_time, "engine_errors": rep.engine_errors, "covers": covers}


def run_lemmas(s):
    """lemmas over the contribution function (no code): conservation by telescoping, merging, sign"""
    obs = []
    t0 = z3.Real("t1"), z3.Real("t2")
    t1, t2 = t0
    phi = z3.Real("phi")
    a, b, c3 = z3.Real("a"), z3.Real("b"), z3.Real("c")
    last = z3.Bool("last")
    tmin = z3.If(t1 < t2, t1, t2)
    tmax = z3.If(t1 < t2, t2, t1)

    def clamp(x):
        return z3.If(x < tmin, tmin, z3.If(x > tmax, tmax, x))

    def G(x):
        """fraction of the (non-degenerate) cell lying below x"""
        return (clamp(x) - tmin) / (tmax - tmin)

    def C(x):
        """homogeneous cell at theta = tmin: 1 iff theta < x"""
        return z3.If(tmin < x, z3.RealVal(1), z3.RealVal(0))
    import time

    def lemma(name, hyps, goal):
        s_ = z3.Solver()
        s_.set("timeout", 60000)
        s_.add(*hyps)
        s_.add(z3.Not(goal))
        t = time.time()
        r = s_.check()
        st = "proved" if r == z3.unsat else ("failed" if r == z3.sat else "unknown")
        obs.append({"fn": "lemma", "clause": name, "status": st, "time": time.time() - t, "detail": None,
                    "witness": {"part": "lemma", "model": model_values(s_.model())} if r == z3.sat else None})
    nd = tmin < tmax
    hom = tmin == tmax
    # non-degenerate cell: contribution to bin [a,b) is phi*(G(b)-G(a)); telescoping over contiguous bins
    lemma("nondeg:contribution==phi*(G(hi)-G(lo))", [nd, a < b], contrib_spec(t1, t2, phi, a, b, last) == phi * (G(b) - G(a)))
    lemma("nondeg:base:G(first edge)==0 when the cell starts inside the span", [nd, a <= tmin], G(a) == 0)
    lemma("nondeg:exit:G(last edge)==1 when the cell ends inside the span", [nd, b >= tmax], G(b) == 1)
    # => sum_j contribution = phi*(G(hat_2[m-1]) - G(hat_1[0])) = phi      (induction step is the identity above with hat_2[j]==hat_1[j+1])
    # homogeneous cell: contribution to a non-last bin [a,b) is phi*(C(b)-C(a)) given a<b; last bin closed
    lemma("hom:non-last-bin:contribution==phi*(C(hi)-C(lo))", [hom, a < b], contrib_spec(t1, t2, phi, a, b, z3.BoolVal(False)) == phi * (C(b) - C(a)))
    lemma("hom:last-bin:contribution==phi*(1-C(lo)) when theta<=last edge", [hom, a < b, tmin <= b], contrib_spec(t1, t2, phi, a, b, z3.BoolVal(True)) == phi * (1 - C(a)))
    lemma("hom:base:C(first edge)==0 when theta is inside the span", [hom, a <= tmin], C(a) == 0)
    # merging adjacent bins adds their contents (non-last+non-last, non-last+last)
    lemma("merge:nondeg", [nd, a < b, b < c3], contrib_spec(t1, t2, phi, a, c3, last) == contrib_spec(t1, t2, phi, a, b, z3.BoolVal(False)) + contrib_spec(t1, t2, phi, b, c3, last))
    lemma("merge:hom", [hom, a < b, b < c3], contrib_spec(t1, t2, phi, a, c3, last) == contrib_spec(t1, t2, phi, a, b, z3.BoolVal(False)) + contrib_spec(t1, t2, phi, b, c3, last))
    # non-negative inputs give non-negative outputs
    lemma("nonneg", [a < b, phi >= 0], contrib_spec(t1, t2, phi, a, b, last) >= 0)
    # canary: with closed bins on both sides an interior edge counts twice
    s_ = z3.Solver()
    s_.add(hom, a < b, b < c3, tmin == b, phi != 0)
    closed = lambda lo, hi: z3.If(z3.And(lo <= tmin, tmin <= hi), phi, z3.RealVal(0))  # noqa
    s_.add(closed(a, c3) == closed(a, b) + closed(b, c3))
    obs.append({"fn": "lemma", "clause": "canary:closed-bins-double-count", "status": "proved" if s_.check() == z3.sat else "failed", "canary": True, "time": 0})
    for o in obs:
        if o.get("witness") is None:
            o.pop("witness", None)
    return {"sid": s["sid"], "obligations": obs, "paths": 0, "queries": len(obs), "solver_time": sum(o["time"] for o in obs), "engine_errors": [], "covers": {"lemmas": 1}}


def symall(x):
    """model of builtin all() over a boolean array of symbolic length: a fresh boolean defined by the
    quantified formula"""
    from vp.mxr import BArr

    if isinstance(x, BArr) and not isinstance(x.shape[0], int):
        c = symx.ctx()
        b = z3.Bool(f"all!{next(c.fresh)}")
        k = z3.Int(f"k!{next(c.fresh)}")
        # the definition is NOT asserted in the path solver (quantifiers would make counter-models
        # unobtainable); obligations that need it add it as a hypothesis
        c.ghost.setdefault("all-defs", []).append(b == z3.ForAll([k], z3.Implies(z3.And(k >= 0, k < zint(x.shape[0])), x._elem((k,)))))
        return SymBool(b)
    return all(x)


def run_wrapper(s):
    mods = util.xgcm_modules()
    T = mods["transform"]
    covers = {}

    def body():
        c = symx.ctx()
        n = mk_int(z3.Int("n"))
        m = mk_int(z3.Int("m"))   # number of bin edges
        k1, k2 = mk_int(z3.Int("k1")), mk_int(z3.Int("k2"))
        c.assume(zint(n) >= 1, zint(m) >= 2, zint(k1) >= 1, zint(k2) >= 1)
        PH = z3.Function("PH", z3.IntSort(), z3.IntSort(), z3.IntSort(), symx.Val)
        TH = z3.Function("TH", z3.IntSort(), z3.IntSort(), z3.IntSort(), symx.Val)
        BN = z3.Function("BN", z3.IntSort(), symx.Val)
        phi = NArr((k1, k2, n), lambda p: PH(*p))
        theta = NArr((k1, k2, mk_int(zint(n) + 1)), lambda p: TH(*p))
        bins = NArr((m,), lambda p: BN(p[0]))
        calls = []
        KO = z3.Function("KO", z3.IntSort(), z3.IntSort(), z3.IntSort(), symx.Val)

        def kernel_stub(*a):
            calls.append(a)
            return NArr((k1, k2, mk_int(zint(m) - 1)), lambda p: KO(*p))
        with util.patched((T, "_interp_1d_conservative", kernel_stub)):
            try:
                res = T.interp_1d_conservative(phi, theta, bins)
                err = None
            except (symx.EngineUnsupported, symx.InfeasiblePath, symx.PathAbort):
                raise
            except Exception as e:  # noqa
                err = e
                res = None
        kk = z3.Int("kk")
        inc = z3.ForAll([kk], z3.Implies(z3.And(kk >= 0, kk < zint(m) - 1), BN(kk) < BN(kk + 1)))
        dec = z3.ForAll([kk], z3.Implies(z3.And(kk >= 0, kk < zint(m) - 1), BN(kk) > BN(kk + 1)))
        defs = z3.And(*c.ghost.get("all-defs", [z3.BoolVal(True)]))
        if err is not None:
            covers["raised"] = covers.get("raised", 0) + 1
            oblige("wrapper:raises-ValueError-only-for-non-monotonic-bins", z3.Implies(defs, z3.And(isinstance(err, ValueError), z3.Not(inc), z3.Not(dec))), detail=f"{type(err).__name__}: {err}")
            return
        covers["returned"] = covers.get("returned", 0) + 1
        oblige("wrapper:returns-only-for-strictly-monotonic-bins", z3.Implies(defs, z3.Or(inc, dec)))
        # which way round were the bins?  decided by the path, as a propositional fact
        flipped = z3.Bool("bins_listed_decreasing")
        is_dec = c.check_valid(z3.Implies(defs, dec))[0] == "proved"
        is_inc = c.check_valid(z3.Implies(defs, inc))[0] == "proved"
        oblige("wrapper:path-knows-the-direction", is_dec != is_inc)
        inc = z3.BoolVal(is_inc)
        oblige("wrapper:kernel-called-once", len(calls) == 1)
        if len(calls) != 1:
            return
        a_phi, a_t1, a_t2, a_h1, a_h2 = calls[0]
        i0, i1, i2 = z3.Int("i0"), z3.Int("i1"), z3.Int("i2")
        rng3 = z3.And(i0 >= 0, i0 < zint(k1), i1 >= 0, i1 < zint(k2), i2 >= 0, i2 < zint(n))
        oblige("wrapper:kernel-gets-phi", z3.Implies(rng3, a_phi.elem((i0, i1, i2)) == PH(i0, i1, i2)))
        oblige("wrapper:kernel-gets-theta-lower-bounds", z3.And(zint(a_t1.shape[-1]) == zint(n), z3.Implies(rng3, a_t1.elem((i0, i1, i2)) == TH(i0, i1, i2))))
        oblige("wrapper:kernel-gets-theta-upper-bounds", z3.And(zint(a_t2.shape[-1]) == zint(n), z3.Implies(rng3, a_t2.elem((i0, i1, i2)) == TH(i0, i1, i2 + 1))))
        j = z3.Int("j")
        rj = z3.And(j >= 0, j < zint(m) - 1)
        # the bins the kernel sees are increasing and contiguous, and are the given edges in increasing order
        up = lambda q: z3.If(inc, BN(q), BN(zint(m) - 1 - q))  # noqa
        oblige("wrapper:kernel-bins-are-the-edges-in-increasing-order",
               z3.And(zint(a_h1.shape[0]) == zint(m) - 1, zint(a_h2.shape[0]) == zint(m) - 1,
                      z3.Implies(rj, z3.And(a_h1.elem((j,)) == up(j), a_h2.elem((j,)) == up(j + 1)))))
        # result: kernel output, reversed ALONG THE BIN AXIS when the bins were listed in decreasing order
        oblige("wrapper:result-shape", z3.And(len(res.shape) == 3, zint(res.shape[0]) == zint(k1), zint(res.shape[1]) == zint(k2), zint(res.shape[2]) == zint(m) - 1)
               if len(res.shape) == 3 else False)
        if len(res.shape) == 3:
            rr = z3.And(i0 >= 0, i0 < zint(k1), i1 >= 0, i1 < zint(k2), rj)
            oblige("wrapper:decreasing-bins-only-reverse-the-output-along-the-bin-axis",
                   z3.Implies(rr, res.elem((i0, i1, j)) == z3.If(inc, KO(i0, i1, j), KO(i0, i1, zint(m) - 2 - j))))
    with util.patched((T, "np", __import__("vp.mxr", fromlist=["NPModel"]).NPModel), (T, "all", symall), (T, "len", symlen)):
        rep = symx.explore(body, s["sid"])
    obs = []
    for name, ob in rep.merged().items():
        rec = {"fn": "transform.interp_1d_conservative", "clause": name, "status": ob.status, "time": ob.time, "detail": ob.detail}
        if ob.status == "failed":
            rec["witness"] = {"part": "wrapper", "clause": name, "model": {k: v for k, v in model_values(ob.model).items() if k != "__funcs__"}}
        obs.append(rec)
    return {"sid": s["sid"], "obligations": obs, "paths": rep.paths, "queries": rep.queries,
            "solver_time": rep.solver_time, "engine_errors": rep.engine_errors, "covers": covers}


def run_xarray(s):
    """conservative_interpolation / transform(method='conservative'): core dims, output size, new coordinate
    = bin centres, naming, interpolation of centre target_data to the cell bounds with 'extend'"""
    mods = util.xgcm_modules()
    T = mods["transform"]
    covers = {}
    from contracts import spec
    from vp.mxr import NArr as _N

    def scenario(w, td_pos, target_kind, named, suffix):
        layout = {"Z": {"center": "z_c", "outer": "z_o"}, "X": {"center": "x_c", "left": "x_l"}}
        nz = w.size("n_Z", 2)
        nx = w.size("n_X", 2)
        dims = {"z_c": nz, "z_o": symx.mk_int(zint(nz) + 1), "x_c": nx, "x_l": nx, "t": w.size("n_t", 1)}
        ds = w.dataset(dims, coords={d: (d,) for d in dims})
        g = w.grid(ds, layout, periodic=False)
        da = w.array("PHI", ["t", "z_c", "x_c"], ds, with_coords=True)
        td = w.array("TDATA", ["t", "z_o" if td_pos == "outer" else "z_c", "x_c"], ds)
        if not named:
            td._name = None
        m = w.size("m", 2)
        LV = z3.Function("LV", z3.IntSort(), symx.Val)
        lev = _N((m,), lambda p: LV(p[0]))
        if target_kind == "dataarray":
            from vp.mxr import MArr
            lev = MArr(("rho_bins",), {"rho_bins": m}, lambda idx: LV(idx["rho_bins"]), name="rho_bins")
        calls = []
        KO = z3.Function("KOUT", z3.IntSort(), z3.IntSort(), z3.IntSort(), symx.Val)

        def stub(phi, theta, bins):
            calls.append((phi, theta, bins))
            lead = list(phi.shape[:-1])
            return _N(tuple(lead) + (symx.mk_int(zint(bins.shape[0]) - 1),), lambda p: KO(*p), labels=None)
        kw = {"method": "conservative", "target_data": td}
        if suffix is not None:
            kw["suffix"] = suffix
        with util.patched((T, "interp_1d_conservative", stub)):
            out = g.transform(da, "Z", lev, **kw)
        return dict(out=out, da=da, td=td, calls=calls, m=m, LV=LV, KO=KO, dims=dims, g=g, ds=ds)

    obs = []
    stats = dict(paths=0, queries=0, solver_time=0.0, engine_errors=[])
    import warnings
    for td_pos in ("outer", "center"):
        for target_kind in ("array", "dataarray"):
            for named in (True, False):
                for suffix in (None, "_rho"):
                    if not named and target_kind == "dataarray":
                        continue
                    tag = f"target_data={td_pos};target={target_kind};named={named};suffix={suffix}"

                    def body():
                        w = SymWorld()
                        with warnings.catch_warnings():
                            warnings.simplefilter("ignore")
                            try:
                                r = scenario(w, td_pos, target_kind, named, suffix)
                            except (symx.EngineUnsupported, symx.InfeasiblePath, symx.PathAbort):
                                raise
                            except Exception as e:  # noqa
                                import traceback
                                oblige(f"returns-normally:{tag}", False, detail=f"{type(e).__name__}: {e} @ {traceback.format_exc(limit=-2)[-300:]}")
                                return
                        oblige(f"returns-normally:{tag}", True)
                        covers["returned"] = covers.get("returned", 0) + 1
                        out, da, td, calls, m = r["out"], r["da"], r["td"], r["calls"], r["m"]
                        newdim = "rho_bins" if target_kind == "dataarray" else (td.name if named else "TRANSFORMED_DIMENSION")
                        oblige(f"new-dimension-named-after-target-or-target_data:{tag}", newdim in out.dims and set(out.dims) == {"t", "x_c", newdim}, detail=f"{out.dims}")
                        if newdim not in out.dims:
                            return
                        oblige(f"output-has-one-value-per-bin:{tag}", zint(out.sizes[newdim]) == zint(m) - 1)
                        oblige(f"kernel-wrapper-called-once:{tag}", len(calls) == 1)
                        if len(calls) != 1:
                            return
                        phi, theta, bins = calls[0]
                        # columns: the axis dimension is the last (core) dimension of phi and theta; bins is the 1-D list of edges
                        oblige(f"core-dims-last:{tag}", phi.labels[-1] == "temp_unique" or phi.labels[-1] == "z_c", detail=str(phi.labels))
                        oblige(f"theta-is-on-the-cell-bounds:{tag}", zint(theta.shape[-1]) == zint(phi.shape[-1]) + 1)
                        oblige(f"bins-are-the-target-values:{tag}", z3.And(bins.ndim == 1, zint(bins.shape[0]) == zint(m)))
                        jj = z3.Int("jj")
                        oblige(f"bins-values:{tag}", z3.Implies(z3.And(jj >= 0, jj < zint(m)), bins.elem((jj,)) == r["LV"](jj)))
                        # phi columns are the data columns
                        pt, pz, px = z3.Int("pt"), z3.Int("pz"), z3.Int("px")
                        lab = list(phi.labels)
                        if set(lab[:-1]) == {"t", "x_c"}:
                            pos = {lab[0]: z3.Int("p0"), lab[1]: z3.Int("p1")}
                            rngp = z3.And(*[z3.And(v >= 0, v < zint(r["dims"][k])) for k, v in pos.items()], pz >= 0, pz < zint(r["dims"]["z_c"]))
                            oblige(f"phi-columns-are-the-data-columns:{tag}",
                                   z3.Implies(rngp, phi.elem((pos[lab[0]], pos[lab[1]], pz)) == da.elem({"t": pos["t"], "x_c": pos["x_c"], "z_c": pz})))
                            tl = list(theta.labels)
                            if set(tl[:-1]) <= {"t", "x_c"} and len(tl) == 3:
                                po = z3.Int("po")
                                rngo = z3.And(*[z3.And(v >= 0, v < zint(r["dims"][k])) for k, v in pos.items()], po >= 0, po <= zint(r["dims"]["z_c"]))
                                tv = theta.elem((pos[tl[0]], pos[tl[1]], po))
                                if td_pos == "outer":
                                    want = td.elem({"t": pos["t"], "x_c": pos["x_c"], "z_o": po})
                                else:
                                    # centre target_data is first interpolated to the bounds with nearest-value extension
                                    gcen = lambda idx: td.elem(idx)  # noqa
                                    gi = spec.stencil(gcen, "interp", "z_c", "z_o", "center", "outer", "extend", z3.RealVal(0), zint(r["dims"]["z_c"]))
                                    want = gi({"t": pos["t"], "x_c": pos["x_c"], "z_o": po})
                                oblige(f"theta-columns-are-target_data-on-the-bounds:{tag}", z3.Implies(rngo, tv == want))
                            else:
                                oblige(f"theta-columns-are-target_data-on-the-bounds:{tag}", False, detail=str(tl))
                        else:
                            oblige(f"phi-columns-are-the-data-columns:{tag}", False, detail=str(lab))
                        # new coordinate = bin centres
                        cc = out.coords[newdim] if newdim in out.coords else None
                        oblige(f"new-coordinate-present:{tag}", cc is not None)
                        if cc is not None:
                            qq = z3.Int("qq")
                            oblige(f"new-coordinate-is-the-bin-centres:{tag}",
                                   z3.Implies(z3.And(qq >= 0, qq < zint(m) - 1), cc.elem({newdim: qq}) == (r["LV"](qq) + r["LV"](qq + 1)) / 2))
                        # values: what the kernel wrapper returned, column by column
                        q = {d: z3.Int(f"q_{d}") for d in out.dims}
                        rngq = z3.And(*[z3.And(q[d] >= 0, q[d] < zint(out.sizes[d])) for d in out.dims])
                        lead = [d for d in phi.labels[:-1]]
                        if set(lead) == {"t", "x_c"}:
                            oblige(f"values-are-the-kernel-output-per-column:{tag}", z3.Implies(rngq, out.elem(q) == r["KO"](q[lead[0]], q[lead[1]], q[newdim])))
                        oblige(f"frame:arguments-unchanged:{tag}", not da.log and not td.log)
                    with util.patched(*util.std_patches(mods)):
                        rep = symx.explore(body, s["sid"] + tag)
                    stats["paths"] += rep.paths
                    stats["queries"] += rep.queries
                    stats["solver_time"] += rep.solver_time
                    stats["engine_errors"] += rep.engine_errors
                    for name, ob in rep.merged().items():
                        rec = {"fn": "transform.transform[conservative]", "clause": name, "status": ob.status, "time": ob.time, "detail": ob.detail}
                        if ob.status == "failed":
                            rec["witness"] = {"part": "xarray", "tag": tag, "clause": name, "detail": ob.detail}
                        obs.append(rec)
    return {"sid": s["sid"], "obligations": obs, "covers": covers, **stats}


def run_structure(s):
    return {"kernel": run_kernel, "lemmas": run_lemmas, "wrapper": run_wrapper, "xarray": run_xarray, "lean": run_lean, "native-columns": run_native_columns, "native-dask": (lambda s_: __import__("harness.native_transform", fromlist=["run"]).run(s_, 'transform.transform[conservative; bounded, real dask]'))}[s["part"]](s)


REQUIRED_COVERS = ["store", "no-store", "lemmas", "returned", "raised"]


# ---- native replay: the real kernel through the numba stand-in -------------------------------------
def replay(ob):
    import warnings

    import numpy as np

    warnings.simplefilter("ignore")
    wit = ob.get("witness") or {}
    import xgcm.transform as T
    part = wit.get("part")
    if part == "native-dask":
        return {"confirmed": True, "text": "real xarray + real dask:\n" + wit.get("text", "")}
    if part == "native-columns":
        return {"confirmed": True, "text": "real kernel on a concrete column:\n" + wit.get("text", "")}
    if part == "kernel":
        m = wit.get("model", {})
        f = m.get("__funcs__", {})

        def num(v):
            v = str(v).replace("?", "")
            if "/" in v:
                a, b = v.split("/")
                return float(a) / float(b)
            return float(v)

        def fval(name, k, dflt=0.0):
            t = f.get(name)
            if not t:
                return dflt
            for row in t["entries"]:
                if int(row[0]) == k:
                    return num(row[1])
            return num(t["else"])
        idxs = sorted(set(int(v) for k, v in m.items() if k.startswith("i!"))) or [0]
        text = []
        tried = []
        for ci in idxs:
            t1, t2, ph = fval("theta_1", ci), fval("theta_2", ci), fval("phi", ci, 1.0)
            if ph == 0:
                ph = 1.0
            lo, hi = min(t1, t2), max(t1, t2)
            fam = []
            for cj in idxs:
                a, b = fval("hat_1", cj, None), fval("hat_2", cj, None)
                if a is not None and b is not None and a < b:
                    fam.append(sorted({min(a, lo) - 1.0, a, b, max(b, hi) + 1.0}))
            # adversarial bin sets around the cell: an edge exactly on theta / on each end / strictly inside
            fam += [[lo - 1.0, lo, hi + 1.0], [lo - 1.0, hi, hi + 1.0], [lo - 1.0, (lo + hi) / 2, hi + 1.0], [lo, hi + 1.0], [lo - 1.0, hi], [lo - 1.0, lo, hi, hi + 1.0]]
            for edges in fam:
                edges = np.array(sorted(set(edges)))
                if len(edges) < 2:
                    continue
                out = T.interp_1d_conservative(np.array([[ph]]), np.array([[t1, t2]]), edges)
                tot = float(np.nansum(out))
                line = f"cell theta=({t1}, {t2}) phi={ph}; bin edges {edges.tolist()} -> output {np.asarray(out).tolist()} sum={tot}"
                if abs(tot - ph) > 1e-9 * abs(ph):  # conservation is linear in phi: relative tolerance
                    return {"confirmed": True, "text": "\n".join([line, "REAL CODE: the sum over the bins differs from the cell's content although theta lies inside the span of the bins"])}
                tried.append(line)
        return {"confirmed": False, "text": "\n".join(tried[:6] + ["conservation holds natively on the model's cell for every bin set tried"])}
    if part == "wrapper":
        phi = np.array([[1.0, 2.0, 3.0], [4.0, 5.0, 6.0]])
        th = np.array([[0.0, 1.0, 2.0, 3.0], [0.0, 1.5, 2.0, 3.0]])
        inc = np.array([0.0, 1.2, 3.0])
        a = T.interp_1d_conservative(phi, th, inc)
        bdec = T.interp_1d_conservative(phi, th, inc[::-1].copy())
        text = [f"increasing bins {inc.tolist()} -> {a.tolist()}", f"decreasing bins {inc[::-1].tolist()} -> {bdec.tolist()}"]
        if bdec.shape != a.shape or not np.allclose(bdec, a[..., ::-1]):
            return {"confirmed": True, "text": "\n".join(text + ["REAL CODE: listing the bins in decreasing order does not just reverse the output along the bin axis"])}
        try:
            T.interp_1d_conservative(phi, th, np.array([0.0, 2.0, 1.0]))
            return {"confirmed": True, "text": "\n".join(text + ["non-monotonic bins were accepted"])}
        except ValueError:
            pass
        return {"confirmed": False, "text": "\n".join(text + ["agrees natively"])}
    if part == "xarray":
        import xarray as xr
        import xgcm
        tag = wit.get("tag", "")
        opts = dict(x.split("=") for x in tag.split(";"))
        nz, nx = 4, 3
        ds = xr.Dataset(coords={"z_c": np.arange(nz), "z_o": np.arange(nz + 1), "x_c": np.arange(nx), "x_l": np.arange(nx), "t": np.arange(2)})
        g = xgcm.Grid(ds, coords={"Z": {"center": "z_c", "outer": "z_o"}, "X": {"center": "x_c", "left": "x_l"}}, periodic=False, autoparse_metadata=False)
        rng = np.random.default_rng(0)
        da = xr.DataArray(rng.random((2, nz, nx)), dims=("t", "z_c", "x_c"), name="PHI")
        zdim = "z_o" if opts["target_data"] == "outer" else "z_c"
        td = xr.DataArray(np.sort(rng.random((2, ds.sizes[zdim], nx)), axis=1), dims=("t", zdim, "x_c"), name="TDATA" if opts["named"] == "True" else None)
        lev = np.array([0.0, 0.3, 0.6, 1.0])
        tgt = xr.DataArray(lev, dims=["rho_bins"], coords={"rho_bins": lev}, name="rho_bins") if opts["target"] == "dataarray" else lev
        kw = {} if opts["suffix"] == "None" else {"suffix": opts["suffix"]}
        bad = []
        try:
            out = g.transform(da, "Z", tgt, target_data=td, method="conservative", **kw)
            newdim = "rho_bins" if opts["target"] == "dataarray" else ("TDATA" if opts["named"] == "True" else "TRANSFORMED_DIMENSION")
            if newdim not in out.dims:
                bad.append(f"new dimension {newdim!r} missing: {out.dims}")
            elif not np.allclose(out[newdim].values, (lev[1:] + lev[:-1]) / 2):
                bad.append("new coordinate is not the bin centres")
            tot_in = da.sum("z_c")
            if newdim in out.dims and not np.allclose(out.sum(newdim).transpose(*tot_in.dims).values, tot_in.values):
                bad.append("column sums are not conserved")
        except Exception as e:  # noqa
            bad.append(f"raised {type(e).__name__}: {e}")
        return {"confirmed": bool(bad), "text": "\n".join([f"case {tag}"] + bad)}
    return {"confirmed": False, "text": "lemma over the specification (no code involved)"}
