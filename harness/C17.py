"""C17 - only reciprocal face-connection tables are accepted.

Function under contract: Grid._assign_face_connections (with its closure check_neighbor) and the
face-connection lines of Grid.__init__.  Contract: the constructor returns normally  <=>
reciprocal(table) /\\ exactly one face dimension /\\ it exists in the dataset.

The table is a ghost mapping with a concrete *shape* (faces, axis keys, which slots are None, the axis
word of every link) and symbolic *contents*: every link's face index is an arbitrary integer and its
reverse flag an arbitrary boolean, so out-of-range indices, self-links and every combination of
flags are covered by one proof per shape.
"""
from __future__ import annotations

import itertools
import json
import random

import z3

from vp import symx, util
from vp.symx import SymBool, SymInt, mk_int, oblige
from vp.world import SymWorld, model_values
from vp.gridlib import make_layout

PROPERTY = "C17"
META = {
    "level": "proof",
    "functions_under_contract": ["xgcm.grid.Grid._assign_face_connections (incl. closure check_neighbor)",
                                 "xgcm.grid.Grid.__init__ (lines 244-263: _facedim/_face_connections, call of the check)"],
    "trusted_base": ["CPython executes the function as written; symbolic face indices are looked up in the ghost table by forking over its concrete keys",
                     "z3 5.1 is sound", "dataset model: `idx in ds[facedim].values` <=> 0 <= idx < size of the face dimension"],
    "assumptions": ["table shapes enumerated: all shapes over 2 faces x 1 axis (every None pattern x every axis word per link), "
                    "one- and two-slot edits of consistent tables over 2 faces x 2 axes and 3 faces; link contents (face index, reverse flag) symbolic",
                    "axis keys of the table are grid axes (a table keyed by an unknown axis is outside the statement)"],
    "bounded_standins": ["random consistent tables with 2-6 faces (self-links included) and their single random edits: concrete runs of the real constructor compared with the reciprocity predicate"],
}

GRID_AXES = ["X", "Y"]
WORDS = ["X", "Y", "W"]  # W is not an axis of the grid


class SymTable(dict):
    """per-face-dimension table: concrete keys, lookups with a symbolic face index fork over the keys"""

    def __getitem__(self, k):
        if isinstance(k, SymInt):
            for kk in dict.keys(self):
                if bool(k == kk):
                    return dict.__getitem__(self, kk)
            raise KeyError(k)
        return dict.__getitem__(self, k)


def shape_sid(sh):
    def lk(l):
        return "-" if l is None else l
    return ";".join(f"f{f}:" + ",".join(f"{a}({lk(lr[0])}|{lk(lr[1])})" for a, lr in sorted(ax.items())) for f, ax in sorted(sh["table"].items()))


def all_shapes_2x1():
    out = []
    opts = [None] + WORDS
    for combo in itertools.product(opts, repeat=4):
        t = {0: {"X": (combo[0], combo[1])}, 1: {"X": (combo[2], combo[3])}}
        out.append({"table": t, "nfaces_ds": 2, "sym": "all"})
    return out


# consistent base tables: entries (face, axis, reverse) concrete
BASES = {
    "2x2-periodic-xy": {0: {"X": ((1, "X", False), (1, "X", False)), "Y": ((0, "Y", False), (0, "Y", False))},
                        1: {"X": ((0, "X", False), (0, "X", False)), "Y": ((1, "Y", False), (1, "Y", False))}},
    "2x2-rotated": {0: {"X": (None, (1, "Y", False)), "Y": (None, None)}, 1: {"Y": ((0, "X", False), None), "X": (None, None)}},
    "2x2-reversed": {0: {"X": (None, (1, "X", True)), "Y": ((1, "Y", True), None)}, 1: {"X": (None, (0, "X", True)), "Y": ((0, "Y", True), None)}},
    "3-chain": {0: {"X": (None, (1, "X", False))}, 1: {"X": ((0, "X", False), (2, "X", False))}, 2: {"X": ((1, "X", False), None)}},
    "3-ring-rot": {0: {"X": ((2, "Y", False), (1, "X", False)), "Y": (None, None)}, 1: {"X": ((0, "X", False), (2, "X", True))},
                   2: {"X": (None, (1, "X", True)), "Y": (None, (0, "X", False))}},
}


def edit_structures(tier, seed):
    out = []
    rng = random.Random(seed)
    for bname, base in BASES.items():
        slots = [(f, a, s) for f, ax in base.items() for a in ax for s in (0, 1)]
        edits1 = [(sl,) for sl in slots]
        edits2 = list(itertools.combinations(slots, 2))
        sampled = False
        if tier == "quick":
            rng.shuffle(edits2)
            edits2 = edits2[:10]
            sampled = True
        for eds in edits1 + edits2:
            for words in itertools.product([None] + WORDS, repeat=len(eds)):
                pre = "rnd:" if (sampled and len(eds) == 2) else ""
                out.append({"base": bname, "edits": [list(e) for e in eds], "words": list(words),
                            "sid": f"{pre}edit;base={bname};slots={'+'.join(f'f{f}{a}{s}' for f, a, s in eds)};new={'+'.join(w or '-' for w in words)}"})
    return out


def structures(tier, seed):
    out = []
    for sh in all_shapes_2x1():
        sh["sid"] = "all;" + shape_sid(sh)
        sh["part"] = "shape"
        out.append(sh)
    for e in edit_structures(tier, seed):
        e["part"] = "edit"
        out.append(e)
    out.append({"part": "facedims", "sid": "facedims"})
    out.append({"part": "random", "sid": "random-consistent-tables", "seed": seed, "n": 150 if tier == "quick" else 1500})
    out.append({"part": "canary", "sid": "canary;spec-ignores-reverse-flag", "nfaces_ds": 2, "sym": "all",
                "table": {0: {"X": ("X", "X")}, 1: {"X": ("X", "X")}}})
    return out


def build_table(s, w):
    """returns (ghost table, links) where links = list of dict(face, axis, side, idx(z3), word, rev(z3 or bool))"""
    c = symx.ctx()
    links = []
    if s["part"] in ("shape", "canary"):
        tab = {}
        for f, ax in s["table"].items():
            tab[f] = {}
            for a, lr in ax.items():
                ent = []
                for side, word in enumerate(lr):
                    if word is None:
                        ent.append(None)
                    else:
                        idx = z3.Int(f"idx_f{f}{a}{side}")
                        rev = z3.Bool(f"rev_f{f}{a}{side}")
                        ent.append((mk_int(idx), word, SymBool(rev)))
                        links.append(dict(face=f, axis=a, side=side, idx=idx, word=word, rev=rev))
                tab[f][a] = tuple(ent)
        return tab, links, s["nfaces_ds"]
    base = BASES[s["base"]]
    tab = {f: {a: list(lr) for a, lr in ax.items()} for f, ax in base.items()}
    for (f, a, side), word in zip([tuple(e) for e in s["edits"]], s["words"]):
        if word is None:
            tab[f][a][side] = None
        else:
            idx = z3.Int(f"idx_f{f}{a}{side}")
            rev = z3.Bool(f"rev_f{f}{a}{side}")
            tab[f][a][side] = (mk_int(idx), word, SymBool(rev))
    for f, ax in tab.items():
        for a in ax:
            for side in (0, 1):
                l = ax[a][side]
                if l is not None:
                    i, wd, rv = l
                    links.append(dict(face=f, axis=a, side=side, idx=symx.zint(i), word=wd, rev=symx.bz(rv)))
            ax[a] = tuple(ax[a])
    return tab, links, len(tab)


def reciprocal(tab, links, nfaces_ds, ignore_rev=False):
    """the reciprocity predicate, from the statement, as a z3 formula over the symbolic contents"""
    conj = []
    for L in links:
        f, a, side, idx, word, rev = L["face"], L["axis"], L["side"], L["idx"], L["word"], L["rev"]
        if word not in GRID_AXES:
            conj.append(z3.BoolVal(False))
            continue
        alts = []
        for k, axk in tab.items():
            if word not in axk:
                continue

            def slot(sp):
                nl = axk[word][sp]
                if nl is None:
                    return z3.BoolVal(False)
                ni, nw, nr = nl
                if nw != a:
                    return z3.BoolVal(False)
                c2 = [symx.zint(ni) == f]
                if not ignore_rev:
                    c2.append(symx.bz(nr) == rev)
                return z3.And(*c2)
            # the side implied by the reverse flag: the opposite side normally, the same side when reversed
            cond = z3.If(rev, slot(side), slot(1 - side))
            alts.append(z3.And(idx == k, idx >= 0, idx < nfaces_ds, cond))
        conj.append(z3.Or(*alts) if alts else z3.BoolVal(False))
    # the originating face of every link must exist in the dataset too (it is named by its partner)
    return z3.And(*conj) if conj else z3.BoolVal(True)


def run_structure(s):
    mods = util.xgcm_modules()
    covers = {}
    part = s["part"]
    if part == "random":
        return run_random(s)

    def mkgrid(w, fc, nfaces):
        layout = make_layout({a: ("center", "left") for a in GRID_AXES})
        n = w.size("n", 2)
        dims = {d: n for a in GRID_AXES for d in layout[a].values()}
        dims["face"] = nfaces
        dims["tile"] = 3
        ds = w.dataset(dims, coords={})
        return w.grid(ds, layout, periodic=False, face_connections=fc)

    def body():
        w = SymWorld()
        if part == "facedims":
            good = {0: {"X": (None, (1, "X", False))}, 1: {"X": ((0, "X", False), None)}}
            for name, fc, should in (("two-face-dimensions", {"face": SymTable(good), "tile": SymTable(good)}, False),
                                     ("face-dimension-absent", {"nosuchdim": SymTable(good)}, False),
                                     ("two-face-dimensions-second-absent", {"face": SymTable(good), "nosuchdim": SymTable(good)}, False),
                                     ("two-face-dimensions-first-absent", {"nosuchdim": SymTable(good), "face": SymTable(good)}, False),
                                     ("two-face-dimensions-both-absent", {"nosuchdim": SymTable(good), "other": SymTable(good)}, False),
                                     ("one-existing-face-dimension", {"face": SymTable(good)}, True)):
                try:
                    g = mkgrid(w, fc, 2)
                    ok = True
                except (symx.EngineUnsupported, symx.InfeasiblePath, symx.PathAbort):
                    raise
                except Exception as e:  # noqa
                    ok = False
                oblige(f"facedims:{name}:{'accepted' if should else 'refused'}", ok == should)
                covers["accepted" if ok else "refused"] = covers.get("accepted" if ok else "refused", 0) + 1
            return
        tab, links, nfaces = build_table(s, w)
        spec_ok = reciprocal(tab, links, nfaces, ignore_rev=(part == "canary"))
        fc = {"face": SymTable({f: dict(ax) for f, ax in tab.items()})}
        try:
            g = mkgrid(w, fc, nfaces)
            accepted = True
        except (symx.EngineUnsupported, symx.InfeasiblePath, symx.PathAbort):
            raise
        except (ValueError, KeyError, IndexError, TypeError) as e:
            accepted = False
        if accepted:
            covers["accepted"] = covers.get("accepted", 0) + 1
            oblige("accepted-only-if-reciprocal", spec_ok)
            for a in set(a for ax in tab.values() for a in ax):
                oblige(f"accepted:axis-{a}-knows-the-face-dimension", getattr(g.axes[a], "_facedim", None) == "face")
            oblige("accepted:grid-keeps-the-table", g._facedim == "face" and g._face_connections is fc)
        else:
            covers["refused"] = covers.get("refused", 0) + 1
            oblige("refused-only-if-not-reciprocal", z3.Not(spec_ok))

    with util.patched(*util.std_patches(mods)):
        rep = symx.explore(body, s["sid"])
    obs = []
    for name, ob in rep.merged().items():
        rec = {"fn": "grid.Grid._assign_face_connections", "clause": name, "status": ob.status, "time": ob.time, "detail": ob.detail}
        if ob.status == "failed":
            rec["witness"] = {"structure": {k: v for k, v in s.items()}, "model": model_values(ob.model)}
        if part == "canary":
            if name == "accepted-only-if-reciprocal" or name == "refused-only-if-not-reciprocal":
                if ob.status == "failed":
                    rec["canary"] = True
                    obs.append(rec)
            continue
        obs.append(rec)
    if part == "canary" and not obs:
        obs.append({"fn": "canary", "clause": "none-refuted", "status": "proved", "canary": True, "time": 0})
    return {"sid": s["sid"], "obligations": obs, "paths": rep.paths, "queries": rep.queries,
            "solver_time": rep.solver_time, "engine_errors": rep.engine_errors, "covers": covers}


# ---- concrete reciprocity predicate (for native replays and the random stand-in) -----------------
def reciprocal_concrete(tab, nfaces_ds, grid_axes=GRID_AXES):
    for f, ax in tab.items():
        for a, lr in ax.items():
            for side, l in enumerate(lr):
                if l is None:
                    continue
                idx, word, rev = l
                if word not in grid_axes or isinstance(idx, bool) or not isinstance(idx, int):
                    return False
                if idx not in tab or not (0 <= idx < nfaces_ds) or word not in tab[idx]:
                    return False
                sp = side if rev else 1 - side
                nl = tab[idx][word][sp]
                if nl is None:
                    return False
                ni, nw, nr = nl
                if ni != f or nw != a or bool(nr) != bool(rev):
                    return False
    return True


def native_accepts(tab, nfaces_ds):
    import warnings

    import numpy as np
    import xarray as xr
    import xgcm

    warnings.simplefilter("ignore")
    ds = xr.Dataset(coords={"x_c": np.arange(3), "x_l": np.arange(3), "y_c": np.arange(3), "y_l": np.arange(3), "face": np.arange(nfaces_ds)})
    ds["v"] = (("face", "y_c", "x_c"), np.zeros((nfaces_ds, 3, 3)))
    try:
        xgcm.Grid(ds, coords={"X": {"center": "x_c", "left": "x_l"}, "Y": {"center": "y_c", "left": "y_l"}}, periodic=False,
                  face_connections={"face": tab}, autoparse_metadata=False)
        return True, None
    except Exception as e:  # noqa
        return False, f"{type(e).__name__}: {e}"


def random_consistent(rng, nf):
    tab = {f: {"X": [None, None], "Y": [None, None]} for f in range(nf)}
    free = [(f, a, s) for f in range(nf) for a in GRID_AXES for s in (0, 1)]
    rng.shuffle(free)
    used = set()
    for (f, a, s) in free:
        if (f, a, s) in used or rng.random() < 0.3:
            continue
        g = rng.randrange(nf)
        b = rng.choice(GRID_AXES)
        rev = rng.random() < 0.3
        sp = s if rev else 1 - s
        if (g, b, sp) in used or (g, b, sp) == (f, a, s):
            continue
        tab[f][a][s] = (g, b, rev)
        tab[g][b][sp] = (f, a, rev)
        used.add((f, a, s))
        used.add((g, b, sp))
    return {f: {a: tuple(lr) for a, lr in ax.items()} for f, ax in tab.items()}


def run_random(s):
    rng = random.Random(1000 + s["seed"])
    obs = []
    bad = []
    n_acc = n_rej = 0
    for k in range(s["n"]):
        nf = rng.randint(2, 6)
        tab = random_consistent(rng, nf)
        if k % 2 == 1:
            f = rng.randrange(nf)
            a = rng.choice(GRID_AXES)
            side = rng.randrange(2)
            new = rng.choice([None, (rng.randrange(-1, nf + 1), rng.choice(WORDS), rng.random() < 0.5)])
            lr = list(tab[f][a])
            lr[side] = new
            tab[f][a] = tuple(lr)
        want = reciprocal_concrete(tab, nf)
        got, err = native_accepts(tab, nf)
        n_acc += got
        n_rej += (not got)
        if want != got:
            bad.append({"table": repr(tab), "nfaces": nf, "reciprocal": want, "accepted": got, "error": err})
    obs.append({"fn": "grid.Grid.__init__[bounded]", "clause": "random-tables-accepted-iff-reciprocal", "status": "proved" if not bad else "failed",
                "time": 0, "detail": f"{s['n']} tables, {n_acc} accepted, {n_rej} refused", "witness": {"part": "random", "cases": bad[:3]}})
    return {"sid": s["sid"], "obligations": obs, "paths": 0, "queries": 0, "solver_time": 0.0, "engine_errors": [],
            "covers": {"accepted": n_acc, "refused": n_rej}, "counts": {"bounded_standin_evaluations": s["n"]}}


REQUIRED_COVERS = ["accepted", "refused"]


def replay(ob):
    wit = ob.get("witness") or {}
    if wit.get("part") == "random":
        c = (wit.get("cases") or [None])[0]
        return {"confirmed": bool(c), "text": json.dumps(c, default=str)}
    s = wit["structure"]
    m = wit.get("model", {})
    if s.get("part") == "facedims":
        import warnings

        import numpy as np
        import xarray as xr
        import xgcm
        warnings.simplefilter("ignore")
        good = {0: {"X": (None, (1, "X", False))}, 1: {"X": ((0, "X", False), None)}}
        ds = xr.Dataset(coords={"x_c": np.arange(3), "x_l": np.arange(3), "face": np.arange(2), "tile": np.arange(3)})
        cases = {"two-face-dimensions": ({"face": good, "tile": good}, False), "face-dimension-absent": ({"nosuchdim": good}, False),
                 "two-face-dimensions-second-absent": ({"face": good, "nosuchdim": good}, False), "two-face-dimensions-first-absent": ({"nosuchdim": good, "face": good}, False),
                 "two-face-dimensions-both-absent": ({"nosuchdim": good, "other": good}, False), "one-existing-face-dimension": ({"face": good}, True)}
        name = ob["id"].rsplit("/", 1)[-1].split(":")[1]
        fc, should = cases[name]
        try:
            xgcm.Grid(ds, coords={"X": {"center": "x_c", "left": "x_l"}}, periodic=False, face_connections=fc, autoparse_metadata=False)
            ok = True
        except Exception as e:  # noqa
            ok = False
        return {"confirmed": ok != should, "text": f"Grid(ds with dims face, tile; face_connections with keys {list(fc)}): {'accepted' if ok else 'refused'}; the statement prescribes {'acceptance' if should else 'refusal'}"}

    def val(name, dflt):
        return m.get(name, dflt)
    # rebuild the concrete table from the model
    if s["part"] in ("shape", "canary"):
        tab = {}
        for f, ax in s["table"].items():
            f = int(f)
            tab[f] = {}
            for a, lr in ax.items():
                ent = []
                for side, word in enumerate(lr):
                    ent.append(None if word is None else (int(val(f"idx_f{f}{a}{side}", 0)), word, _b(val(f"rev_f{f}{a}{side}", False))))
                tab[f][a] = tuple(ent)
        nf = s["nfaces_ds"]
    else:
        base = BASES[s["base"]]
        tab = {f: {a: list(lr) for a, lr in ax.items()} for f, ax in base.items()}
        for (f, a, side), word in zip([tuple(e) for e in s["edits"]], s["words"]):
            tab[f][a][side] = None if word is None else (int(val(f"idx_f{f}{a}{side}", 0)), word, _b(val(f"rev_f{f}{a}{side}", False)))
        tab = {f: {a: tuple(lr) for a, lr in ax.items()} for f, ax in tab.items()}
        nf = len(tab)
    want = reciprocal_concrete(tab, nf)
    got, err = native_accepts(tab, nf)
    text = [f"table {tab!r} on a dataset with {nf} faces", f"reciprocal (statement): {want}; real constructor: {'accepted' if got else 'refused (' + str(err) + ')'}"]
    return {"confirmed": want != got, "text": "\n".join(text)}


def _b(v):
    if isinstance(v, str):
        return v == "True"
    return bool(v)
