"""C02 - boundary rule resolution and padding widths are exactly as specified.

Functions under contract (real objects): Grid.__init__ (resolution of periodic/boundary/fill_value),
Grid._map_kwargs_over_axes, Grid._complete_user_kwargs_using_axis_defaults, Axis.__init__,
padding.pad, padding._pad_basic, padding._strip_all_coords.

Part A (ctor): for every spelling of the constructor arguments the per-axis rule / fill value equals
rule_in_force / value_in_force written from the statement; caller's mappings are not modified.
Part B (pad): sizes, every original value in place, new cells = ext_rule of the rule in force; all
sizes, widths, data and fill values symbolic.
"""
from __future__ import annotations

import itertools
import json

import z3

from vp.world import raised_in_harness as _rih
from vp import symx, util
from vp.symx import oblige, zint, SymFloat
from vp.world import SymWorld, NativeWorld, native_compare, model_values
from vp.gridlib import make_layout
from contracts import spec

PROPERTY = "C02"
META = {
    "level": "proof",
    "functions_under_contract": [
        "xgcm.grid.Grid.__init__ (periodic/boundary/fill_value resolution, lines 215-260)",
        "xgcm.grid.Grid._map_kwargs_over_axes", "xgcm.grid.Grid._complete_user_kwargs_using_axis_defaults",
        "xgcm.axis.Axis.__init__", "xgcm.padding.pad", "xgcm.padding._pad_basic", "xgcm.padding._strip_all_coords",
    ],
    "trusted_base": [
        "xarray model vp/mxr.py: DataArray.pad(mode=wrap|constant|edge), reset_coords, reset_index, copy (assumed contracts)",
        "CPython executes the functions as written; proxies intercept all symbolic control flow",
        "z3 5.1 is sound", "floating-point data treated as mathematical reals (values are only copied here)",
    ],
    "assumptions": [
        "constructor spellings enumerated: periodic bool / list / total dict; boundary & fill_value None / scalar / total / partial mapping; 1-3 axes",
        "multi-axis padding: corner cells follow sequential extension in the order the axes are named in boundary_width",
    ],
}

AX = ["X", "Y", "Z"]
RULES = ["fill", "extend", "periodic"]


# ------------------------------------------------------------------ part A: constructor
def periodic_spellings(axes):
    out = [("True", True), ("False", False), ("list-none", []), ("list-all", list(axes)),
           ("dict-all-true", {a: True for a in axes})]
    if len(axes) > 1:
        out.append(("list-first", [axes[0]]))
        out.append(("list-last", [axes[-1]]))
        out.append(("dict-mixed", {a: (i == 0) for i, a in enumerate(axes)}))
    return out


def boundary_spellings(axes):
    out = [("None", None), ("fill", "fill"), ("extend", "extend"), ("periodic", "periodic"),
           ("map-total", {a: RULES[i % 3] for i, a in enumerate(axes)})]
    if len(axes) > 1:
        out.append(("map-partial-first", {axes[0]: "extend"}))
        out.append(("map-partial-last", {axes[-1]: "fill"}))
        out.append(("map-with-none", {**{a: None for a in axes[:-1]}, axes[-1]: "extend"}))
    return out


def fill_spellings(axes):
    out = [("None", None), ("scalar", "S"), ("map-total", {a: "S" for a in axes})]
    if len(axes) > 1:
        out.append(("map-partial", {axes[-1]: "S"}))
    return out


def structures(tier, seed):
    out = []
    for n in (1, 2, 3):
        axes = AX[:n]
        for pname, pval in periodic_spellings(axes):
            out.append({"sid": f"ctor;axes={n};periodic={pname}", "part": "ctor", "axes": axes, "pname": pname, "pval": pval})
    # part B
    B = []

    def addB(**k):
        d = dict(part="pad", axes={"X": ("center", "left")}, arr={"X": "center"}, order=None, extra=0,
                 bw=("X",), gperiodic=True, gboundary=None, gfill=None, cboundary=None, cfill=None, prior=None, canary=None)
        d.update(k)
        d["sid"] = ("pad;" + ";".join(f"{kk}={json.dumps(d[kk], sort_keys=True, default=str)}" for kk in
                                       ("axes", "arr", "order", "extra", "bw", "gperiodic", "gboundary", "gfill", "cboundary", "cfill", "prior", "canary")
                                       if d[kk] is not None)).replace('"', "").replace(" ", "")
        B.append(d)
    # every rule, given per call (scalar) on each position of a one-axis grid
    for pos in spec.POSITIONS:
        axes = {"X": tuple(dict.fromkeys(("center", pos)))}
        for r in RULES:
            addB(axes=axes, arr={"X": pos}, cboundary=r, cfill="S" if r == "fill" else None)
    # defaults: grid periodic True/False/list, grid boundary, nothing per call
    for gp in (True, False, ["X"]):
        addB(gperiodic=gp)
        addB(gperiodic=gp, gfill="S")
    addB(gperiodic=[], gfill="S")  # the padded axis is not named in the list (known finding on the pinned tree)
    for gb in RULES:
        addB(gboundary=gb, gfill="S")
        addB(gboundary=gb, cboundary="extend")
    # per-call value against a different grid-level value of the same kind (both symbolic)
    addB(cboundary="fill", cfill="S", gfill="S", gperiodic=False)
    addB(gboundary="fill", cfill="S", gfill="S")
    addB(gboundary="fill", cfill={"X": "S"}, gfill={"X": "S"})
    addB(gboundary="extend", cboundary="fill", cfill="S", gfill="S")
    addB(gboundary="fill", cboundary="periodic", gfill="S")
    # the same resolution after earlier calls with other per-call settings on the same Grid
    for prior in ("scalar", "mapping"):
        addB(gperiodic=False, gfill="S", prior=prior)
        addB(gboundary="extend", cfill={"X": "S"}, prior=prior)
        addB(axes={"X": ("center", "left"), "Y": ("center", "outer")}, arr={"X": "center", "Y": "center"}, bw=("X", "Y"), gperiodic=False, cboundary={"Y": "periodic"}, gfill="S", prior=prior)
    # two axes: mapping spellings total / partial, widths on one or both axes, dim orders, extra dim
    two = {"X": ("center", "left"), "Y": ("center", "outer")}
    for bw in (("X",), ("Y",), ("X", "Y"), ("Y", "X")):
        for cb in (None, "extend", {"X": "fill", "Y": "extend"}, {"Y": "periodic"}, {"X": "extend"}):
            addB(axes=two, arr={"X": "center", "Y": "center"}, bw=bw, gperiodic=False, cboundary=cb,
                 cfill={"X": "S"} if cb is not None else None, gfill="S")
    for order in ((1, 0), (0, 2, 1), (2, 0, 1)):
        addB(axes=two, arr={"X": "left", "Y": "outer"}, bw=("X", "Y"), order=order, extra=1 if len(order) == 3 else 0,
             gperiodic={"X": True, "Y": False}, cfill="S")
    addB(axes=two, arr={"X": "center", "Y": "center"}, bw=("X", "Y"), gperiodic={"X": True, "Y": False}, gfill={"Y": "S"})
    addB(axes=two, arr={"X": "center", "Y": "center"}, bw=("X", "Y"), gboundary={"X": "extend"}, gperiodic=False, gfill={"X": "S", "Y": "S"})
    addB(axes=two, arr={"X": "center", "Y": "center"}, bw=("X", "Y"), gboundary={"X": "extend", "Y": "fill"}, cboundary={"Y": "periodic"})
    three = {"X": ("center", "left"), "Y": ("center", "right"), "Z": ("center", "inner")}
    addB(axes=three, arr={"X": "center", "Y": "right", "Z": "inner"}, bw=("Z", "X"), gperiodic=["X", "Y"], cboundary={"Z": "extend"}, cfill="S")
    addB(axes=three, arr={"X": "left", "Y": "center", "Z": "center"}, bw=("X", "Y", "Z"), gperiodic=False, gboundary={"Y": "extend"}, extra=1)
    # canaries
    addB(cboundary="fill", cfill="S", canary="offset-off-by-one")
    addB(cboundary="extend", canary="wrong-rule")
    out += B
    return out


def rule_word(v):
    return v


def run_ctor(s):
    axes = s["axes"]
    mods = util.xgcm_modules()
    obs_all, stats = [], dict(paths=0, queries=0, solver_time=0.0, engine_errors=[])
    covers = {}
    for (bname, bval), (fname, fval) in itertools.product(boundary_spellings(axes), fill_spellings(axes)):
        tag = f"boundary={bname};fill={fname}"

        def body():
            w = SymWorld()
            layout = make_layout({a: ("center", "left") for a in axes})
            ns = {a: w.size(f"n_{a}", 2) for a in axes}
            ds = w.dataset({d: ns[a] for a in axes for d in layout[a].values()})
            fsyms = {a: w.real(f"fv_{a}") for a in axes}
            fscalar = w.real("fv")
            if fval is None:
                farg = None
            elif fval == "S":
                farg = fscalar
            else:
                farg = util.TrackedDict({a: fsyms[a] for a in fval})
            barg = util.TrackedDict(bval) if isinstance(bval, dict) else bval
            parg = util.TrackedDict(s["pval"]) if isinstance(s["pval"], dict) else (list(s["pval"]) if isinstance(s["pval"], list) else s["pval"])
            snap = {"b": dict(barg) if isinstance(barg, dict) else None, "f": dict(farg) if isinstance(farg, dict) else None,
                    "p": (dict(parg) if isinstance(parg, dict) else list(parg) if isinstance(parg, list) else None)}
            try:
                g = w.grid(ds, layout, periodic=parg, boundary=barg, fill_value=farg)
            except (symx.EngineUnsupported, symx.InfeasiblePath, symx.PathAbort):
                raise
            except Exception as e:  # noqa
                oblige(f"ctor-returns:{tag}", False, detail=f"{type(e).__name__}: {e}")
                return "raise"
            oblige(f"ctor-returns:{tag}", True)
            covers["ctor-normal"] = covers.get("ctor-normal", 0) + 1
            for a in axes:
                want = spec.rule_in_force(None, bval, s["pval"], a, axes)
                oblige(f"rule:{tag}:{a}", g.axes[a].boundary == want,
                       detail=f"axis {a}: got {g.axes[a].boundary!r} expected {want!r}")
                fv = g.axes[a].fill_value
                if fval is None:
                    wantf = z3.RealVal(0)
                elif fval == "S":
                    wantf = fscalar.e
                else:
                    wantf = fsyms[a].e if a in fval else z3.RealVal(0)
                oblige(f"fill:{tag}:{a}", symx.RVx(fv) == wantf)
            # frame: the caller's mappings / list are untouched
            for key, obj in (("b", barg), ("f", farg), ("p", parg)):
                if snap[key] is not None:
                    same = (dict(obj) == snap[key]) if isinstance(obj, dict) else (list(obj) == snap[key])
                    oblige(f"frame:{tag}:{'boundary' if key == 'b' else 'fill_value' if key == 'f' else 'periodic'}-unchanged",
                           bool(same) and not getattr(obj, "log", []), detail=f"now {dict(obj) if isinstance(obj, dict) else obj}, was {snap[key]}, log {getattr(obj, 'log', [])}")
            return "ok"
        with util.patched(*util.std_patches(mods)):
            rep = symx.explore(body, s["sid"] + tag)
        stats["paths"] += rep.paths
        stats["queries"] += rep.queries
        stats["solver_time"] += rep.solver_time
        stats["engine_errors"] += rep.engine_errors
        for name, ob in rep.merged().items():
            rec = {"fn": "grid.Grid.__init__", "clause": name, "status": ob.status, "time": ob.time, "detail": ob.detail}
            if ob.status == "failed":
                rec["witness"] = {"part": "ctor", "axes": axes, "periodic": s["pval"], "boundary": bval, "fill": fval,
                                  "model": model_values(ob.model), "detail": ob.detail}
            obs_all.append(rec)
    return {"sid": s["sid"], "obligations": obs_all, "covers": covers, **stats}


# ------------------------------------------------------------------ part B: pad
def pad_scenario(s, w):
    """build inputs in world w and call the real xgcm.padding.pad; returns dict"""
    import xgcm.padding as P

    layout = make_layout(s["axes"])
    axes = list(s["axes"])
    ns = {a: w.size(f"n_{a}", 2) for a in axes}
    dims = {}
    for a in axes:
        for pos, d in layout[a].items():
            dims[d] = spec.len_pos(pos, ns[a]) if w.native else symx.mk_int(spec.len_pos(pos, zint(ns[a])))
    ex = [f"e{k}" for k in range(s["extra"])]
    for d in ex:
        dims[d] = w.size(f"n_{d}", 1)
    ds = w.dataset(dims, coords={d: (d,) for d in dims})
    scal = {"gfill": None, "cfill": None}

    def fills(v, key):
        if v is None:
            return None
        if v == "S":
            scal[key] = w.real(f"{key}_scalar")
            return scal[key]
        return {a: w.real(f"{key}_{a}") for a in v}
    gfill = fills(s["gfill"], "gfill")
    cfill = fills(s["cfill"], "cfill")
    gper = s["gperiodic"]
    g = w.grid(ds, layout, periodic=(dict(gper) if isinstance(gper, dict) else list(gper) if isinstance(gper, list) else gper),
               boundary=(dict(s["gboundary"]) if isinstance(s["gboundary"], dict) else s["gboundary"]), fill_value=gfill)
    adims = [layout[a][s["arr"][a]] for a in axes] + ex
    if s["order"]:
        adims = [adims[k] for k in s["order"]]
    da = w.array("D", adims, ds, with_coords=True)
    W = {}
    for a in s["bw"]:
        W[a] = (w.size(f"w{a}lo", 0), w.size(f"w{a}hi", 0))
    cb = dict(s["cboundary"]) if isinstance(s["cboundary"], dict) else s["cboundary"]
    if s.get("prior"):
        # an earlier call on the SAME Grid with other per-call settings must not influence this one
        pf = w.real("prior_fill")
        P.pad(da, g, boundary_width={a: (1, 1) for a in s["bw"]}, boundary={a: "extend" for a in s["bw"][:1]} if s["prior"] == "mapping" else "extend", fill_value=pf)
        P.pad(da, g, boundary_width={a: (1, 0) for a in s["bw"]}, boundary="fill", fill_value={a: pf for a in s["bw"]})
    out = P.pad(da, g, boundary_width=dict(W), boundary=cb, fill_value=cfill)
    return dict(out=out, da=da, g=g, W=W, layout=layout, ns=ns, gfill=gfill, cfill=cfill, adims=adims, dims=dims)


def pad_spec(s, r, w, canary=None):
    """postcondition clauses written from the statement; r = scenario result in the SymWorld"""
    da, W, layout = r["da"], r["W"], r["layout"]
    axes = list(s["axes"])
    q = {d: z3.Int(f"q_{d}") for d in da.dims}
    info = []
    for a in s["bw"]:
        d = layout[a][s["arr"][a]]
        rule = spec.rule_in_force(s["cboundary"], s["gboundary"], s["gperiodic"], a, axes)
        if canary == "wrong-rule":
            rule = "fill"

        def fv(v, key):
            if v is None:
                return None
            if isinstance(v, dict):
                return symx.RVx(v[a]) if a in v else None
            return symx.RVx(v)
        fill = fv(r["cfill"], "c")
        if fill is None:
            fill = fv(r["gfill"], "g")
        if fill is None:
            fill = z3.RealVal(0)
        n = zint(da.sizes[d])
        lo, hi = zint(W[a][0]), zint(W[a][1])
        info.append((d, lo, hi, rule, fill, n))

    def rec(k, idx):
        if k < 0:
            return da.elem(idx)
        d, lo, hi, rule, fill, n = info[k]
        off = lo + 1 if canary == "offset-off-by-one" else lo
        return spec.ext(rule, lambda j: rec(k - 1, {**idx, d: j}), n, idx[d] - off, fill)
    sizes = {d: zint(da.sizes[d]) for d in da.dims}
    for d, lo, hi, rule, fill, n in info:
        sizes[d] = sizes[d] + lo + hi
    rng = z3.And(*[z3.And(q[d] >= 0, q[d] < sizes[d]) for d in da.dims])
    cells = [("values", rng, rec(len(info) - 1, dict(q)))]
    allzero = z3.And(*[z3.And(lo == 0, hi == 0) for d, lo, hi, *_ in info])
    return dict(q=q, sizes=sizes, cells=cells, allzero=allzero)


def run_pad(s):
    mods = util.xgcm_modules()
    covers = {}
    canary = s.get("canary")

    def body():
        w = SymWorld()
        try:
            r = pad_scenario(s, w)
        except (symx.EngineUnsupported, symx.InfeasiblePath, symx.PathAbort):
            raise
        except Exception as e:  # noqa
            oblige("returns-normally", False, detail=f"{type(e).__name__}: {e}")
            return "raise"
        oblige("returns-normally", True)
        out, da = r["out"], r["da"]
        sp = pad_spec(s, r, w, canary)
        if out is da:
            covers["identity-return"] = covers.get("identity-return", 0) + 1
            oblige("identity-only-when-all-widths-zero", sp["allzero"])
            return "identity"
        covers["padded-return"] = covers.get("padded-return", 0) + 1
        oblige("padded-only-when-some-width-nonzero", z3.Not(sp["allzero"]))
        oblige("dims:order-kept", tuple(out.dims) == tuple(da.dims), detail=f"{out.dims} vs {da.dims}")
        if set(out.dims) != set(da.dims):
            return "dims"
        for d in da.dims:
            oblige(f"size:{d}", zint(out.sizes[d]) == sp["sizes"][d])
        # (whether pad() strips coordinates is a mechanism - C19 states what the operations' outputs carry - not a clause here)
        got = out.elem(sp["q"])
        for name, region, val in sp["cells"]:
            oblige(name, z3.Implies(region, got == val))
        oblige("frame:input-array-unchanged", not da.log)
        return "ok"
    with util.patched(*util.std_patches(mods)):
        rep = symx.explore(body, s["sid"])
    obs = []
    for name, ob in rep.merged().items():
        rec = {"fn": "padding.pad", "clause": name, "status": ob.status, "time": ob.time, "detail": ob.detail}
        if ob.status == "failed":
            rec["witness"] = {"part": "pad", "structure": {k: v for k, v in s.items()}, "model": model_values(ob.model)}
        if canary:
            if name == "values":
                rec["canary"] = True
            else:
                continue
        obs.append(rec)
    return {"sid": s["sid"], "obligations": obs, "paths": rep.paths, "queries": rep.queries,
            "solver_time": rep.solver_time, "engine_errors": rep.engine_errors, "covers": covers}


def run_structure(s):
    return run_ctor(s) if s["part"] == "ctor" else run_pad(s)


REQUIRED_COVERS = ["ctor-normal", "identity-return", "padded-return"]


# ------------------------------------------------------------------ native replay
def replay(ob):
    import warnings

    warnings.simplefilter("ignore")
    w_ = ob.get("witness") or {}
    if w_.get("part") == "ctor":
        return replay_ctor(w_, ob)
    return replay_pad(w_, ob)


def replay_ctor(wit, ob):
    import numpy as np
    import xarray as xr
    import xgcm

    axes = wit["axes"]
    layout = make_layout({a: ("center", "left") for a in axes})
    ds = xr.Dataset(coords={d: np.arange(4) for a in axes for d in layout[a].values()})
    fval, bval, pval = wit["fill"], wit["boundary"], wit["periodic"]
    farg = None if fval is None else (2.5 if fval == "S" else {a: 1.5 + i for i, a in enumerate(fval)})
    barg = dict(bval) if isinstance(bval, dict) else bval
    parg = dict(pval) if isinstance(pval, dict) else list(pval) if isinstance(pval, list) else pval
    text = [f"native: xgcm.Grid(ds, coords={layout}, periodic={parg!r}, boundary={barg!r}, fill_value={farg!r}, autoparse_metadata=False)"]
    snap_b = dict(barg) if isinstance(barg, dict) else None
    try:
        g = xgcm.Grid(ds, coords=layout, periodic=parg, boundary=barg, fill_value=farg, autoparse_metadata=False)
    except Exception as e:  # noqa
        text.append(f"REAL CODE RAISED {type(e).__name__}: {e}")
        return {"confirmed": not _rih(e), "text": "\n".join(text)}
    bad = []
    for a in axes:
        want = spec.rule_in_force(None, bval, pval, a, axes)
        if g.axes[a].boundary != want:
            bad.append(f"axis {a}: boundary in force {g.axes[a].boundary!r}, the statement prescribes {want!r}")
        wantf = 0.0 if fval is None else (2.5 if fval == "S" else farg.get(a, 0.0))
        if g.axes[a].fill_value != wantf:
            bad.append(f"axis {a}: fill_value {g.axes[a].fill_value!r}, expected {wantf!r}")
    if snap_b is not None and barg != snap_b:
        bad.append(f"caller's boundary mapping was modified: {snap_b} -> {barg}")
    if bad:
        text.append("REAL CODE DISAGREES WITH THE SPECIFICATION:")
        text += bad
        return {"confirmed": True, "text": "\n".join(text)}
    text.append("real code agrees with the specification on this input")
    return {"confirmed": False, "text": "\n".join(text)}


def replay_pad(wit, ob):
    s = wit["structure"]
    s = dict(s)
    s["axes"] = {a: tuple(v) for a, v in s["axes"].items()}
    s["bw"] = tuple(s["bw"])
    s["order"] = tuple(s["order"]) if s.get("order") else None
    canary = None
    mods = util.xgcm_modules()
    m = dict(wit.get("model", {}))
    for k in list(m):
        if k.startswith(("w", "n_")) and isinstance(m[k], int) and m[k] > 9:
            m[k] = 9
    nw = NativeWorld(m, defaults={})
    text = []
    try:
        rn = pad_scenario(s, nw)
    except Exception as e:  # noqa
        text.append(f"native parameters {nw.consts}")
        text.append(f"REAL CODE RAISED {type(e).__name__}: {e}")
        return {"confirmed": not _rih(e), "text": "\n".join(text)}
    text.append(f"native parameters {nw.consts}; structure {s['sid']}")
    symx.CUR = symx.Ctx([])
    try:
        sw = SymWorld()
        with util.patched(*util.std_patches(mods)):
            # symbolic twin only to obtain the specification terms (the real pad is not trusted here)
            import xgcm.padding as P
            with util.patched((P, "pad", lambda da, g, **k: da)):
                rs = pad_scenario(s, sw)
        sp = pad_spec(s, rs, sw, canary)
    finally:
        symx.CUR = None
    out, da = rn["out"], rn["da"]
    allzero = all(v == (0, 0) for v in rn["W"].values())
    if out is da:
        if allzero:
            return {"confirmed": False, "text": "\n".join(text + ["identity return with all-zero widths: agrees"])}
        return {"confirmed": True, "text": "\n".join(text + ["REAL CODE returned the input unchanged although a width is non-zero"])}
    bad = []
    if tuple(out.dims) != tuple(da.dims):
        bad.append(f"dims {out.dims} != input dims {da.dims}")
    from vp.world import evalnum
    subs = nw.numconsts(sw)
    for d in da.dims:
        want = evalnum(sp["sizes"][d], subs, [])
        if d in out.sizes and out.sizes[d] != want:
            bad.append(f"size of {d}: got {out.sizes[d]} expected {want}")
    if not bad:
        bad = native_compare(sw, nw, sp["cells"], sp["q"], out)
    if bad:
        text.append("REAL CODE DISAGREES WITH THE SPECIFICATION:")
        text += bad[:10]
        return {"confirmed": True, "text": "\n".join(text)}
    text.append("real code agrees with the specification on this input (model not confirmed natively)")
    return {"confirmed": False, "text": "\n".join(text)}
