"""C18 - operations never modify their arguments; results are history-independent.

Frame conditions: every argument object handed to a public operation is mutation-tracked
(TrackedDict logs every mutating method; array / dataset models log assignments to name, attrs,
items; Grid settings are snapshotted).  Obligation per operation and exit (normal or exceptional):
`assigns nothing` on every argument and on the Grid.  History-independence is then a lemma: results
are functions of the argument values (no hidden state is read: see the `state-read` clause) and the
argument values are unchanged.
"""
from __future__ import annotations

import json

import z3

from vp import symx, util
from vp.symx import oblige, zint
from vp.util import TrackedDict
from vp.world import SymWorld, model_values
from vp.gridlib import make_layout
from contracts import spec

PROPERTY = "C18"
META = {
    "level": "proof",
    "functions_under_contract": [
        "frame clause (assigns nothing on arguments and Grid settings, at normal and exceptional exits) of: Grid.__init__, Grid.diff, "
        "Grid.interp, Grid.min, Grid.max, Grid.cumsum, Grid.derivative, Grid.integrate, Grid.average, Grid.cumint, Grid.get_metric, "
        "Grid.interp_like, Grid.apply_as_grid_ufunc, Grid.diff_2d_vector, Grid.interp_2d_vector, Grid.transform (kernels stubbed), "
        "padding.pad, padding._pad_face_connections, padding._pad_basic, grid_ufunc.apply_as_grid_ufunc",
    ],
    "trusted_base": [
        "xarray/numpy operations do not mutate their inputs except through the tracked setters (name, attrs, item assignment)",
        "xarray model vp/mxr.py (assumed contracts)", "CPython executes the functions as written", "z3 5.1 is sound",
        "history independence follows from the frame clauses by induction over the call sequence (results depend on argument values and Grid settings only)",
    ],
    "assumptions": ["operation catalogue enumerated: scalar / vector, simple / face-connected grid, single / multi axis, well-posed and ill-posed calls"],
}

LAY = {"X": ("center", "left", "outer"), "Y": ("center", "left"), "Z": ("center", "outer")}
FC2 = {"face": {0: {"X": (None, (1, "X", False))}, 1: {"X": ((0, "X", False), None)}}}
FC2_ROT = {"face": {0: {"X": (None, (1, "Y", False))}, 1: {"Y": ((0, "X", False), None)}}}

OPS = [
    # (name, grid kind, description)
    "diff-dicts", "interp-multi-dicts", "min-scalar", "max-mapping", "cumsum-dicts", "cumsum-metric-same-dims", "interp-metric-same-dims", "diff-without-padding", "min-without-padding", "derivative", "integrate", "average", "cumint",
    "get_metric", "interp_like", "apply_ufunc-dicts", "pad-direct", "vector-simple", "ctor-all-dicts", "set_metrics-list",
    "fc-diff-scalar", "fc-diff-vector", "fc-interp-vector", "fc-rot-diff-vector", "fc-2d-vector", "fc-pad-vector",
    "transform-linear-unnamed-target-data", "transform-conservative", "transform-linear-named",
    "ill-axis", "ill-to", "ill-vector-missing-partner", "ill-boundary-word",
    "canary-popitem", "canary-setname",
]


HIST_OPS = ["A", "B", "C", "D", "E", "G", "I"]
# metric operations on a grid that registers the X metric at ONE position only (the others are interpolated on demand)
HIST_METRIC_OPS = ["J", "K", "L", "M"]
# requests that differ from one another in ONE respect only (target position, operator, default vs explicit shift, input position, keep_coords):
# what a memo keyed by too little would confuse
HIST_NEAR_OPS = ["B", "P", "Q", "R", "S", "T", "U", "E", "E2", "V", "V2", "W", "X"]


def structures(tier, seed):
    out = [{"sid": f"op={o}", "op": o, "part": "frame"} for o in OPS]
    import itertools
    for p, q in itertools.permutations(HIST_OPS, 2):
        out.append({"sid": f"history;{p}-then-{q}", "part": "history", "seq": [p, q]})
    for p, q in itertools.permutations(HIST_METRIC_OPS, 2):
        out.append({"sid": f"history;{p}-then-{q}", "part": "history", "seq": [p, q]})
    for p, q in itertools.permutations(HIST_NEAR_OPS, 2):
        if {p, q} <= set(HIST_OPS):
            continue
        out.append({"sid": f"history;{p}-then-{q}", "part": "history", "seq": [p, q]})
    # a registration in between: afterwards the Grid answers like a Grid that never saw the earlier queries (no stale cache)
    for first in ("L", "K", "M"):
        out.append({"sid": f"history;{first}-then-Z-then-{first}", "part": "history", "seq": [first, "Z", first], "fresh_prefix": ["Z"]})
    for trip in (("J", "K", "M"), ("K", "J", "L"), ("A", "J", "K")):
        out.append({"sid": f"history;{'-then-'.join(trip)}", "part": "history", "seq": list(trip)})
    for trip in (("A", "C", "B"), ("D", "A", "E"), ("G", "A", "G"), ("C", "E", "D"), ("I", "A", "B")):
        out.append({"sid": f"history;{'-then-'.join(trip)}", "part": "history", "seq": list(trip)})
    out.append({"sid": "history;canary;stateful-stub", "part": "history", "seq": ["A", "B"], "canary": True})
    return out


def run_history(s):
    """history independence, directly: the last operation of a sequence run on one Grid (re-using the same argument
    objects) gives the same result as that operation run first on a fresh Grid - dims, exit kind and all values"""
    mods = util.xgcm_modules()
    covers = {}
    canary = s.get("canary")

    def body():
        from xgcm.padding import pad
        w = SymWorld()
        layout, ns, dims, ds = build(w, "simple")
        X, Y = layout["X"], layout["Y"]
        gfill = w.real("gfill")
        gk = dict(periodic=False, boundary={"X": "fill", "Y": "extend", "Z": "fill"}, fill_value=gfill, metrics={("X",): ["dx_c", "dx_l"], ("Y",): ["dy_c"]})
        if set(s["seq"]) & set(HIST_METRIC_OPS):
            gk["metrics"] = {("X",): ["dx_c"], ("Y",): ["dy_c"]}
        c = w.array("C", ["t", Y["center"], X["center"]], ds, with_coords=True)
        o = w.array("O", ["t", Y["center"], X["outer"]], ds)
        u = w.array("U", ["t", Y["center"], X["left"]], ds)
        v = w.array("V", ["t", Y["left"], X["center"]], ds)
        f1, f2, f3 = w.real("f1"), w.real("f2"), w.real("f3")
        args = {"A_b": TrackedDict({"X": "extend"}), "A_f": TrackedDict({"X": f1}), "G_v": TrackedDict({"X": u}), "G_o": TrackedDict({"Y": v}), "I_b": TrackedDict({"Y": "periodic"})}
        ops = {
            "A": lambda g: g.diff(c, "X", to="left", boundary=args["A_b"], fill_value=args["A_f"]),
            "B": lambda g: g.diff(c, "X", to="left"),
            "C": lambda g: pad(c, g, boundary_width={"X": (1, 1)}, boundary="periodic"),
            "D": lambda g: g.interp(c, ["X", "Y"], fill_value=f2),
            "E": lambda g: g.cumsum(c, "X", to="left", boundary="fill", fill_value=f3),
            "G": lambda g: g.diff(args["G_v"], "X", to="center", other_component=args["G_o"]),
            "I": lambda g: g.max(c, "Y", boundary=args["I_b"]),
            "E2": lambda g: g.cumsum(c, "X", to="outer", boundary="fill", fill_value=f3),
            "V": lambda g: g.apply_as_grid_ufunc(w.userfunc("F", lambda arrs: [list(arrs[0].shape[:-1]) + [dims[X["left"]]]]), c, axis=[("X",)], signature="(Q:center)->(Q:left)",
                                                 boundary_width={"Q": (1, 0)}, boundary={"X": "extend"}),
            "V2": lambda g: g.apply_as_grid_ufunc(w.userfunc("F2", lambda arrs: [list(arrs[0].shape[:-1]) + [dims[X["outer"]]]]), c, axis=[("X",)], signature="(Q:center)->(Q:outer)",
                                                  boundary_width={"Q": (1, 1)}, boundary={"X": "fill"}, fill_value=f2),
            "W": lambda g: g.derivative(c, "X", to="left", boundary="extend"),
            "X": lambda g: g.cumint(c, "X", to="left", boundary="fill", fill_value=0.0),
            "P": lambda g: g.interp(c, "X", to="outer"),
            "Q": lambda g: g.diff(c, "X"),
            "R": lambda g: g.diff(u, "X", to="center"),
            "S": lambda g: g.diff(c, ["X", "Y"], to={"X": "outer", "Y": "left"}),
            "T": lambda g: g.min(c, "X", to="outer", keep_coords=True),
            "U": lambda g: g.diff(c, "X", to="outer", boundary="extend"),
            "J": lambda g: g.integrate(u, "X"),
            "K": lambda g: g.integrate(o, "X"),
            "L": lambda g: g.get_metric(o, ("X",)),
            "M": lambda g: g.interp(c, "X", to="outer", metric_weighted=("X",)),
            "Z": lambda g: g.set_metrics(("X",), "dx_c2", overwrite=True),
        }

        def run(g, name):
            try:
                return ("returned", ops[name](g))
            except (symx.EngineUnsupported, symx.InfeasiblePath, symx.PathAbort):
                raise
            except Exception as e:  # noqa
                return ("raised", type(e).__name__)
        g1 = w.grid(ds, layout, **gk)
        if canary:
            # a deliberately stateful stand-in for the Grid's kwarg completion: remembers the last per-call value
            import xgcm.grid as GR
            memo = {}
            orig = GR.Grid._complete_user_kwargs_using_axis_defaults

            def leaky(self, user_kwargs, property):
                if user_kwargs is not None:
                    memo[property] = user_kwargs
                return orig(self, memo.get(property), property)
            GR.Grid._complete_user_kwargs_using_axis_defaults = leaky
        try:
            for name in s["seq"][:-1]:
                run(g1, name)
            last = s["seq"][-1]
            after = run(g1, last)
        finally:
            if canary:
                GR.Grid._complete_user_kwargs_using_axis_defaults = orig
        g2 = w.grid(ds, layout, **gk)
        for name in s.get("fresh_prefix") or []:
            run(g2, name)
        fresh = run(g2, last)
        covers["history"] = covers.get("history", 0) + 1
        oblige("same-exit-kind-as-on-a-fresh-grid", after[0] == fresh[0] and (after[0] == "returned" or after[1] == fresh[1]), detail=f"{after[0]} vs {fresh[0]}")
        if after[0] != "returned" or fresh[0] != "returned":
            return
        a, f = after[1], fresh[1]
        oblige("same-dims-as-on-a-fresh-grid", tuple(a.dims) == tuple(f.dims), detail=f"{a.dims} vs {f.dims}")
        if tuple(a.dims) != tuple(f.dims):
            return
        q = {d: z3.Int(f"q_{d}") for d in a.dims}
        rng = z3.And(*[z3.And(q[d] >= 0, q[d] < zint(f.sizes[d])) for d in f.dims])
        for d in a.dims:
            oblige(f"same-size:{d}", zint(a.sizes[d]) == zint(f.sizes[d]))
        oblige("same-values-as-on-a-fresh-grid", z3.Implies(rng, a.elem(q) == f.elem(q)))
        oblige("same-coordinates-as-on-a-fresh-grid", set(a.coords) == set(f.coords))
    with util.patched(*util.std_patches(mods)):
        rep = symx.explore(body, s["sid"])
    obs = []
    for name, ob in rep.merged().items():
        rec = {"fn": "history", "clause": name, "status": ob.status, "time": ob.time, "detail": ob.detail}
        if ob.status == "failed":
            rec["witness"] = {"op": "history", "seq": s["seq"], "fresh_prefix": s.get("fresh_prefix"), "detail": ob.detail, "model": {k: v for k, v in model_values(ob.model).items() if k != "__funcs__"}}
        if canary:
            if name == "same-values-as-on-a-fresh-grid":
                rec["canary"] = True
                obs.append(rec)
            continue
        obs.append(rec)
    return {"sid": s["sid"], "obligations": obs, "paths": rep.paths, "queries": rep.queries, "solver_time": rep.solver_time, "engine_errors": rep.engine_errors, "covers": covers}


def snap_arr(a):
    return (a.name, tuple(a.dims), tuple(a.coords.keys()), dict(a.attrs), tuple(str(a.sizes[d]) for d in a.dims))


def snap_grid(g):
    out = []
    for n, ax in g.axes.items():
        out.append((n, ax.boundary, repr(ax.fill_value), tuple(ax.coords.items()), tuple(ax._default_shifts.items()), ax._periodic))
    out.append(("metrics", tuple((tuple(sorted(k)), tuple(id(v) for v in vs)) for k, vs in g._metrics.items())))
    out.append(("fc", repr(g._face_connections), g._facedim))
    return out


class Tracker:
    def __init__(self):
        self.items = []

    def d(self, label, dct):
        t = TrackedDict(dct)
        self.items.append((label, t, dict(t), None))
        return t

    def a(self, label, arr):
        self.items.append((label, arr, None, snap_arr(arr)))
        return arr

    def lst(self, label, l):
        self.items.append((label, l, list(l), None))
        return l

    def check(self):
        for label, obj, dsnap, asnap in self.items:
            if isinstance(obj, TrackedDict):
                ok = (dict(obj) == dsnap if _plain(dsnap) else list(obj.keys()) == list(dsnap.keys())) and not obj.log
                oblige(f"frame:{label}-unchanged", bool(ok), detail=f"now keys {list(obj.keys())} was {list(dsnap.keys())}; mutating calls {obj.log}")
            elif isinstance(obj, list):
                oblige(f"frame:{label}-unchanged", obj == dsnap, detail=f"{obj} vs {dsnap}")
            else:
                oblige(f"frame:{label}-unchanged", snap_arr(obj) == asnap and not obj.log, detail=f"log {obj.log}; {snap_arr(obj)} vs {asnap}")


def _plain(d):
    return all(isinstance(v, (str, int, float, tuple, type(None), bool)) and not isinstance(v, symx.SymFloat) for v in d.values())


def build(w, kind):
    layout = make_layout(LAY)
    ns = {a: w.size(f"n_{a}", 2) for a in LAY}
    if kind.startswith("fc"):
        # square faces
        ns["Y"] = ns["X"]
    dims = {}
    for a in LAY:
        for pos, d in layout[a].items():
            dims[d] = symx.mk_int(spec.len_pos(pos, zint(ns[a])))
    dims["t"] = w.size("n_t", 1)
    if kind.startswith("fc"):
        dims["face"] = 2
    X, Y, Z = layout["X"], layout["Y"], layout["Z"]
    dv = {"dx_c": (X["center"],), "dx_c2": (X["center"],), "dx_l": (X["left"],), "dy_c": (Y["center"],), "dz_c": (Z["center"],), "dz_o": (Z["outer"],),
          "area_c": (X["center"], Y["center"])}
    ds = w.dataset(dims, coords={d: (d,) for d in dims if d != "face"}, data_vars=dv)
    return layout, ns, dims, ds


def run_structure(s):
    if s.get("part") == "history":
        return run_history(s)
    mods = util.xgcm_modules()
    op = s["op"]
    covers = {}

    def body():
        w = SymWorld()
        T = Tracker()
        kind = "fc" if op.startswith("fc") else "simple"
        layout, ns, dims, ds = build(w, kind)
        X, Y, Z = layout["X"], layout["Y"], layout["Z"]
        metrics = {("X",): ["dx_c", "dx_l"], ("Y",): ["dy_c"], ("Z",): ["dz_c", "dz_o"], ("X", "Y"): ["area_c"]}
        gk = dict(periodic=False, metrics=metrics)
        if op.startswith("fc-rot"):
            gk["face_connections"] = FC2_ROT
        elif kind == "fc":
            gk["face_connections"] = FC2
        if op == "ctor-all-dicts":
            cfill = w.real("c")
            args = dict(coords=T.d("coords", {a: T.d(f"coords[{a}]", dict(layout[a])) for a in LAY}),
                        periodic=T.d("periodic", {"X": True, "Y": False, "Z": False}),
                        boundary=T.d("boundary", {"X": None, "Y": "extend", "Z": None}),
                        fill_value=T.d("fill_value", {"X": cfill}),
                        default_shifts=T.d("default_shifts", {"X": T.d("default_shifts[X]", {"center": "outer"})}),
                        metrics=T.d("metrics", {k: T.lst(f"metrics[{k}]", list(v)) for k, v in metrics.items()}),
                        autoparse_metadata=False)
            from xgcm import Grid
            try:
                Grid(ds, **args)
                covers["returned"] = 1
            except (symx.EngineUnsupported, symx.InfeasiblePath, symx.PathAbort):
                raise
            except Exception as e:  # noqa
                covers["raised"] = 1
                oblige("exit-kind", True, detail=f"raised {type(e).__name__}: {e}")
            T.check()
            oblige("frame:dataset-unchanged", not ds.log)
            return
        g = w.grid(ds, layout, **gk)
        before = snap_grid(g)
        face = ["face"] if kind == "fc" else []
        c = T.a("data", w.array("C", ["t"] + face + [Y["center"], X["center"]], ds, with_coords=(kind != "fc")))
        u = T.a("u", w.array("U", ["t"] + face + [Y["center"], X["left"]], ds))
        v = T.a("v", w.array("V", ["t"] + face + [Y["left"], X["center"]], ds))
        zc = T.a("zdata", w.array("ZC", ["t", Z["center"], X["center"]], ds, with_coords=True))
        d1 = T.a("data1d", w.array("D1", [X["center"]], ds)) if kind != "fc" else None
        o1 = T.a("data_outer", w.array("O1", ["t", Y["center"], X["outer"]], ds, with_coords=True)) if kind != "fc" else None
        fillc = w.real("c")

        def call():
            if op == "diff-dicts":
                return g.diff(c, "X", to=T.d("to", {"X": "left"}), boundary=T.d("boundary", {"X": "extend"}),
                              fill_value=T.d("fill_value", {"X": fillc}))
            if op == "interp-multi-dicts":
                return g.interp(c, T.lst("axis", ["X", "Y"]), to=T.d("to", {"X": "outer", "Y": "left"}),
                                boundary=T.d("boundary", {"X": "fill", "Y": "extend"}), fill_value=T.d("fill_value", {"X": fillc}),
                                metric_weighted=T.d("metric_weighted", {"X": ("X",), "Y": None}))
            if op == "min-scalar":
                return g.min(c, "Y", boundary="extend")
            if op == "max-mapping":
                return g.max(c, ["Y", "X"], boundary=T.d("boundary", {"Y": "extend", "X": "fill"}), keep_coords=True)
            if op == "cumsum-dicts":
                return g.cumsum(c, T.lst("axis", ["X", "Y"]), to=T.d("to", {"X": "outer", "Y": "left"}), boundary=T.d("boundary", {"X": "fill", "Y": "extend"}),
                                fill_value=T.d("fill_value", {"X": fillc, "Y": 0.0}), metric_weighted=T.d("metric_weighted", {"X": ("X",), "Y": None}))
            if op == "diff-without-padding":
                # a shift that needs no padding: the function works on (a view of) the argument's own buffer
                return g.diff(o1, "X", to="center")
            if op == "min-without-padding":
                return g.min(o1, "X", to="center", keep_coords=True)
            if op == "cumsum-metric-same-dims":
                # data whose dims are exactly the metric's dims (no broadcasting needed): an in-place product would write into the argument
                return g.cumsum(d1, "X", to="left", boundary="fill", fill_value=0.0, metric_weighted=("X",))
            if op == "interp-metric-same-dims":
                return g.interp(d1, "X", to="left", boundary="extend", metric_weighted=("X",))
            if op == "derivative":
                return g.derivative(c, "X", boundary=T.d("boundary", {"X": "extend"}))
            if op == "integrate":
                return g.integrate(c, T.lst("axis", ["X", "Y"]))
            if op == "average":
                return g.average(c, T.lst("axis", ["X"]))
            if op == "cumint":
                return g.cumint(zc, "Z", to="outer", boundary="fill", fill_value=0.0)
            if op == "get_metric":
                return g.get_metric(u, ("X",))
            if op == "interp_like":
                return g.interp_like(c, u, boundary=T.d("boundary", {"X": "extend"}))
            if op == "apply_ufunc-dicts":
                f = w.userfunc("F", lambda arrs: [list(arrs[0].shape[:-1]) + [dims[X["left"]]]])
                return g.apply_as_grid_ufunc(f, c, axis=T.lst("axis", [("X",)]), signature="(Q:center)->(Q:left)",
                                             boundary_width=T.d("boundary_width", {"Q": (1, 0)}), boundary=T.d("boundary", {"X": "extend"}))
            if op == "pad-direct":
                from xgcm.padding import pad
                return pad(c, g, boundary_width=T.d("boundary_width", {"X": (1, 2), "Y": (0, 1)}), boundary=T.d("boundary", {"X": "fill"}),
                           fill_value=T.d("fill_value", {"X": fillc}))
            if op == "vector-simple":
                return g.diff(T.d("vector", {"X": u}), "X", to="center", other_component=T.d("other_component", {"Y": v}), boundary="extend")
            if op == "set_metrics-list":
                return g.set_metrics(("Y",), T.lst("value", ["dy_c"]), overwrite=True)
            if op == "fc-diff-scalar":
                return g.diff(c, "X", to="left", boundary=T.d("boundary", {"X": "fill"}), fill_value=T.d("fill_value", {"X": fillc}))
            if op in ("fc-diff-vector", "fc-rot-diff-vector"):
                return g.diff(T.d("vector", {"X": u}), "X", to="center", other_component=T.d("other_component", {"Y": v}), boundary="fill")
            if op == "fc-interp-vector":
                return g.interp(T.d("vector", {"Y": v}), "Y", to="center", other_component=T.d("other_component", {"X": u}), boundary="extend")
            if op == "fc-2d-vector":
                return g.diff_2d_vector(T.d("vector", {"X": u, "Y": v}), boundary="fill")
            if op == "fc-pad-vector":
                from xgcm.padding import pad
                return pad(T.d("vector", {"X": u}), g, boundary_width=T.d("boundary_width", {"X": (1, 1)}), boundary="fill",
                           other_component=T.d("other_component", {"Y": v}))
            if op.startswith("transform"):
                TR = mods["transform"]
                rec = w.userfunc("K", lambda arrs: [list(arrs[0].shape[:-1]) + [arrs[2].shape[-1] if "linear" in op else arrs[2].shape[-1] - 1]])
                import numpy as _np
                from vp.mxr import NArr
                m = w.size("m", 2)
                LV = z3.Function("LV", z3.IntSort(), symx.Val)
                levels = NArr((m,), lambda p: LV(p[0]))
                td = w.array("TD", ["t", Z["center"] if "linear" in op else Z["outer"], X["center"]], ds)
                if "unnamed" in op:
                    td._name = None
                T.a("target_data", td)
                with util.patched((TR, "interp_1d_linear", rec), (TR, "interp_1d_conservative", rec)):
                    if "linear" in op:
                        return g.transform(zc, "Z", levels, target_data=td)
                    return g.transform(zc, "Z", levels, target_data=td, method="conservative")
            if op == "canary-popitem":
                T.d("other_component", {"Y": v}).popitem()
                return None
            if op == "canary-setname":
                c.name = "renamed"
                return None
            if op == "ill-axis":
                return g.diff(c, "W", boundary=T.d("boundary", {"X": "extend"}))
            if op == "ill-to":
                return g.interp(c, "X", to=T.d("to", {"X": "inner"}), fill_value=T.d("fill_value", {"X": fillc}))
            if op == "ill-vector-missing-partner":
                from xgcm.padding import pad
                return pad(T.d("vector", {"X": u}), g, boundary_width=T.d("boundary_width", {"X": (1, 1)}), boundary="fill", other_component=None)
            if op == "ill-boundary-word":
                return g.diff(c, "X", boundary=T.d("boundary", {"X": "reflect"}))
            raise ValueError(op)
        if op == "ill-vector-missing-partner":
            g._face_connections = FC2
            g._facedim = "face"
            before = snap_grid(g)
        try:
            res = call()
            covers["returned"] = covers.get("returned", 0) + 1
            oblige("exit-kind", True, detail="returned")
        except (symx.EngineUnsupported, symx.InfeasiblePath, symx.PathAbort):
            raise
        except Exception as e:  # noqa
            covers["raised"] = covers.get("raised", 0) + 1
            import traceback
            oblige("exit-kind", True, detail=f"raised {type(e).__name__}: {e} @ {traceback.format_exc(limit=-1)[-200:]}")
        T.check()
        if op != "set_metrics-list":
            after = snap_grid(g)
            oblige("frame:grid-settings-unchanged", after == before, detail=str([x for x, y in zip(before, after) if x != y][:2]))
        oblige("frame:dataset-unchanged", not ds.log, detail=str(ds.log))

    with util.patched(*util.std_patches(mods)):
        rep = symx.explore(body, s["sid"])
    obs = []
    for name, ob in rep.merged().items():
        rec = {"fn": "frame", "clause": name, "status": ob.status, "time": ob.time, "detail": ob.detail}
        if ob.status == "failed":
            rec["witness"] = {"op": op, "detail": ob.detail, "model": {k: v for k, v in model_values(ob.model).items() if k != "__funcs__"}}
        if op.startswith("canary"):
            if name in ("frame:other_component-unchanged", "frame:data-unchanged") and op in ("canary-popitem", "canary-setname"):
                if (op == "canary-popitem") == (name == "frame:other_component-unchanged"):
                    rec["canary"] = True
                    obs.append(rec)
            continue
        obs.append(rec)
    return {"sid": s["sid"], "obligations": obs, "paths": rep.paths, "queries": rep.queries,
            "solver_time": rep.solver_time, "engine_errors": rep.engine_errors, "covers": covers}


REQUIRED_COVERS = ["returned", "raised", "history"]


def replay(ob):
    """native replay: the same call with real xarray objects and plain dicts, deep snapshots before/after"""
    import copy
    import warnings

    import numpy as np
    import xarray as xr
    import xgcm

    warnings.simplefilter("ignore")
    op = (ob.get("witness") or {}).get("op")
    if op == "history":
        return replay_history(ob)
    n = 4
    ds = xr.Dataset(coords={"x_c": np.arange(n), "x_l": np.arange(n), "x_o": np.arange(n + 1), "y_c": np.arange(n), "y_l": np.arange(n),
                            "z_c": np.arange(3), "z_o": np.arange(4), "t": np.arange(2)})
    rng = np.random.default_rng(0)
    ds["dx_c"] = ("x_c", rng.random(n) + 1)
    ds["dx_l"] = ("x_l", rng.random(n) + 1)
    ds["dy_c"] = ("y_c", rng.random(n) + 1)
    ds["dz_c"] = ("z_c", rng.random(3) + 1)
    ds["dz_o"] = ("z_o", rng.random(4) + 1)
    ds["area_c"] = (("x_c", "y_c"), rng.random((n, n)) + 1)
    coords = {"X": {"center": "x_c", "left": "x_l", "outer": "x_o"}, "Y": {"center": "y_c", "left": "y_l"}, "Z": {"center": "z_c", "outer": "z_o"}}
    metrics = {("X",): ["dx_c", "dx_l"], ("Y",): ["dy_c"], ("Z",): ["dz_c", "dz_o"], ("X", "Y"): ["area_c"]}
    fc = None
    if op.startswith("fc-rot"):
        fc = copy.deepcopy(FC2_ROT)
    elif op.startswith("fc") or op == "ill-vector-missing-partner":
        fc = copy.deepcopy(FC2)
    face = ("face",) if fc else ()
    fshape = (2,) if fc else ()
    if fc:
        ds = ds.assign_coords(face=np.arange(2))
    text = [f"operation {op}"]
    tracked = {}

    def D(label, d):
        tracked[label] = (d, copy.deepcopy(d))
        return d
    try:
        if op == "ctor-all-dicts":
            args = dict(coords=D("coords", copy.deepcopy(coords)), periodic=D("periodic", {"X": True, "Y": False, "Z": False}),
                        boundary=D("boundary", {"X": None, "Y": "extend", "Z": None}), fill_value=D("fill_value", {"X": 2.5}),
                        default_shifts=D("default_shifts", {"X": {"center": "outer"}}), metrics=D("metrics", copy.deepcopy(metrics)))
            try:
                xgcm.Grid(ds, autoparse_metadata=False, **args)
            except Exception as e:  # noqa
                text.append(f"raised {type(e).__name__}: {e}")
        else:
            g = xgcm.Grid(ds, coords=coords, periodic=False, metrics=metrics, face_connections=fc, autoparse_metadata=False)
            c = xr.DataArray(rng.random((2,) + fshape + (n, n)), dims=("t",) + face + ("y_c", "x_c"), name="C")
            u = xr.DataArray(rng.random((2,) + fshape + (n, n)), dims=("t",) + face + ("y_c", "x_l"), name="U")
            v = xr.DataArray(rng.random((2,) + fshape + (n, n)), dims=("t",) + face + ("y_l", "x_c"), name="V")
            zc = xr.DataArray(rng.random((2, 3, n)), dims=("t", "z_c", "x_c"), name="ZC")
            d1 = xr.DataArray(rng.random(n), dims=("x_c",), name="D1")
            o1 = xr.DataArray(rng.random((2, n, n + 1)), dims=("t", "y_c", "x_o"), name="O1")
            arrs = {"data": c, "u": u, "v": v, "zdata": zc, "data1d": d1, "data_outer": o1}
            snaps = {k: a.copy(deep=True) for k, a in arrs.items()}
            names = {k: a.name for k, a in arrs.items()}
            td = None

            def gsnap():
                return ([(nm, ax.boundary, repr(ax.fill_value), tuple(ax.coords.items()), tuple(ax._default_shifts.items()), ax._periodic) for nm, ax in g.axes.items()],
                        {tuple(sorted(k)): [(m.name, m.dims, m.values.tolist()) for m in vs] for k, vs in g._metrics.items()}, repr(g._face_connections))
            gbefore = gsnap()

            def call():
                nonlocal td
                if op == "diff-dicts":
                    return g.diff(c, "X", to=D("to", {"X": "left"}), boundary=D("boundary", {"X": "extend"}), fill_value=D("fill_value", {"X": 2.5}))
                if op == "interp-multi-dicts":
                    return g.interp(c, D("axis", ["X", "Y"]), to=D("to", {"X": "outer", "Y": "left"}), boundary=D("boundary", {"X": "fill", "Y": "extend"}),
                                    fill_value=D("fill_value", {"X": 2.5}), metric_weighted=D("metric_weighted", {"X": ("X",), "Y": None}))
                if op == "max-mapping":
                    return g.max(c, ["Y", "X"], boundary=D("boundary", {"Y": "extend", "X": "fill"}), keep_coords=True)
                if op == "cumsum-dicts":
                    return g.cumsum(c, D("axis", ["X", "Y"]), to=D("to", {"X": "outer", "Y": "left"}), boundary=D("boundary", {"X": "fill", "Y": "extend"}),
                                    fill_value=D("fill_value", {"X": 2.5, "Y": 0.0}), metric_weighted=D("metric_weighted", {"X": ("X",), "Y": None}))
                if op == "diff-without-padding":
                    return g.diff(o1, "X", to="center")
                if op == "min-without-padding":
                    return g.min(o1, "X", to="center", keep_coords=True)
                if op == "cumsum-metric-same-dims":
                    return g.cumsum(d1, "X", to="left", boundary="fill", fill_value=0.0, metric_weighted=("X",))
                if op == "interp-metric-same-dims":
                    return g.interp(d1, "X", to="left", boundary="extend", metric_weighted=("X",))
                if op == "derivative":
                    return g.derivative(c, "X", boundary=D("boundary", {"X": "extend"}))
                if op == "integrate":
                    return g.integrate(c, D("axis", ["X", "Y"]))
                if op == "average":
                    return g.average(c, D("axis", ["X"]))
                if op == "cumint":
                    return g.cumint(zc, "Z", to="outer", boundary="fill", fill_value=0.0)
                if op == "get_metric":
                    return g.get_metric(u, ("X",))
                if op == "interp_like":
                    return g.interp_like(c, u, boundary=D("boundary", {"X": "extend"}))
                if op == "pad-direct":
                    return xgcm.padding.pad(c, g, boundary_width=D("boundary_width", {"X": (1, 2), "Y": (0, 1)}), boundary=D("boundary", {"X": "fill"}),
                                            fill_value=D("fill_value", {"X": 2.5}))
                if op in ("vector-simple", "fc-diff-vector", "fc-rot-diff-vector"):
                    return g.diff(D("vector", {"X": u}), "X", to="center", other_component=D("other_component", {"Y": v}), boundary="fill")
                if op == "fc-interp-vector":
                    return g.interp(D("vector", {"Y": v}), "Y", to="center", other_component=D("other_component", {"X": u}), boundary="extend")
                if op == "fc-2d-vector":
                    return g.diff_2d_vector(D("vector", {"X": u, "Y": v}), boundary="fill")
                if op in ("fc-pad-vector", "ill-vector-missing-partner"):
                    oc = D("other_component", {"Y": v}) if op == "fc-pad-vector" else None
                    return xgcm.padding.pad(D("vector", {"X": u}), g, boundary_width=D("boundary_width", {"X": (1, 1)}), boundary="fill", other_component=oc)
                if op == "fc-diff-scalar":
                    return g.diff(c, "X", to="left", boundary=D("boundary", {"X": "fill"}), fill_value=D("fill_value", {"X": 2.5}))
                if op.startswith("transform"):
                    td = xr.DataArray(np.sort(rng.random((2, 3 if "linear" in op else 4, n)), axis=1), dims=("t", "z_c" if "linear" in op else "z_o", "x_c"),
                                      name=None if "unnamed" in op else "TD")
                    arrs["target_data"] = td
                    snaps["target_data"] = td.copy(deep=True)
                    names["target_data"] = td.name
                    return g.transform(zc, "Z", np.array([0.2, 0.5, 0.8]), target_data=td, method="linear" if "linear" in op else "conservative")
                if op == "ill-to":
                    return g.interp(c, "X", to=D("to", {"X": "inner"}), fill_value=D("fill_value", {"X": 2.5}))
                if op == "ill-axis":
                    return g.diff(c, "W", boundary=D("boundary", {"X": "extend"}))
                if op == "ill-boundary-word":
                    return g.diff(c, "X", boundary=D("boundary", {"X": "reflect"}))
                return None
            try:
                call()
            except Exception as e:  # noqa
                text.append(f"raised {type(e).__name__}: {e}")
            gafter = gsnap()
            for part, b4, af in zip(("axis settings", "registered metrics", "face connections"), gbefore, gafter):
                if b4 != af:
                    text.append(f"ARGUMENT MODIFIED: the Grid's own {part} changed during the call" + (f": keys/lengths before {[(k, len(v)) for k, v in b4.items()]}, after {[(k, len(v)) for k, v in af.items()]}" if isinstance(b4, dict) else ""))
            for k, a in arrs.items():
                if a.name != names[k]:
                    text.append(f"ARGUMENT MODIFIED: name of {k} is now {a.name!r}, was {names[k]!r}")
                elif not a.identical(snaps[k]):
                    text.append(f"ARGUMENT MODIFIED: array {k} differs from its snapshot")
        for label, (d, snap) in tracked.items():
            same = (list(d.keys()) == list(snap.keys())) if isinstance(d, dict) else (d == snap)
            if isinstance(d, dict) and same:
                for k2 in d:
                    if isinstance(d[k2], (str, int, float, tuple, type(None), list, dict)) and d[k2] != snap[k2]:
                        same = False
            if not same:
                text.append(f"ARGUMENT MODIFIED: {label} is now {d if not isinstance(d, dict) else {k3: '...' for k3 in d}} (keys {list(d.keys()) if isinstance(d, dict) else ''}), was keys {list(snap.keys()) if isinstance(snap, dict) else snap}")
    except Exception as e:  # noqa
        import traceback
        text.append(f"replay setup failed: {type(e).__name__}: {e}\n{traceback.format_exc(limit=-2)}")
        return {"confirmed": False, "text": "\n".join(text)}
    conf = any(t.startswith("ARGUMENT MODIFIED") for t in text)
    return {"confirmed": conf, "text": "\n".join(text)}


def replay_history(ob):
    import numpy as np
    import xarray as xr
    import xgcm
    from xgcm.padding import pad

    seq = ob["witness"]["seq"]
    n = 4
    ds = xr.Dataset(coords={"x_c": np.arange(n), "x_l": np.arange(n), "x_o": np.arange(n + 1), "y_c": np.arange(n), "y_l": np.arange(n), "z_c": np.arange(3), "z_o": np.arange(4), "t": np.arange(2)})
    rng = np.random.default_rng(0)
    ds["dx_c"] = ("x_c", rng.random(n) + 1)
    ds["dx_l"] = ("x_l", rng.random(n) + 1)
    ds["dy_c"] = ("y_c", rng.random(n) + 1)
    ds["dx_c2"] = ("x_c", rng.random(n) * 10 + 5)
    coords = {"X": {"center": "x_c", "left": "x_l", "outer": "x_o"}, "Y": {"center": "y_c", "left": "y_l"}, "Z": {"center": "z_c", "outer": "z_o"}}
    mets = {("X",): ["dx_c"], ("Y",): ["dy_c"]} if set(seq) & set(HIST_METRIC_OPS) else {("X",): ["dx_c", "dx_l"], ("Y",): ["dy_c"]}
    mk = lambda: xgcm.Grid(ds, coords=coords, periodic=False, boundary={"X": "fill", "Y": "extend", "Z": "fill"}, fill_value=7.5, metrics=mets, autoparse_metadata=False)  # noqa
    o = xr.DataArray(rng.random((2, n, n + 1)), dims=("t", "y_c", "x_o"), name="O")
    c = xr.DataArray(rng.random((2, n, n)), dims=("t", "y_c", "x_c"), name="C")
    u = xr.DataArray(rng.random((2, n, n)), dims=("t", "y_c", "x_l"), name="U")
    v = xr.DataArray(rng.random((2, n, n)), dims=("t", "y_l", "x_c"), name="V")
    args = {"A_b": {"X": "extend"}, "A_f": {"X": 0.0}, "G_v": {"X": u}, "G_o": {"Y": v}, "I_b": {"Y": "periodic"}}
    ops = {
        "A": lambda g: g.diff(c, "X", to="left", boundary=args["A_b"], fill_value=args["A_f"]), "B": lambda g: g.diff(c, "X", to="left"),
        "C": lambda g: pad(c, g, boundary_width={"X": (1, 1)}, boundary="periodic"), "D": lambda g: g.interp(c, ["X", "Y"], fill_value=2.25),
        "E": lambda g: g.cumsum(c, "X", to="left", boundary="fill", fill_value=-3.0), "G": lambda g: g.diff(args["G_v"], "X", to="center", other_component=args["G_o"]),
        "I": lambda g: g.max(c, "Y", boundary=args["I_b"]),
        "E2": lambda g: g.cumsum(c, "X", to="outer", boundary="fill", fill_value=-3.0),
        "V": lambda g: g.apply_as_grid_ufunc(lambda a: a[..., 1:] - a[..., :-1], c, axis=[("X",)], signature="(Q:center)->(Q:left)", boundary_width={"Q": (1, 0)}, boundary={"X": "extend"}),
        "V2": lambda g: g.apply_as_grid_ufunc(lambda a: a[..., 1:] + a[..., :-1], c, axis=[("X",)], signature="(Q:center)->(Q:outer)", boundary_width={"Q": (1, 1)}, boundary={"X": "fill"}, fill_value=2.25),
        "W": lambda g: g.derivative(c, "X", to="left", boundary="extend"), "X": lambda g: g.cumint(c, "X", to="left", boundary="fill", fill_value=0.0),
        "P": lambda g: g.interp(c, "X", to="outer"), "Q": lambda g: g.diff(c, "X"), "R": lambda g: g.diff(u, "X", to="center"),
        "S": lambda g: g.diff(c, ["X", "Y"], to={"X": "outer", "Y": "left"}), "T": lambda g: g.min(c, "X", to="outer", keep_coords=True),
        "U": lambda g: g.diff(c, "X", to="outer", boundary="extend"),
        "J": lambda g: g.integrate(u, "X"), "K": lambda g: g.integrate(o, "X"), "L": lambda g: g.get_metric(o, ("X",)),
        "M": lambda g: g.interp(c, "X", to="outer", metric_weighted=("X",)),
        "Z": lambda g: g.set_metrics(("X",), "dx_c2", overwrite=True),
    }

    def run(g, name):
        try:
            return ("returned", ops[name](g))
        except Exception as e:  # noqa
            return ("raised", f"{type(e).__name__}: {e}")
    g1 = mk()
    for name in seq[:-1]:
        run(g1, name)
    after = run(g1, seq[-1])
    g2 = mk()
    for name in ob["witness"].get("fresh_prefix") or []:
        run(g2, name)
    fresh = run(g2, seq[-1])
    text = [f"sequence {' ; '.join(seq)} on one Grid vs {seq[-1]} on a fresh Grid"]
    if after[0] != fresh[0]:
        return {"confirmed": True, "text": "\n".join(text + [f"after the history: {after[0]} {after[1] if after[0] == 'raised' else ''}; fresh: {fresh[0]}"])}
    if after[0] == "returned":
        a, f = after[1], fresh[1]
        if a.dims != f.dims or not np.allclose(a.values, f.values):
            return {"confirmed": True, "text": "\n".join(text + ["the result depends on the calls made before on the same Grid"])}
    return {"confirmed": False, "text": "\n".join(text + ["same result natively"])}
