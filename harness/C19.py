"""C19 - outputs are labelled with the grid's coordinates for the new position.

Functions under contract: padding._strip_all_coords, grid_ufunc._reattach_coords, grid_ufunc._apply
(coordinate propagation clause of the assumed apply_ufunc contract), the rename/drop/reattach lines of
Grid.cumsum, Grid._1d_grid_ufunc_dispatch.  Coordinates are modelled by content tokens: a result
coordinate is "the dataset's coordinate" iff it carries the token of that dataset coordinate
(values and attributes).
"""
from __future__ import annotations

import json

import z3

from vp.world import raised_in_harness as _rih
from vp import symx, util
from vp.symx import oblige, zint
from vp.world import SymWorld, NativeWorld, model_values
from contracts import spec
from harness import C01, C09

PROPERTY = "C19"
META = {
    "level": "proof",
    "functions_under_contract": ["xgcm.padding._strip_all_coords", "xgcm.grid_ufunc._reattach_coords", "xgcm.grid_ufunc._apply",
                                 "xgcm.grid.Grid.cumsum (rename/drop/reattach)", "xgcm.grid.Grid._1d_grid_ufunc_dispatch",
                                 "xgcm.grid_ufunc.apply_as_grid_ufunc", "xgcm.padding.pad"],
    "trusted_base": [
        "coordinate model of vp/mxr.py: reset_coords/reset_index/drop_vars/assign_coords/rename/isel/pad and the coordinate propagation of apply_ufunc (coordinates without excluded dims are kept, others dropped) - assumed contracts",
        "a coordinate is identified by a content token (values+attributes of the dataset coordinate it was taken from)",
        "CPython executes the functions as written", "z3 5.1 is sound",
    ],
    "assumptions": ["inputs carry the dataset's coordinates or none (as in the property's quantifier)"],
}


def sid(d):
    keys = ("op", "arr", "to", "keep_coords", "input_coords", "coords", "other", "extra", "order", "canary")
    return ";".join(f"{k}={json.dumps(d.get(k), sort_keys=True)}" for k in keys if d.get(k) is not None).replace('"', "").replace(" ", "")


def structures(tier, seed):
    out = []
    P = ("center", "left", "outer", "inner", "right")

    def add(op, pf, pt, keep, inp, coords=True, other="rich", extra=1, order=None, canary=None):
        axes = {"X": tuple(dict.fromkeys(("center", pf, pt))), "Y": ("center", "left")}
        lay = {"X": {p: f"x_{p[0]}" for p in axes["X"]}}
        dfrom, dto = lay["X"][pf], lay["X"][pt]
        oc = {}
        if other == "rich":
            oc = {"scal": (), "aux_from": (dfrom,), "aux_to": (dto,), "aux_e": ("e0",) if extra else (), "area_from": (dfrom, "y_c"),
                  "area_to": (dto, "y_c"), "aux_y": ("y_c",), "aux_yl": ("y_l",)}
        cval = coords
        if coords == "partial":
            cval = [dto, "y_c"]
        elif coords == "none-on-new":
            cval = [dfrom, "y_c"] + (["e0"] if extra else [])
        d = dict(part="op", op=op, axes=axes, arr={"X": pf, "Y": "center"}, axis="X", to=pt, order=order, extra=extra, gperiodic=False,
                 gboundary=None, gfill=None, cboundary="extend", cfill=None, dshifts=None, coords=cval, other_coords=oc,
                 keep_coords=keep, input_coords=inp, canary=canary, other=other)
        d["sid"] = sid(d)
        out.append(d)
    shifts = [("center", "left"), ("outer", "center"), ("center", "inner"), ("left", "center"), ("center", "outer"), ("inner", "center"), ("center", "right"), ("right", "center")]
    for op in ("diff", "interp", "cumsum"):
        for (pf, pt) in (shifts if (tier == "thorough" or op != "interp") else shifts[:3]):
            for keep in (True, False, None):
                for inp in (True, False):
                    add(op, pf, pt, keep, inp)
    for op in ("min", "cumsum", "diff"):
        add(op, "center", "left", True, True, coords=False)
        add(op, "center", "left", True, False, coords="partial")
        add(op, "center", "outer", None, True, coords="none-on-new")
        add(op, "outer", "center", True, True, other="none", extra=0)
        add(op, "center", "left", True, True, order=(2, 0, 1))
    add("diff", "center", "left", True, True, canary="keep-flipped")

    # several axes in one call (the steps are chained inside the library: what one step attaches must not leak through the next)
    def add_multi(op, sx, sy, order, keep, inp):
        axes = {"X": tuple(dict.fromkeys(("center",) + sx)), "Y": tuple(dict.fromkeys(("center",) + sy))}
        xf, xt, yf, yt = f"x_{sx[0][0]}", f"x_{sx[1][0]}", f"y_{sy[0][0]}", f"y_{sy[1][0]}"
        oc = {"scal": (), "aux_xf": (xf,), "aux_xt": (xt,), "aux_yf": (yf,), "aux_yt": (yt,), "aux_e": ("e0",), "a_ff": (yf, xf), "a_tf": (yf, xt),
              "a_ft": (yt, xf), "a_tt": (xt, yt), "a_e": ("e0", yt, xt)}
        d = dict(part="op", op=op, axes=axes, arr={"X": sx[0], "Y": sy[0]}, axis=list(order), to={"X": sx[1], "Y": sy[1]}, order=None, extra=1, gperiodic=False,
                 gboundary=None, gfill=None, cboundary="extend", cfill=None, dshifts=None, coords=True, other_coords=oc,
                 keep_coords=keep, input_coords=inp, canary=None, other="rich-2d", shifts=[["X", sx[0], sx[1]], ["Y", sy[0], sy[1]]])
        d["sid"] = "multi;" + sid(d) + f";axis={'-'.join(order)}"
        out.append(d)
    pairs = [(("center", "left"), ("center", "right")), (("center", "right"), ("left", "center")), (("outer", "center"), ("center", "outer")),
             (("center", "inner"), ("center", "left")), (("left", "center"), ("outer", "center")), (("center", "outer"), ("center", "inner"))]
    out.append({"part": "native-lazy", "sid": "native-lazy[bounded]"})
    out.append({"part": "native-vector-names", "sid": "native-vector-names[bounded]"})
    # the same labelling clauses when the operation is weighted by a metric (the product with the metric and the quotient by it go
    # through xarray arithmetic, which names its result only when both operands have the same name)
    for op in ("diff", "interp", "min", "max", "cumsum"):
        for mw in (["X"], ["X", "Y"]):
            out.append({"part": "metric-weighted", "op": op, "mw": mw, "sid": f"metric-weighted;{op};{'+'.join(mw)}"})
    for op in ("cumsum", "diff", "interp"):
        for (sx, sy) in (pairs if (tier == "thorough" or op == "cumsum") else pairs[:2]):
            for order in (("X", "Y"), ("Y", "X")):
                for keep in (True, False, None):
                    for inp in (True, False):
                        add_multi(op, sx, sy, order, keep, inp)
    return out


def run_native_lazy(s):
    """[bounded] real xarray + dask: name, dims and coordinates of the result do not depend on whether the input is lazy"""
    import time
    import warnings

    import numpy as np
    import xarray as xr
    import xgcm
    warnings.simplefilter("ignore")
    t0 = time.time()
    n = 6
    ds = xr.Dataset(coords={"x_c": ("x_c", np.arange(n) + 0.5, {"units": "m"}), "x_l": ("x_l", np.arange(n) * 1.0, {"units": "m"}), "x_o": ("x_o", np.arange(n + 1) * 1.0),
                            "y_c": np.arange(4), "aux_y": ("y_c", np.arange(4) * 2.0), "area": (("y_c", "x_c"), np.ones((4, n)))})
    g = xgcm.Grid(ds, coords={"X": {"center": "x_c", "left": "x_l", "outer": "x_o"}, "Y": {"center": "y_c"}}, periodic=False, autoparse_metadata=False)
    rng = np.random.default_rng(0)
    da = xr.DataArray(rng.random((4, n)), dims=("y_c", "x_c"), name="temp").assign_coords(x_c=ds.x_c, y_c=ds.y_c, aux_y=ds.aux_y)
    bad, ncmp = [], 0
    for op in ("diff", "interp", "min", "max", "cumsum"):
        for to in ("left", "outer"):
            for keep in (True, False):
                kw = dict(to=to, boundary="extend", keep_coords=keep)
                ref = getattr(g, op)(da, "X", **kw)
                for chunks in ({"y_c": 2}, {"x_c": 3}, {"y_c": 1, "x_c": 2}):
                    if op == "cumsum" or to == "outer":
                        if "x_c" in chunks and op != "cumsum":
                            continue  # chunked along the axis with an outer position: refused by design (C06)
                    ncmp += 1
                    try:
                        got = getattr(g, op)(da.chunk(chunks), "X", **kw)
                    except Exception as e:  # noqa
                        bad.append(f"{op}(to={to}, keep_coords={keep}) on input chunked {chunks} raised {type(e).__name__}: {e}")
                        continue
                    if got.name != da.name:
                        bad.append(f"{op}(to={to}, keep_coords={keep}) on input chunked {chunks}: result is named {got.name!r}, the input {da.name!r}")
                    elif got.dims != ref.dims or set(got.coords) != set(ref.coords) or any(dict(got[c].attrs) != dict(ref[c].attrs) for c in ref.coords):
                        bad.append(f"{op}(to={to}, keep_coords={keep}) on input chunked {chunks}: dims / coordinates {got.dims} {sorted(got.coords)} differ from the in-memory result {ref.dims} {sorted(ref.coords)}")
    rec = {"fn": "grid.Grid.diff/interp/min/max/cumsum[bounded, real dask]", "clause": "name-dims-coordinates-the-same-for-lazy-input", "status": "failed" if bad else "proved", "time": time.time() - t0,
           "detail": bad[0] if bad else f"{ncmp} lazy calls"}
    if bad:
        rec["witness"] = {"part": "native-lazy", "text": bad[0]}
    return {"sid": s["sid"], "obligations": [rec], "paths": 0, "queries": 0, "solver_time": 0.0, "engine_errors": [], "covers": {"normal-return": 1},
            "counts": {"bounded_standin_evaluations": ncmp}}


def run_native_vector_names(s):
    """[bounded] real xarray: a vector component operated across face links (aligned, axis-swapping, reversed; on either side of
    face 0 or of face 1) keeps ITS name, dims and face coordinate - the padding concatenates pieces of the partner component"""
    import time
    import warnings

    import numpy as np
    import xarray as xr
    import xgcm
    warnings.simplefilter("ignore")
    t0 = time.time()
    n = 4
    ds = xr.Dataset(coords={"face": [0, 1], "x_c": np.arange(n) + .5, "x_l": np.arange(n) * 1., "y_c": np.arange(n) + .5, "y_l": np.arange(n) * 1.})
    coords = {"X": {"center": "x_c", "left": "x_l"}, "Y": {"center": "y_c", "left": "y_l"}}
    rng = np.random.default_rng(0)
    u = xr.DataArray(rng.random((2, n, n)), dims=("face", "y_c", "x_l"), name="u")
    v = xr.DataArray(rng.random((2, n, n)), dims=("face", "y_l", "x_c"), name="v")
    tables = {
        "X-left-of-0<->Y-right-of-1": {0: {"X": ((1, "Y", False), None)}, 1: {"Y": (None, (0, "X", False))}},
        "X-left-of-0<->Y-left-of-1,reversed": {0: {"X": ((1, "Y", True), None)}, 1: {"Y": ((0, "X", True), None)}},
        "X-right-of-0<->Y-left-of-1": {0: {"X": (None, (1, "Y", False))}, 1: {"Y": ((0, "X", False), None)}},
        "X-right-of-0<->Y-right-of-1,reversed": {0: {"X": (None, (1, "Y", True))}, 1: {"Y": (None, (0, "X", True))}},
        "Y-left-of-0<->X-right-of-1": {0: {"Y": ((1, "X", False), None)}, 1: {"X": (None, (0, "Y", False))}},
        "X-left-of-0<->X-right-of-1": {0: {"X": ((1, "X", False), None)}, 1: {"X": (None, (0, "X", False))}},
        "X-left-of-1<->Y-right-of-0": {1: {"X": ((0, "Y", False), None)}, 0: {"Y": (None, (1, "X", False))}},
    }
    bad, ncmp = [], 0
    for tag, fc in tables.items():
        g = xgcm.Grid(ds, coords=coords, face_connections={"face": fc}, periodic=False, boundary="fill", fill_value=0., autoparse_metadata=False)
        for op in ("diff", "interp", "min", "max"):
            for comp, arr, oc, want_dims in (("X", u, {"Y": v}, ("face", "y_c", "x_c")), ("Y", v, {"X": u}, ("face", "y_c", "x_c"))):
                ncmp += 1
                call = f"grid.{op}({{{comp!r}: {arr.name}}}, {comp!r}, other_component={{{list(oc)[0]!r}: {list(oc.values())[0].name}}}) with face links {tag}"
                try:
                    r = getattr(g, op)({comp: arr}, comp, other_component=oc)
                except Exception as e:  # noqa
                    bad.append(f"{call} raised {type(e).__name__}: {e}")
                    continue
                if r.name != arr.name:
                    bad.append(f"{call}: result is named {r.name!r}, the input {arr.name!r}")
                elif tuple(r.dims) != want_dims:
                    bad.append(f"{call}: dims {r.dims}, expected {want_dims}")
    rec = {"fn": "grid.Grid.diff/interp/min/max[bounded, vector input across face links]", "clause": "name-and-dims-of-the-component-kept", "status": "failed" if bad else "proved",
           "time": time.time() - t0, "detail": bad[0] if bad else f"{ncmp} calls"}
    if bad:
        rec["witness"] = {"part": "native-lazy", "text": "\n".join(bad[:12])}
    return {"sid": s["sid"], "obligations": [rec], "paths": 0, "queries": 0, "solver_time": 0.0, "engine_errors": [], "covers": {"normal-return": 1},
            "counts": {"bounded_standin_evaluations": ncmp}}


MW_REG = {"X": ["dx_c", "dx_l"], "Y": ["dy_c", "dy_l"], "XY": ["a_cc", "a_lc"]}


def mw_call(g, op, c, mw):
    kw = dict(to="left", metric_weighted=tuple(mw))
    if op == "cumsum":
        kw.update(boundary="fill", fill_value=0.0)
    else:
        kw.update(boundary="extend")
    return getattr(g, op)(c, "X", **kw)


def run_metric_weighted(s):
    from harness import C10
    mods = util.xgcm_modules()
    covers = {}

    def body():
        w = SymWorld()
        layout, ns, dims, ds, g = C10.build(w, MW_REG)
        c = w.array("C", ["t", "y_c", "x_c"], ds, with_coords=True)
        try:
            out = mw_call(g, s["op"], c, s["mw"])
        except (symx.EngineUnsupported, symx.InfeasiblePath, symx.PathAbort):
            raise
        except Exception as e:  # noqa
            import traceback
            oblige("returns-normally", False, detail=f"{type(e).__name__}: {e} @ {traceback.format_exc(limit=-2)[-300:]}")
            return
        oblige("returns-normally", True)
        covers["normal-return"] = covers.get("normal-return", 0) + 1
        oblige("name-kept", c.name is not None and out.name == c.name, detail=f"{out.name!r} vs {c.name!r}")
        oblige("dims", tuple(out.dims) == ("t", "y_c", "x_l"), detail=str(out.dims))
        got = {k: v for k, v in out.coords.items()}
        for d in ("t", "y_c", "x_l"):
            oblige(f"coord:dimension-has-the-dataset-coordinate:{d}", d in got and got[d].tok == ("ds", d), detail=f"{d}: {got[d].tok if d in got else 'absent'}")
        stale = [k for k, v in got.items() if "x_c" in v.dims or k == "x_c"]
        oblige("coord:none-on-the-abandoned-dimension", not stale, detail=str(stale))
        extra = [k for k in got if k not in ("t", "y_c", "x_l")]
        oblige("coord:no-other-coordinate-with-keep_coords-unset", not extra, detail=str(extra))
        oblige("frame:input-array-unchanged", not c.log and not ds.log)

    with util.patched(*util.std_patches(mods)):
        rep = symx.explore(body, s["sid"])
    obs = []
    for name, ob in rep.merged().items():
        rec = {"fn": f"grid.Grid.{s['op']}[metric_weighted]", "clause": name, "status": ob.status, "time": ob.time, "detail": ob.detail}
        if ob.status == "failed":
            rec["witness"] = {"part": "metric-weighted", "op": s["op"], "mw": s["mw"], "model": model_values(ob.model)}
        obs.append(rec)
    return {"sid": s["sid"], "obligations": obs, "paths": rep.paths, "queries": rep.queries,
            "solver_time": rep.solver_time, "engine_errors": rep.engine_errors, "covers": covers}


def replay_metric_weighted(wit):
    import numpy as np
    import xarray as xr
    import xgcm
    nx, ny = 4, 3
    rng = np.random.default_rng(0)
    ds = xr.Dataset(coords={"x_c": ("x_c", np.arange(nx) + 0.5), "x_l": ("x_l", np.arange(nx) * 1.0), "y_c": ("y_c", np.arange(ny) + 0.5), "y_l": ("y_l", np.arange(ny) * 1.0), "t": ("t", [0, 1])})
    ds["dx_c"] = ("x_c", rng.random(nx) + 1); ds["dx_l"] = ("x_l", rng.random(nx) + 1)
    ds["dy_c"] = ("y_c", rng.random(ny) + 1); ds["dy_l"] = ("y_l", rng.random(ny) + 1)
    ds["a_cc"] = (("y_c", "x_c"), rng.random((ny, nx)) + 1); ds["a_lc"] = (("y_c", "x_l"), rng.random((ny, nx)) + 1)
    g = xgcm.Grid(ds, coords={"X": {"center": "x_c", "left": "x_l"}, "Y": {"center": "y_c", "left": "y_l"}}, periodic=False,
                  metrics={("X",): ["dx_c", "dx_l"], ("Y",): ["dy_c", "dy_l"], ("X", "Y"): ["a_cc", "a_lc"]}, autoparse_metadata=False)
    c = xr.DataArray(rng.random((2, ny, nx)), dims=("t", "y_c", "x_c"), coords={"t": ds.t, "y_c": ds.y_c, "x_c": ds.x_c}, name="C")
    text = [f"grid.{wit['op']}(C, 'X', to='left', metric_weighted={tuple(wit['mw'])}) on a 2x{ny}x{nx} array named 'C' carrying the dataset's dimension coordinates"]
    try:
        out = mw_call(g, wit["op"], c, wit["mw"])
    except Exception as e:  # noqa
        import traceback
        return {"confirmed": not _rih(e), "text": "\n".join(text + [f"REAL CODE RAISED {type(e).__name__}: {e}", traceback.format_exc(limit=-3)])}
    bad = []
    if out.name != c.name:
        bad.append(f"name {out.name!r} != input name {c.name!r}")
    if tuple(out.dims) != ("t", "y_c", "x_l"):
        bad.append(f"dims {out.dims}")
    if set(out.coords) != {"t", "y_c", "x_l"}:
        bad.append(f"coordinates {sorted(out.coords)} are not the dataset's coordinates of the result's dimensions")
    else:
        for d in out.coords:
            if not np.array_equal(out[d].values, ds[d].values):
                bad.append(f"coordinate {d!r} does not have the dataset's values")
    if bad:
        return {"confirmed": True, "text": "\n".join(text + ["REAL CODE DISAGREES WITH THE SPECIFICATION:"] + bad)}
    return {"confirmed": False, "text": "\n".join(text + ["real code agrees with the specification on this input"])}


def shifts_of(s, layout):
    """[(axis, abandoned dim, new dim)] of the call"""
    sh = s.get("shifts") or [["X", s["arr"]["X"], s["to"]]]
    return [(a, layout[a][pf], layout[a][pt]) for a, pf, pt in sh]


def expected_coords(s, r):
    """{name: token} the result must carry, from the statement"""
    ds_coords = r["cdefs"]
    layout = r["layout"]
    sh = shifts_of(s, layout)
    ren = {df: dt for _, df, dt in sh}
    dfrom, dto = [df for _, df, _ in sh], [dt for _, _, dt in sh]
    out_dims = [ren.get(d, d) for d in r["da"].dims]
    keep = s["keep_coords"]
    if keep is None:
        keep = False  # documented default of the Grid methods
    want = {}
    for name, cd in ds_coords.items():
        fits = all(d in out_dims for d in cd)
        if not fits:
            continue
        is_dimcoord = tuple(cd) == (name,)
        if is_dimcoord or keep:
            want[name] = ("ds", name)
    return want, out_dims, dfrom, dto


def run_structure(s):
    if s.get("part") == "native-lazy":
        return run_native_lazy(s)
    if s.get("part") == "metric-weighted":
        return run_metric_weighted(s)
    if s.get("part") == "native-vector-names":
        return run_native_vector_names(s)
    mods = util.xgcm_modules()
    covers = {}
    canary = s.get("canary")

    def body():
        w = SymWorld()
        try:
            r = C01.scenario(s, w)
        except (symx.EngineUnsupported, symx.InfeasiblePath, symx.PathAbort):
            raise
        except Exception as e:  # noqa
            import traceback
            oblige("returns-normally", False, detail=f"{type(e).__name__}: {e} @ {traceback.format_exc(limit=-2)[-300:]}")
            return
        oblige("returns-normally", True)
        covers["normal-return"] = covers.get("normal-return", 0) + 1
        out, da, ds = r["out"], r["da"], r["ds"]
        want, out_dims, dfrom, dto = expected_coords(s, r)
        if canary == "keep-flipped":
            want, _, _, _ = expected_coords(dict(s, keep_coords=not s["keep_coords"]), r)
        got = {k: v for k, v in out.coords.items()}
        for dt in dto:
            oblige("coord:new-dimension-has-the-dataset-coordinate-of-the-target-position" + (f":{dt}" if len(dto) > 1 else ""),
                   (dt in want) == (dt in got) and (dt not in got or got[dt].tok == ("ds", dt)),
                   detail=f"{dt}: want {'present' if dt in want else 'absent'}, got {got[dt].tok if dt in got else 'absent'}")
        for d in out_dims:
            if d in dto:
                continue
            oblige(f"coord:untouched-dimension-coordinate-kept:{d}",
                   (d in want) == (d in got) and (d not in got or got[d].tok == ("ds", d)),
                   detail=f"{d}: want {'present' if d in want else 'absent'}, got {got[d].tok if d in got else 'absent'}")
        stale = [k for k, v in got.items() if set(dfrom) & set(v.dims) or k in dfrom]
        oblige("coord:none-on-the-abandoned-dimension", not stale, detail=str(stale))
        for name in r["cdefs"]:
            if name in out_dims or name in dfrom:
                continue
            oblige(f"coord:other-dataset-coordinate-attached-iff-fits-and-keep_coords:{name}",
                   (name in want) == (name in got) and (name not in got or got[name].tok == ("ds", name)),
                   detail=f"{name}: want {'present' if name in want else 'absent'}, got {got[name].tok if name in got else 'absent'}")
        for name, c in got.items():
            if name in want:
                a1 = c.attrs.get("tokattr")
                oblige(f"coord:attributes-are-the-dataset's:{name}", a1 == ("ds-attrs", name), detail=str(a1))
                oblige(f"coord:dims-are-the-dataset's:{name}", tuple(c.dims) == tuple(r["cdefs"][name]), detail=str(c.dims))
        extra = [k for k in got if k not in r["cdefs"]]
        oblige("coord:no-coordinate-from-elsewhere", not extra, detail=str(extra))
        oblige("name-kept", out.name == da.name, detail=f"{out.name!r} vs {da.name!r}")
        # values do not depend on the labels: the same value specification holds with and without input coords
        if s["op"] == "cumsum" and len(dto) > 1:
            # values of a cumsum over several axes are the contract of C09 (sequential part); here only the labelling
            oblige("dims", tuple(out.dims) == tuple(out_dims), detail=f"{out.dims} vs {out_dims}")
            oblige("frame:input-array-unchanged", not da.log and not ds.log)
            return
        sp = C09.single_spec(s, r) if s["op"] == "cumsum" else C01.op_spec(s, r)
        oblige("dims", tuple(out.dims) == tuple(sp["dims"]), detail=f"{out.dims} vs {sp['dims']}")
        if set(out.dims) == set(sp["dims"]):
            gotv = out.elem(sp["q"])
            for name, region, val in sp["cells"]:
                oblige("values-independent-of-labels", z3.Implies(region, gotv == val))
        oblige("frame:input-array-unchanged", not da.log and not ds.log)

    with util.patched(*util.std_patches(mods)):
        rep = symx.explore(body, s["sid"])
    obs = []
    for name, ob in rep.merged().items():
        rec = {"fn": f"grid.Grid.{s['op']}", "clause": name, "status": ob.status, "time": ob.time, "detail": ob.detail}
        if ob.status == "failed":
            rec["witness"] = {"structure": dict(s), "model": model_values(ob.model)}
        if canary:
            if name.startswith("coord:untouched") or name.startswith("coord:none-on") or name.startswith("coord:other"):
                if ob.status == "failed":
                    rec["canary"] = True
                    obs.append(rec)
            continue
        obs.append(rec)
    if canary and not any(o.get("canary") for o in obs):
        obs.append({"fn": "canary", "clause": "none-refuted", "status": "proved", "canary": True, "time": 0})
    return {"sid": s["sid"], "obligations": obs, "paths": rep.paths, "queries": rep.queries,
            "solver_time": rep.solver_time, "engine_errors": rep.engine_errors, "covers": covers}


REQUIRED_COVERS = ["normal-return"]


def replay(ob):
    import warnings

    import numpy as np

    warnings.simplefilter("ignore")
    wit = ob.get("witness") or {}
    if wit.get("part") == "native-lazy":
        return {"confirmed": True, "text": "real xarray (+ dask):\n" + wit.get("text", "")}
    if wit.get("part") == "metric-weighted":
        return replay_metric_weighted(wit)
    s = dict(wit["structure"])
    s["axes"] = {a: tuple(v) for a, v in s["axes"].items()}
    multi = bool(s.get("shifts"))
    s["order"] = tuple(s["order"]) if s.get("order") else None
    s["other_coords"] = {k: tuple(v) for k, v in (s.get("other_coords") or {}).items()}
    clause = ob["id"].rsplit("/", 1)[-1]
    if clause.startswith("frame:"):
        return C01.native_frame_replay(s, C01.scenario)
    if (clause.startswith("values") or clause == "dims") and not (multi and s["op"] == "cumsum"):
        specf = (lambda s_, r_: C09.single_spec(s_, r_)) if s["op"] == "cumsum" else (lambda s_, r_: C01.op_spec(s_, r_))
        return C01.replay_scenario(s, wit.get("model", {}), C01.scenario, specf, "op")
    m = {k: v for k, v in (wit.get("model") or {}).items() if k != "__funcs__"}
    for k in list(m):
        if k.startswith("n_") and isinstance(m[k], int) and m[k] > 6:
            m[k] = 6
    nw = NativeWorld(m)
    text = [f"structure {s['sid']}"]
    try:
        r = C01.scenario(s, nw)
    except Exception as e:  # noqa
        import traceback
        return {"confirmed": not _rih(e), "text": "\n".join(text + [f"REAL CODE RAISED {type(e).__name__}: {e}", traceback.format_exc(limit=-3)])}
    out, ds, da = r["out"], r["ds"], r["da"]
    want, out_dims, dfrom, dto = expected_coords(s, r)
    bad = []
    for name in want:
        if name not in out.coords:
            bad.append(f"coordinate {name!r} missing on the result (coords: {list(out.coords)})")
        else:
            if not np.array_equal(out.coords[name].values, ds[name].values):
                bad.append(f"coordinate {name!r} does not have the dataset's values")
            if dict(out.coords[name].attrs) != dict(ds[name].attrs):
                bad.append(f"coordinate {name!r} attrs {dict(out.coords[name].attrs)} != dataset's {dict(ds[name].attrs)}")
    for name in out.coords:
        if name not in want:
            bad.append(f"unexpected coordinate {name!r} on the result (dims {out.coords[name].dims})")
    if out.name != da.name:
        bad.append(f"name {out.name!r} != input name {da.name!r}")
    if bad:
        return {"confirmed": True, "text": "\n".join(text + [f"native parameters {nw.consts}", "REAL CODE DISAGREES WITH THE SPECIFICATION:"] + bad[:10])}
    return {"confirmed": False, "text": "\n".join(text + ["real code agrees with the specification on this input"])}
