"""C08 - linear and log transforms are exact piecewise-linear interpolation per column.

Functions under contract:
  transform._interp_1d_linear (real kernel, undecorated; mask loop by the generic-iteration rule)
  transform.interp_1d_linear (log pre-transform), transform.linear_interpolation,
  transform.input_handling, transform.transform (linear / log branch: _parse_target,
  _check_other_dims, _target_data_name_handling)

Assumed: np.interp(x, xp, fp) for strictly increasing xp is the piecewise-linear interpolant clamped
to the end values (its precondition is an obligation of the kernel); np.nanmax/nanmin return the
extreme element.
"""
from __future__ import annotations

import itertools
import warnings

import z3

from vp import symx, util
from vp.symx import SymBool, mk_int, oblige, zint
from vp.kern import NVal, KArr, OutArr, KNP, interp_axioms
from vp.mxr import NArr, MArr, generic_range, symlen, NPModel
from vp.world import SymWorld, model_values
from vp.loopcheck import check_independent_loop

PROPERTY = "C08"
META = {
    "level": "proof",
    "functions_under_contract": ["xgcm.transform._interp_1d_linear (kernel, undecorated real function)", "xgcm.transform.interp_1d_linear",
                                 "xgcm.transform.linear_interpolation", "xgcm.transform.input_handling",
                                 "xgcm.transform.transform (linear/log branch, _parse_target, _check_other_dims, _target_data_name_handling)"],
    "trusted_base": [
        "assumed contract of np.interp for strictly increasing xp (piecewise-linear interpolant, end values outside); np.nanmax/nanmin = extreme element; np.log elementwise",
        "numba.guvectorize applies the kernel independently to each column (decorator absent; stand-in in /verif/stubs/numba)",
        "generic-iteration rule for the mask loop (loop independence checked syntactically on every run)",
        "xarray model vp/mxr.py (apply_ufunc core dims, rename)", "floats treated as reals; target_data finite and strictly monotonic (the statement's precondition)", "z3 5.1 is sound",
    ],
    "assumptions": ["bypass_checks=True is only used with increasing target_data (its documented precondition)"],
    "bounded_standins": ["native-columns[bounded]: the real kernel and wrapper on 100 / 300 concrete blocks of 1-4 columns (both directions, mixed inside a block, levels inside / outside / on the ends, both flags, log) against numpy's interpolant. Never counted as proved."],
}


def structures(tier, seed):
    out = []
    for mask, byp, direction in itertools.product((True, False), (False, True), ("inc", "dec")):
        if byp and direction == "dec":
            continue
        out.append({"sid": f"kernel;mask_edges={mask};bypass_checks={byp};theta={direction}", "part": "kernel", "mask": mask, "byp": byp, "dir": direction})
    out.append({"sid": "kernel;canary;no-flip-for-decreasing", "part": "kernel", "mask": True, "byp": False, "dir": "dec", "canary": "wrong-segment"})
    out.append({"sid": "wrapper;interp_1d_linear", "part": "wrapper"})
    out.append({"sid": "xarray;linear_interpolation+transform", "part": "xarray"})
    # [bounded] the real kernel + wrapper on concrete blocks of columns against numpy's interpolant (both directions, directions
    # mixed inside one block, levels inside / outside / exactly on the ends, both flags, log): still decides when the symbolic rule is
    # not applicable to a restructured kernel
    out.append({"sid": "rnd:native-reference[bounded]", "part": "native-reference", "n": 96 if tier == "thorough" else 36, "seed": int(seed)})
    out.append({"sid": "rnd:native-dask[bounded]", "part": "native-dask", "methods": ['linear', 'log'], "n": 24 if tier == "thorough" else 8, "seed": int(seed)})
    out.append({"sid": "rnd:native-columns[bounded]", "part": "native-columns", "n": 300 if tier == "thorough" else 100, "seed": int(seed)})
    return out


def run_native_columns(s):
    import time

    import numpy as np
    import xgcm.transform as T
    t0 = time.time()
    rng = np.random.default_rng(200 + s["seed"])
    bad, ncall = [], 0
    for trial in range(s["n"]):
        n, k = int(rng.integers(2, 7)), int(rng.integers(1, 5))
        th = np.sort(rng.random((k, n)) * 9 + 0.5, axis=1)
        if any(len(np.unique(r)) < n for r in th):
            continue
        flip = rng.random(k) < 0.5
        mask, logm = bool(trial % 2), bool((trial // 2) % 2)
        byp = bool(trial % 5 == 0)
        if byp:
            flip[:] = False  # bypass_checks promises increasing data
        th = np.where(flip[:, None], th[:, ::-1], th)
        ph = rng.random((k, n)) * 5 - 2
        lv = np.concatenate([rng.random(4) * 11, th[0, [0, -1]], [th[0, 0] * (1 + 1e-9)]])
        rng.shuffle(lv)
        got = T.interp_1d_linear(ph, th, lv, mask_edges=mask, bypass_checks=byp, logarithmic=logm)
        ncall += 1
        f = np.log if logm else (lambda v: v)
        for c in range(k):
            o = np.argsort(th[c])
            want = np.interp(f(lv), f(th[c][o]), ph[c][o])
            if mask:
                want = np.where((lv < th[c].min()) | (lv > th[c].max()), np.nan, want)
            if got[c].shape != want.shape or not np.allclose(got[c], want, equal_nan=True, rtol=1e-9, atol=1e-9):
                bad.append(f"block of {k} columns, directions {['dec' if x else 'inc' for x in flip]}, mask_edges={mask}, bypass_checks={byp}, log={logm}: column {c} "
                           f"target_data={th[c].tolist()} data={ph[c].tolist()} levels={lv.tolist()} -> {got[c].tolist()} ; piecewise-linear interpolant {want.tolist()}")
                break
        if bad:
            break
    rec = {"fn": "transform.interp_1d_linear[bounded, real numpy]", "clause": "blocks-of-columns-agree-with-the-piecewise-linear-interpolant", "status": "failed" if bad else "proved",
           "time": time.time() - t0, "detail": bad[0] if bad else f"{ncall} calls"}
    if bad:
        rec["witness"] = {"part": "native-columns", "text": bad[0]}
    return {"sid": s["sid"], "obligations": [rec], "paths": 0, "queries": 0, "solver_time": 0.0, "engine_errors": [], "covers": {"native-columns": 1},
            "counts": {"bounded_standin_evaluations": ncall}}


def side_conditions():
    import xgcm.transform as T

    ok, problems, info = check_independent_loop(T._interp_1d_linear.__wrapped__, "len(target_theta_levels)", set())
    # the only cross-iteration effect allowed is the store output[i] = nan at the loop index
    problems = [p for p in problems if "store into an object that outlives" not in p]
    return [("generic-iteration: the mask loop of _interp_1d_linear has no loop-carried state", not problems, problems, info)]


def run_kernel(s):
    mods = util.xgcm_modules()
    T = mods["transform"]
    kernel = T._interp_1d_linear.__wrapped__
    covers = {}
    canary = s.get("canary")
    inc = s["dir"] == "inc"

    def body():
        c = symx.ctx()
        n = mk_int(z3.Int("n"))
        m = mk_int(z3.Int("m"))
        c.assume(zint(n) >= 2, zint(m) >= 1)
        TH = z3.Function("theta", z3.IntSort(), symx.Val)
        PH = z3.Function("phi", z3.IntSort(), symx.Val)
        LV = z3.Function("level", z3.IntSort(), symx.Val)
        # precondition: theta strictly monotonic (transitive form), as a quantified hypothesis + explicit instances
        qa, qb = z3.Int("qa"), z3.Int("qb")
        lt = (lambda u, v: u < v) if inc else (lambda u, v: u > v)
        c.assume(z3.ForAll([qa, qb], z3.Implies(z3.And(qa >= 0, qa < qb, qb < zint(n)), lt(TH(qa), TH(qb)))))

        def mono(a, b):
            c.assume(z3.Implies(z3.And(a >= 0, a < b, b < zint(n)), lt(TH(a), TH(b))))
        mono(z3.IntVal(0), zint(n) - 1)
        phi = KArr("phi", n, fn=PH)
        theta = KArr("theta", n, fn=TH)
        lev = KArr("level", m, fn=LV)
        out = OutArr("output", m)
        try:
            kernel(phi, theta, lev, s["mask"], s["byp"], out)
        except (symx.EngineUnsupported, symx.InfeasiblePath, symx.PathAbort):
            raise
        except Exception as e:  # noqa
            oblige("kernel:returns-normally", False, detail=f"{type(e).__name__}: {e}")
            return
        oblige("kernel:returns-normally", True)
        calls = c.ghost.get("interp-calls", [])
        oblige("kernel:np.interp-called-once", len(calls) == 1)
        if len(calls) != 1:
            return
        call = calls[0]
        gen = c.ghost.get("generic")
        k = gen[0] if (s["mask"] and gen is not None) else c.fresh_int("k")
        if not (s["mask"] and gen is not None):
            c.assume(k >= 0, k < zint(m))
        for ne in c.ghost.get("nanext", []):
            mono(z3.IntVal(0), ne["kw"])
            mono(ne["kw"], zint(n) - 1)
        # skolem segment of the ORIGINAL arrays containing the level
        sg = c.fresh_int("seg")
        c.assume(sg >= 0, sg < zint(n) - 1)
        mono(sg, sg + 1)
        mono(z3.IntVal(0), sg)
        mono(sg + 1, zint(n) - 1)
        # instances of the np.interp contract: the segment as the code's (possibly flipped) arrays number it
        code_seg = sg if inc else (zint(n) - 2 - sg)
        if canary == "wrong-segment":
            code_seg = sg
        for ax in interp_axioms(call, k, code_seg):
            c.assume(ax)
        x = LV(k)
        lo_end, hi_end = (TH(0), TH(zint(n) - 1)) if inc else (TH(zint(n) - 1), TH(0))
        f_lo, f_hi = (PH(0), PH(zint(n) - 1)) if inc else (PH(zint(n) - 1), PH(0))
        got = out.cur(k)
        a0, a1, f0, f1 = TH(sg), TH(sg + 1), PH(sg), PH(sg + 1)
        between = z3.Or(z3.And(a0 <= x, x <= a1), z3.And(a1 <= x, x <= a0))
        line = f0 + (x - a0) * (f1 - f0) / (a1 - a0)
        covers["post"] = covers.get("post", 0) + 1
        oblige("kernel:inside-range:value-is-the-line-through-the-two-adjacent-points", z3.Implies(between, z3.And(z3.Not(got.nan), got.v == line)))
        if s["mask"]:
            oblige("kernel:below-range:NaN-when-mask_edges", z3.Implies(x < lo_end, got.nan))
            oblige("kernel:above-range:NaN-when-mask_edges", z3.Implies(x > hi_end, got.nan))
            oblige("kernel:exactly-at-the-end-values:not-masked", z3.Implies(z3.Or(x == lo_end, x == hi_end), z3.Not(got.nan)))
        else:
            oblige("kernel:below-range:nearest-end-value", z3.Implies(x < lo_end, z3.And(z3.Not(got.nan), got.v == f_lo)))
            oblige("kernel:above-range:nearest-end-value", z3.Implies(x > hi_end, z3.And(z3.Not(got.nan), got.v == f_hi)))
    with util.patched((T, "np", KNP), (T, "range", generic_range), (T, "len", symlen)):
        rep = symx.explore(body, s["sid"])
    obs = []
    for name, ob in rep.merged().items():
        rec = {"fn": "transform._interp_1d_linear", "clause": name, "status": ob.status, "time": ob.time, "detail": ob.detail}
        if ob.status == "failed":
            rec["witness"] = {"part": "kernel", "mask": s["mask"], "byp": s["byp"], "dir": s["dir"], "model": model_values(ob.model)}
        if canary:
            if name.startswith("kernel:inside-range"):
                rec["canary"] = True
                obs.append(rec)
            continue
        obs.append(rec)
    return {"sid": s["sid"], "obligations": obs, "paths": rep.paths, "queries": rep.queries,
            "solver_time": rep.solver_time, "engine_errors": rep.engine_errors, "covers": covers}


def run_wrapper(s):
    mods = util.xgcm_modules()
    T = mods["transform"]
    covers = {}

    def body():
        c = symx.ctx()
        n, m, k1 = mk_int(z3.Int("n")), mk_int(z3.Int("m")), mk_int(z3.Int("k1"))
        c.assume(zint(n) >= 2, zint(m) >= 1, zint(k1) >= 1)
        PH = z3.Function("PH", z3.IntSort(), z3.IntSort(), symx.Val)
        TH = z3.Function("TH", z3.IntSort(), z3.IntSort(), symx.Val)
        LV = z3.Function("LV", z3.IntSort(), symx.Val)
        phi = NArr((k1, n), lambda p: PH(*p))
        theta = NArr((k1, n), lambda p: TH(*p))
        lev = NArr((m,), lambda p: LV(p[0]))
        LOG = z3.Function("LOG", symx.Val, symx.Val)
        for logarithmic in (False, True):
            for mask in (True, False):
                for byp in (False, True):
                    calls = []
                    KO = z3.Function("KO", z3.IntSort(), z3.IntSort(), symx.Val)

                    def stub(*a, **kw):
                        calls.append((a, kw))
                        return NArr((k1, m), lambda p: KO(*p))
                    tag = f"logarithmic={logarithmic};mask_edges={mask};bypass_checks={byp}"
                    with util.patched((T, "_interp_1d_linear", stub)):
                        try:
                            res = T.interp_1d_linear(phi, theta, lev, mask_edges=mask, bypass_checks=byp, logarithmic=logarithmic)
                        except (symx.EngineUnsupported, symx.InfeasiblePath, symx.PathAbort):
                            raise
                        except Exception as e:  # noqa
                            oblige(f"wrapper:returns-normally:{tag}", False, detail=f"{type(e).__name__}: {e}")
                            continue
                    covers["returned"] = covers.get("returned", 0) + 1
                    oblige(f"wrapper:kernel-called-once:{tag}", len(calls) == 1 and not calls[0][1] and len(calls[0][0]) == 5, detail=str(len(calls)))
                    if len(calls) != 1 or len(calls[0][0]) != 5:
                        continue
                    a_phi, a_th, a_lv, a_mask, a_byp = calls[0][0]
                    f = (lambda v: LOG(v)) if logarithmic else (lambda v: v)
                    i0, i1, j = z3.Int("i0"), z3.Int("i1"), z3.Int("j")
                    rng = z3.And(i0 >= 0, i0 < zint(k1), i1 >= 0, i1 < zint(n))
                    oblige(f"wrapper:phi-passed-unchanged:{tag}", z3.Implies(rng, a_phi.elem((i0, i1)) == PH(i0, i1)))
                    oblige(f"wrapper:theta-{'in-the-logarithms' if logarithmic else 'unchanged'}:{tag}", z3.Implies(rng, a_th.elem((i0, i1)) == f(TH(i0, i1))))
                    oblige(f"wrapper:levels-{'in-the-logarithms' if logarithmic else 'unchanged'}:{tag}", z3.Implies(z3.And(j >= 0, j < zint(m)), a_lv.elem((j,)) == f(LV(j))))
                    oblige(f"wrapper:flags-forwarded:{tag}", a_mask is mask and a_byp is byp, detail=f"{a_mask} {a_byp}")
                    oblige(f"wrapper:result-is-the-kernel-output:{tag}", z3.Implies(z3.And(i0 >= 0, i0 < zint(k1), j >= 0, j < zint(m)), res.elem((i0, j)) == KO(i0, j)))
    with util.patched((T, "np", NPModel), (T, "len", symlen)):
        rep = symx.explore(body, s["sid"])
    obs = []
    for name, ob in rep.merged().items():
        rec = {"fn": "transform.interp_1d_linear", "clause": name, "status": ob.status, "time": ob.time, "detail": ob.detail}
        if ob.status == "failed":
            rec["witness"] = {"part": "wrapper", "clause": name}
        obs.append(rec)
    return {"sid": s["sid"], "obligations": obs, "paths": rep.paths, "queries": rep.queries,
            "solver_time": rep.solver_time, "engine_errors": rep.engine_errors, "covers": covers}


def run_xarray(s):
    mods = util.xgcm_modules()
    T = mods["transform"]
    covers = {}
    obs = []
    stats = dict(paths=0, queries=0, solver_time=0.0, engine_errors=[])
    cases = []
    for method in ("linear", "log"):
        for target_kind in ("array", "dataarray", "nd-dataarray"):
            for named in (True, False):
                for suffix in (None, "_on_rho"):
                    for flags in ((True, False), (False, True), (True, True), (False, False)):
                        if not named and target_kind != "array":
                            continue
                        cases.append((method, target_kind, named, suffix, flags))
    for td_src in ("given", "axis-coordinate"):
        pass

    def scenario(w, method, target_kind, named, suffix, flags, order):
        layout = {"Z": {"center": "z_c", "outer": "z_o"}, "X": {"center": "x_c", "left": "x_l"}}
        nz, nx = w.size("n_Z", 2), w.size("n_X", 2)
        dims = {"z_c": nz, "z_o": symx.mk_int(zint(nz) + 1), "x_c": nx, "x_l": nx, "t": w.size("n_t", 1)}
        ds = w.dataset(dims, coords={d: (d,) for d in dims})
        g = w.grid(ds, layout, periodic=False)
        ddims = [["t", "z_c", "x_c"], ["z_c", "x_c", "t"]][order]
        da = w.array("PHI", ddims, ds, with_coords=True)
        td = w.array("TDATA", ["t", "z_c", "x_c"], ds)
        if not named:
            td._name = None
        m = w.size("m", 1)
        if target_kind == "array":
            LV = z3.Function("LV", z3.IntSort(), symx.Val)
            lev = NArr((m,), lambda p: LV(p[0]))
            levget = lambda idx: LV(idx["lev"])  # noqa
        elif target_kind == "dataarray":
            LV = z3.Function("LV", z3.IntSort(), symx.Val)
            lev = MArr(("sigma",), {"sigma": m}, lambda idx: LV(idx["sigma"]), name="sigma")
            levget = lambda idx: LV(idx["lev"])  # noqa
        else:
            LV = z3.Function("LV", z3.IntSort(), z3.IntSort(), symx.Val)
            lev = MArr(("t", "sigma"), {"t": dims["t"], "sigma": m}, lambda idx: LV(idx["t"], idx["sigma"]), name="sigma_t")
            levget = lambda idx: LV(idx["t"], idx["lev"])  # noqa
        calls = []
        KO = z3.Function("KOUT", z3.IntSort(), z3.IntSort(), z3.IntSort(), symx.Val)

        def stub(phi, theta, levels, **kw):
            calls.append((phi, theta, levels, kw))
            lead = list(phi.shape[:-1])
            return NArr(tuple(lead) + (levels.shape[-1],), lambda p: KO(*p))
        kw = {"method": method, "target_data": td, "mask_edges": flags[0], "bypass_checks": flags[1]}
        if suffix is not None:
            kw["suffix"] = suffix
        if target_kind == "nd-dataarray":
            kw["target_dim"] = "sigma"
        with util.patched((T, "interp_1d_linear", stub)):
            out = g.transform(da, "Z", lev, **kw)
        return dict(out=out, da=da, td=td, calls=calls, m=m, KO=KO, dims=dims, levget=levget)

    for (method, target_kind, named, suffix, flags) in cases:
        order = 0 if suffix is None else 1
        tag = f"method={method};target={target_kind};named={named};suffix={suffix};mask_edges={flags[0]};bypass_checks={flags[1]}"

        def body():
            w = SymWorld()
            with warnings.catch_warnings():
                warnings.simplefilter("ignore")
                try:
                    r = scenario(w, method, target_kind, named, suffix, flags, order)
                except (symx.EngineUnsupported, symx.InfeasiblePath, symx.PathAbort):
                    raise
                except Exception as e:  # noqa
                    import traceback
                    oblige(f"returns-normally:{tag}", False, detail=f"{type(e).__name__}: {e} @ {traceback.format_exc(limit=-2)[-300:]}")
                    return
            oblige(f"returns-normally:{tag}", True)
            covers["returned"] = covers.get("returned", 0) + 1
            out, da, td, calls, m = r["out"], r["da"], r["td"], r["calls"], r["m"]
            newdim = {"array": (td.name if named else "TRANSFORMED_DIMENSION"), "dataarray": "sigma", "nd-dataarray": "sigma"}[target_kind]
            oblige(f"new-dimension-named-after-target-or-target_data:{tag}", newdim in out.dims and set(out.dims) == {"t", "x_c", newdim}, detail=f"{out.dims}")
            oblige(f"result-named-input-plus-suffix:{tag}", out.name == da.name + ("_transformed" if suffix is None else suffix), detail=f"got {out.name!r}")
            if newdim not in out.dims:
                return
            oblige(f"one-value-per-target-level:{tag}", zint(out.sizes[newdim]) == zint(m))
            oblige(f"kernel-wrapper-called-once:{tag}", len(calls) == 1)
            if len(calls) != 1:
                return
            phi, theta, levels, kw = calls[0]
            oblige(f"options-forwarded:{tag}", kw.get("mask_edges") is flags[0] and kw.get("bypass_checks") is flags[1] and kw.get("logarithmic") is (method == "log"), detail=str(kw))
            lab, tl, ll = list(phi.labels), list(theta.labels), list(levels.labels)
            oblige(f"axis-dimension-is-the-last-of-phi-and-theta:{tag}", set(lab[:-1]) == {"t", "x_c"} and set(d for d in tl[:-1]) <= {"t", "x_c"} and tl[-1] == "z_c", detail=f"{lab} {tl} {ll}")
            if set(lab[:-1]) != {"t", "x_c"}:
                return
            pos = {"t": z3.Int("p_t"), "x_c": z3.Int("p_x")}
            pz, pl = z3.Int("p_z"), z3.Int("p_l")
            rng = z3.And(pos["t"] >= 0, pos["t"] < zint(r["dims"]["t"]), pos["x_c"] >= 0, pos["x_c"] < zint(r["dims"]["x_c"]), pz >= 0, pz < zint(r["dims"]["z_c"]))
            oblige(f"phi-columns-are-the-data-columns:{tag}", z3.Implies(rng, phi.elem((pos[lab[0]], pos[lab[1]], pz)) == da.elem({"t": pos["t"], "x_c": pos["x_c"], "z_c": pz})))
            if len(tl) == 3 and set(tl[:-1]) == {"t", "x_c"}:
                oblige(f"theta-columns-are-the-target_data-columns:{tag}", z3.Implies(rng, theta.elem((pos[tl[0]], pos[tl[1]], pz)) == td.elem({"t": pos["t"], "x_c": pos["x_c"], "z_c": pz})))
            else:
                oblige(f"theta-columns-are-the-target_data-columns:{tag}", False, detail=str(tl))
            rl = z3.And(pl >= 0, pl < zint(m), pos["t"] >= 0, pos["t"] < zint(r["dims"]["t"]))
            lidx = tuple(pos[d] if d in pos else (z3.IntVal(0) if d != ll[-1] else pl) for d in ll[:-1]) + (pl,)
            oblige(f"levels-are-the-target-values(per-column-for-an-N-D-target):{tag}", z3.Implies(rl, levels.elem(lidx) == r["levget"]({"t": pos["t"], "lev": pl})))
            q = {d: z3.Int(f"q_{d}") for d in out.dims}
            rq = z3.And(*[z3.And(q[d] >= 0, q[d] < zint(out.sizes[d])) for d in out.dims])
            oblige(f"values-are-the-kernel-output-per-column:{tag}", z3.Implies(rq, out.elem(q) == r["KO"](q[lab[0]], q[lab[1]], q[newdim])))
            oblige(f"frame:arguments-unchanged:{tag}", not da.log and not td.log)
        with util.patched(*util.std_patches(mods)):
            rep = symx.explore(body, s["sid"] + tag)
        stats["paths"] += rep.paths
        stats["queries"] += rep.queries
        stats["solver_time"] += rep.solver_time
        stats["engine_errors"] += rep.engine_errors
        for name, ob in rep.merged().items():
            rec = {"fn": "transform.transform[linear/log]", "clause": name, "status": ob.status, "time": ob.time, "detail": ob.detail}
            if ob.status == "failed":
                rec["witness"] = {"part": "xarray", "tag": tag, "clause": name, "detail": ob.detail}
            obs.append(rec)
    return {"sid": s["sid"], "obligations": obs, "covers": covers, **stats}


def run_structure(s):
    return {"kernel": run_kernel, "wrapper": run_wrapper, "xarray": run_xarray, "native-columns": run_native_columns, "native-reference": (lambda s_: __import__("harness.native_transform", fromlist=["run_reference"]).run_reference(s_, "transform.transform[linear/log; bounded, real xarray]")),
            "native-dask": (lambda s_: __import__("harness.native_transform", fromlist=["run"]).run(s_, 'transform.transform[linear/log; bounded, real dask]'))}[s["part"]](s)


REQUIRED_COVERS = ["post", "returned"]


def replay(ob):
    import numpy as np

    warnings.simplefilter("ignore")
    wit = ob.get("witness") or {}
    import xgcm.transform as T
    part = wit.get("part")
    if part == "native-dask":
        return {"confirmed": True, "text": "real xarray + real dask:\n" + wit.get("text", "")}
    if part == "native-columns":
        return {"confirmed": True, "text": "real kernel on a concrete block:\n" + wit.get("text", "")}
    if part == "kernel":
        rng = np.random.default_rng(5)
        bad = []
        for trial in range(200):
            n = rng.integers(2, 6)
            th = np.sort(rng.random(n) * 10)
            if len(np.unique(th)) < n:
                continue
            if wit["dir"] == "dec":
                th = th[::-1].copy()
            ph = rng.random(n) * 5 - 2
            lv = np.concatenate([rng.random(4) * 14 - 2, th[[0, -1]], th[:1] + 1e-9])
            rng.shuffle(lv)
            got = T.interp_1d_linear(ph[None, :], th[None, :], lv, mask_edges=wit["mask"], bypass_checks=wit["byp"])[0]
            o = np.argsort(th)
            want = np.interp(lv, th[o], ph[o])
            if wit["mask"]:
                want = np.where((lv < th.min()) | (lv > th.max()), np.nan, want)
            if not np.allclose(got, want, equal_nan=True):
                bad.append(f"theta={th.tolist()} phi={ph.tolist()} levels={lv.tolist()} -> {got.tolist()} expected {want.tolist()}")
                break
        if not bad and not wit["byp"]:
            # the statement quantifies over blocks whose columns differ in direction: several columns in one call
            for trial in range(100):
                n, k = int(rng.integers(2, 6)), int(rng.integers(2, 5))
                th = np.sort(rng.random((k, n)) * 10, axis=1)
                if any(len(np.unique(r)) < n for r in th):
                    continue
                flip = rng.random(k) < 0.5
                flip[0], flip[-1] = (wit["dir"] == "dec"), (wit["dir"] != "dec")
                th = np.where(flip[:, None], th[:, ::-1], th)
                ph = rng.random((k, n)) * 5 - 2
                lv = rng.random(5) * 14 - 2
                got = T.interp_1d_linear(ph, th, lv, mask_edges=wit["mask"], bypass_checks=False)
                for c in range(k):
                    o = np.argsort(th[c])
                    want = np.interp(lv, th[c][o], ph[c][o])
                    if wit["mask"]:
                        want = np.where((lv < th[c].min()) | (lv > th[c].max()), np.nan, want)
                    if not np.allclose(got[c], want, equal_nan=True):
                        bad.append(f"block of {k} columns with directions {['dec' if f else 'inc' for f in flip]}: column {c} theta={th[c].tolist()} phi={ph[c].tolist()} "
                                   f"levels={lv.tolist()} -> {got[c].tolist()} expected {want.tolist()}")
                        break
                if bad:
                    break
        return {"confirmed": bool(bad), "text": "\n".join([f"kernel mask_edges={wit['mask']} bypass_checks={wit['byp']} theta {wit['dir']}"] + (bad or ["200 random columns and 100 mixed-direction blocks agree with the piecewise-linear interpolant"]))}
    if part == "wrapper":
        ph = np.array([[1.0, 2.0, 4.0]])
        th = np.array([[1.0, 10.0, 100.0]])
        lv = np.array([3.0, 30.0])
        got = T.interp_1d_linear(ph, th, lv, logarithmic=True)
        want = np.interp(np.log(lv), np.log(th[0]), ph[0])
        ok = np.allclose(got[0], want)
        return {"confirmed": not ok, "text": f"log interpolation {got.tolist()} expected {want.tolist()}"}
    if part == "xarray":
        import xarray as xr
        import xgcm
        tag = wit.get("tag", "")
        opts = dict(x.split("=") for x in tag.split(";"))
        nz, nx = 4, 3
        ds = xr.Dataset(coords={"z_c": np.arange(nz), "z_o": np.arange(nz + 1), "x_c": np.arange(nx), "x_l": np.arange(nx), "t": np.arange(2)})
        g = xgcm.Grid(ds, coords={"Z": {"center": "z_c", "outer": "z_o"}, "X": {"center": "x_c", "left": "x_l"}}, periodic=False, autoparse_metadata=False)
        rng = np.random.default_rng(0)
        da = xr.DataArray(rng.random((2, nz, nx)), dims=("t", "z_c", "x_c"), name="PHI")
        td = xr.DataArray(np.sort(rng.random((2, nz, nx)) + 0.1, axis=1), dims=("t", "z_c", "x_c"), name="TDATA" if opts["named"] == "True" else None)
        lev = np.array([0.3, 0.6, 0.2, -1.0, 5.0])
        kw = {} if opts["suffix"] == "None" else {"suffix": opts["suffix"]}
        if "bypass_checks" in opts:
            kw["bypass_checks"] = opts["bypass_checks"] == "True"
        if opts["target"] == "dataarray":
            tgt = xr.DataArray(lev, dims=["sigma"], coords={"sigma": lev}, name="sigma")
        elif opts["target"] == "nd-dataarray":
            tgt = xr.DataArray(np.stack([lev, lev + 0.1]), dims=["t", "sigma"], name="sigma_t")
            kw["target_dim"] = "sigma"
        else:
            tgt = lev
        bad = []
        try:
            out = g.transform(da, "Z", tgt, target_data=td, method=opts["method"], mask_edges=opts["mask_edges"] == "True", **kw)
            want_name = "PHI" + ("_transformed" if opts["suffix"] == "None" else opts["suffix"])
            if out.name != want_name:
                bad.append(f"result name {out.name!r}, the statement prescribes {want_name!r}")
            newdim = "sigma" if opts["target"] != "array" else ("TDATA" if opts["named"] == "True" else "TRANSFORMED_DIMENSION")
            if newdim not in out.dims:
                bad.append(f"new dimension {newdim!r} missing: {out.dims}")
            else:
                f = np.log if opts["method"] == "log" else (lambda v: v)
                for t in range(2):
                    for x in range(nx):
                        lv = lev + (0.1 * t if opts["target"] == "nd-dataarray" else 0)
                        want = np.interp(f(lv), f(td.values[t, :, x]), da.values[t, :, x])
                        if opts["mask_edges"] == "True":
                            want = np.where((lv < td.values[t, :, x].min()) | (lv > td.values[t, :, x].max()), np.nan, want)
                        got = out.isel(t=t, x_c=x).values
                        if not np.allclose(got, want, equal_nan=True):
                            bad.append(f"column t={t}, x={x}: {got.tolist()} expected {want.tolist()}")
                            break
        except Exception as e:  # noqa
            bad.append(f"raised {type(e).__name__}: {e}")
        return {"confirmed": bool(bad), "text": "\n".join([f"case {tag}"] + bad[:4])}
    return {"confirmed": False, "text": ""}
