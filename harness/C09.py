"""C09 - cumsum is the running sum at the shifted position and inverts diff.

Functions under contract: Grid.cumsum, Grid.cumint, Grid.integrate (with padding.pad,
grid_ufunc._reattach_coords, Grid.get_metric inlined).

Assumed library contract: DataArray.cumsum(dim) is the prefix sum P (uninterpreted, canonical per
array term) with P(-1)=0, P(k)=P(k-1)+a[k]; DataArray.sum(dim) = P(len-1).
"""
from __future__ import annotations

import itertools
import json

import z3

from vp.world import raised_in_harness as _rih
from vp import symx, util
from vp.symx import oblige, zint
from vp.mxr import PrefixSum, MArr
from vp.world import SymWorld, model_values
from vp.gridlib import make_layout
from contracts import spec
from harness import C01

PROPERTY = "C09"
META = {
    "level": "proof",
    "functions_under_contract": ["xgcm.grid.Grid.cumsum", "xgcm.grid.Grid.cumint", "xgcm.grid.Grid.integrate",
                                 "xgcm.grid.Grid.diff (composition lemma diff o cumsum)", "xgcm.padding.pad",
                                 "xgcm.grid_ufunc._reattach_coords", "xgcm.grid.Grid.get_metric (simple registry)"],
    "trusted_base": [
        "assumed contract of DataArray.cumsum / sum: prefix sums along one dimension, pointwise in the others; congruence of cumsum restricted to syntactically equal element terms",
        "xarray model vp/mxr.py: isel, pad, rename, drop_vars, assign_coords, arithmetic broadcasting",
        "CPython executes the functions as written; proxies intercept all symbolic control flow", "z3 5.1 is sound",
        "floating-point sums treated as real sums",
        "order independence over several axes for arbitrary sizes rests on exchanging two finite sums (Fubini); it is checked here only as a bounded stand-in (n <= 3 per axis, all data)",
    ],
    "assumptions": ["cell count n >= 2 (n >= 3 when an inner position is involved)"],
    "bounded_standins": ["order independence of multi-axis cumsum (zero fill / extend / periodic) and dependence under non-zero fill: cell counts n_X, n_Y in {2,3}, every cell, all data values (explicit finite sums)"],
}

SHIFTS = C01.SHIFTS
RULES = ["fill", "extend", "periodic"]
M_PLUS1 = {("center", "right"), ("left", "center"), ("center", "inner"), ("outer", "center")}  # m(j) = j+1


def sid(d):
    keys = ("part", "axes", "arr", "axis", "to", "order", "extra", "gperiodic", "gboundary", "gfill", "cboundary", "cfill", "canary", "sizes")
    return ";".join(f"{k}={json.dumps(d[k], sort_keys=True)}" for k in keys if d.get(k) is not None).replace('"', "").replace(" ", "")


def base(**k):
    d = dict(part="single", op="cumsum", axes={"X": ("center", "left")}, arr={"X": "center"}, axis="X", to=None, order=None,
             extra=0, gperiodic=True, gboundary=None, gfill=None, cboundary=None, cfill=None, dshifts=None, coords=True, canary=None)
    d.update(k)
    d["sid"] = sid(d)
    return d


def structures(tier, seed):
    out = []
    for (pf, pt) in SHIFTS:
        poss = tuple(dict.fromkeys(("center", pf, pt)))
        for r in RULES:
            out.append(base(axes={"X": poss}, arr={"X": pf}, to=pt, cboundary=r, cfill="S" if r == "fill" else None, extra=1))
        out.append(base(axes={"X": poss}, arr={"X": pf}, to=None, gperiodic=False, gfill="S"))
        out.append(base(axes={"X": poss}, arr={"X": pf}, to=pt, gboundary="extend", order=(1, 0), extra=1))
    # per-call fill value against a different grid-level fill value (both symbolic), scalar and mapping spellings
    for (pf, pt) in (("center", "left"), ("right", "center"), ("center", "outer"), ("inner", "center")):
        poss = tuple(dict.fromkeys(("center", pf, pt)))
        out.append(base(axes={"X": poss}, arr={"X": pf}, to=pt, cboundary="fill", cfill="S", gfill="S", gperiodic=False))
        out.append(base(axes={"X": poss}, arr={"X": pf}, to=pt, gboundary="fill", cfill={"X": "S"}, gfill="S"))
    out.append(base(axes={"X": ("center", "left"), "Y": ("center", "outer")}, arr={"X": "center", "Y": "center"}, axis=["X", "Y"], to={"X": "left", "Y": "outer"},
                    gboundary="fill", cfill={"Y": "S"}, gfill={"X": "S", "Y": "S"}, gperiodic=False, part="sequential"))
    # invalid shifts are refused
    allp = ("center", "left", "right", "inner", "outer")
    for pf in allp:
        for pt in allp:
            if (pf, pt) not in SHIFTS:
                out.append(base(part="invalid", axes={"X": allp}, arr={"X": pf}, to=pt, gperiodic=False))
    # several axes = one after another
    two = {"X": ("center", "left", "outer"), "Y": ("center", "right", "inner")}
    for axis in (["X", "Y"], ["Y", "X"]):
        out.append(base(part="sequential", axes=two, arr={"X": "center", "Y": "center"}, axis=axis, to={"X": "outer", "Y": "right"},
                        cboundary={"X": "fill", "Y": "extend"}, cfill={"X": "S"}, gperiodic=False, extra=1))
        out.append(base(part="sequential", axes=two, arr={"X": "left", "Y": "inner"}, axis=axis, to="center", gperiodic=False, gfill="S"))
    # per-call mappings that name only SOME axes of the grid: the axes left out keep the grid's own rule / fill value
    for axis in (["X", "Y"], ["Y", "X"]):
        out.append(base(part="sequential", axes=two, arr={"X": "center", "Y": "center"}, axis=axis, to={"X": "outer", "Y": "right"},
                        cboundary={"X": "fill"}, cfill={"X": "S"}, gboundary={"X": "extend", "Y": "extend"}, gperiodic=False))
        out.append(base(part="sequential", axes={"X": ("center", "left"), "Y": ("center", "left")}, arr={"X": "center", "Y": "center"}, axis=axis,
                        to="left", cboundary={"X": "extend"}, gfill={"X": "S", "Y": "S"}, gperiodic=False))
    for sp in ("X", "Y"):
        out.append(base(axes={"X": ("center", "left"), "Y": ("center", "left")}, arr={"X": "center", "Y": "center"}, axis=sp, to="left",
                        cboundary={"X" if sp == "Y" else "Y": "periodic"}, gperiodic=False, gfill="S"))
    # diff o cumsum = id
    for extra in (0, 1):
        out.append(base(part="inverse", axes={"X": ("center", "outer")}, arr={"X": "center"}, to="outer", extra=extra))
    out.append(base(part="inverse", axes={"X": ("center", "outer", "left")}, arr={"X": "center"}, to="outer", extra=1, order=(1, 0)))
    # cumint / integrate
    for pt in ("outer", "right", "left"):
        out.append(base(part="cumint", axes={"X": tuple(dict.fromkeys(("center", pt)))}, arr={"X": "center"}, to=pt, cboundary="fill", extra=1, gperiodic=False))
    # bounded stand-in: order independence
    for nx, ny in itertools.product((2, 3), repeat=2):
        for rule, fill in (("fill", 0), ("extend", None), ("periodic", None), ("fill", "nonzero")):
            out.append(base(part="order", axes={"X": ("center", "left"), "Y": ("center", "outer")}, arr={"X": "center", "Y": "center"},
                            axis=["X", "Y"], to={"X": "left", "Y": "outer"}, cboundary=rule, cfill=fill, sizes=[nx, ny], gperiodic=False))
    # canary
    out.append(base(axes={"X": ("center", "left")}, arr={"X": "center"}, to="left", cboundary="fill", cfill="S", canary="m-off-by-one"))
    if tier == "thorough":
        out.append({"sid": "lean;finite-sum-facts", "part": "lean"})
    return out


def single_spec(s, r, canary=None):
    """out[j] = lead + sum{a[i] : x_from(i) < x_to(j)} for one axis"""
    da, layout = r["da"], r["layout"]
    a = s["axis"] if isinstance(s["axis"], str) else s["axis"][0]
    pf = s["arr"][a]
    to = s["to"].get(a) if isinstance(s["to"], dict) else s["to"]
    if to is None:
        to = C01.default_shift(s["axes"][a], pf, None)
    dfrom, dto = layout[a][pf], layout[a][to]
    n = zint(r["ns"][a])
    axes = list(s["axes"])
    rule = spec.rule_in_force(s["cboundary"], s["gboundary"], s["gperiodic"], a, axes)

    def fv(v):
        if v is None:
            return None
        if isinstance(v, dict):
            return symx.RVx(v[a]) if a in v else None
        return symx.RVx(v)
    fill = fv(r["cfill"])
    if fill is None:
        fill = fv(r["gfill"])
    if fill is None:
        fill = z3.RealVal(0)
    src = r.get("weighted", da)
    ps = PrefixSum(src, dfrom)
    Lto = spec.len_pos(to, n)
    plus1 = (pf, to) in M_PLUS1
    if canary == "m-off-by-one":
        plus1 = not plus1

    def m(j):
        return j + 1 if plus1 else j
    dims = [dto if d == dfrom else d for d in da.dims]
    sizes = {d: zint(da.sizes[d]) for d in da.dims if d != dfrom}
    sizes[dto] = Lto
    q = {d: z3.Int(f"q_{d}") for d in dims}
    base_idx = {d: q[d] for d in dims if d != dto}
    j = q[dto]

    def P(k):
        return ps.at(base_idx, k)
    if rule == "fill":
        lead = fill
    elif rule == "extend":
        lead = P(m(z3.IntVal(1)) - 1)
    else:
        lead = P(m(Lto - 1) - 1)
    val = z3.If(m(j) >= 1, P(m(j) - 1), lead)
    rng = z3.And(*[z3.And(q[d] >= 0, q[d] < sizes[d]) for d in dims])
    return dict(dims=dims, sizes=sizes, q=q, cells=[("values", rng, val)], ps=ps, dfrom=dfrom, dto=dto)


def _scen(s, w):
    return C01.scenario(s, w)


def run_structure(s):
    if s["part"] == "lean":
        from harness import C07
        return C07.run_lean(s)
    mods = util.xgcm_modules()
    covers = {}
    canary = s.get("canary")
    part = s["part"]

    def guarded(fn):
        try:
            return fn(), None
        except (symx.EngineUnsupported, symx.InfeasiblePath, symx.PathAbort):
            raise
        except Exception as e:  # noqa
            return None, e

    def body_single():
        w = SymWorld()
        r, e = guarded(lambda: _scen(s, w))
        if e is not None:
            oblige("returns-normally", False, detail=f"{type(e).__name__}: {e}")
            return
        oblige("returns-normally", True)
        covers["normal-return"] = covers.get("normal-return", 0) + 1
        out, da = r["out"], r["da"]
        sp = single_spec(s, r, canary)
        oblige("dims:input-order-with-axis-dim-replaced", tuple(out.dims) == tuple(sp["dims"]), detail=f"{out.dims} vs {sp['dims']}")
        if set(out.dims) != set(sp["dims"]):
            return
        for d in sp["dims"]:
            oblige(f"size:{d}", zint(out.sizes[d]) == sp["sizes"][d])
        got = out.elem(sp["q"])
        for name, region, val in sp["cells"]:
            oblige(name, z3.Implies(region, got == val))
        oblige("name-kept", out.name == da.name, detail=f"{out.name} vs {da.name}")
        oblige("frame:input-array-unchanged", not da.log)

    def body_invalid():
        w = SymWorld()
        r, e = guarded(lambda: _scen(s, w))
        covers["invalid-raised" if e is not None else "invalid-returned"] = 1
        oblige("invalid-shift-is-refused", e is not None, detail="returned an array" if e is None else type(e).__name__)

    def body_sequential():
        w = SymWorld()
        r, e = guarded(lambda: _scen(s, w))
        if e is not None:
            oblige("returns-normally", False, detail=f"{type(e).__name__}: {e}")
            return
        oblige("returns-normally", True)
        g, da = r["g"], r["da"]
        kw = {}
        for k in ("to", "cboundary"):
            pass
        ckw = {}
        if s["to"] is not None:
            ckw["to"] = dict(s["to"]) if isinstance(s["to"], dict) else s["to"]
        if s["cboundary"] is not None:
            ckw["boundary"] = dict(s["cboundary"]) if isinstance(s["cboundary"], dict) else s["cboundary"]
        if r["cfill"] is not None:
            ckw["fill_value"] = r["cfill"]
        cur = da
        step, e = guarded(lambda: g.cumsum(g.cumsum(da, s["axis"][0], **ckw), s["axis"][1], **ckw))
        if e is not None:
            oblige("one-after-another:returns-normally", False, detail=f"{type(e).__name__}: {e}")
            return
        out = r["out"]
        oblige("one-after-another:same-dims", tuple(out.dims) == tuple(step.dims), detail=f"{out.dims} vs {step.dims}")
        if set(out.dims) != set(step.dims):
            return
        q = {d: z3.Int(f"q_{d}") for d in out.dims}
        rng = z3.And(*[z3.And(q[d] >= 0, q[d] < zint(out.sizes[d])) for d in out.dims])
        for d in out.dims:
            oblige(f"one-after-another:size:{d}", zint(out.sizes[d]) == zint(step.sizes[d]))
        oblige("one-after-another:values", z3.Implies(rng, out.elem(q) == step.elem(q)))
        covers["normal-return"] = covers.get("normal-return", 0) + 1

    def body_inverse():
        w = SymWorld()
        s2 = dict(s, cboundary="fill")
        r, e = guarded(lambda: _scen(dict(s2, cfill=None), w))  # cumsum to outer, fill value defaulting...
        # explicit zero fill: call again with fill_value=0.0
        if e is not None:
            oblige("returns-normally", False, detail=f"{type(e).__name__}: {e}")
            return
        g, da = r["g"], r["da"]
        cum, e = guarded(lambda: g.cumsum(da, "X", to="outer", boundary="fill", fill_value=0.0))
        if e is not None:
            oblige("cumsum:returns-normally", False, detail=f"{type(e).__name__}: {e}")
            return
        back, e = guarded(lambda: g.diff(cum, "X", to="center"))
        if e is not None:
            oblige("diff:returns-normally", False, detail=f"{type(e).__name__}: {e}")
            return
        oblige("returns-normally", True)
        covers["normal-return"] = covers.get("normal-return", 0) + 1
        oblige("inverse:dims", tuple(back.dims) == tuple(da.dims), detail=f"{back.dims} vs {da.dims}")
        if set(back.dims) != set(da.dims):
            return
        q = {d: z3.Int(f"q_{d}") for d in da.dims}
        rng = z3.And(*[z3.And(q[d] >= 0, q[d] < zint(da.sizes[d])) for d in da.dims])
        dfrom = r["layout"]["X"]["center"]
        ps = PrefixSum(da, dfrom)
        base_idx = {d: q[d] for d in da.dims if d != dfrom}
        for ax in ps.axioms_at(base_idx, q[dfrom]):
            symx.assume(ax)
        for d in da.dims:
            oblige(f"inverse:size:{d}", zint(back.sizes[d]) == zint(da.sizes[d]))
        oblige("inverse:diff(cumsum(a))==a", z3.Implies(rng, back.elem(q) == da.elem(q)))

    def body_cumint():
        w = SymWorld()
        # dataset with a metric at center and at the target position
        layout = make_layout(s["axes"])
        n = w.size("n_X", 2)
        dims = {d: symx.mk_int(spec.len_pos(p, zint(n))) for p, d in layout["X"].items()}
        dims["e0"] = w.size("n_e0", 1)
        to = s["to"]
        ds = w.dataset(dims, coords={d: (d,) for d in dims},
                       data_vars={"dx_c": (layout["X"]["center"],), "dx_t": (layout["X"][to],)})
        g, e = guarded(lambda: w.grid(ds, layout, periodic=False, metrics={("X",): ["dx_c", "dx_t"]}))
        if e is not None:
            oblige("returns-normally", False, detail=f"ctor {type(e).__name__}: {e}")
            return
        da = w.array("D", ["e0", layout["X"]["center"]], ds, with_coords=True)
        out, e = guarded(lambda: g.cumint(da, "X", to=to, boundary="fill", fill_value=0.0))
        if e is not None:
            oblige("returns-normally", False, detail=f"cumint {type(e).__name__}: {e}")
            return
        oblige("returns-normally", True)
        covers["normal-return"] = covers.get("normal-return", 0) + 1
        weighted = da * ds["dx_c"].reset_coords(drop=True)
        r = dict(da=da, layout=layout, ns={"X": n}, cfill=0.0, gfill=None, weighted=weighted)
        s2 = dict(s, cboundary="fill")
        sp = single_spec(s2, r)
        oblige("cumint:dims", tuple(out.dims) == tuple(sp["dims"]), detail=f"{out.dims} vs {sp['dims']}")
        if set(out.dims) != set(sp["dims"]):
            return
        for d in sp["dims"]:
            oblige(f"cumint:size:{d}", zint(out.sizes[d]) == sp["sizes"][d])
        got = out.elem(sp["q"])
        for name, region, val in sp["cells"]:
            oblige("cumint==cumsum(data*metric):" + name, z3.Implies(region, got == val))
        if to in ("outer", "right"):
            integ, e = guarded(lambda: g.integrate(da, "X"))
            if e is not None:
                oblige("integrate:returns-normally", False, detail=f"{type(e).__name__}: {e}")
                return
            oblige("integrate:dims", tuple(integ.dims) == ("e0",), detail=str(integ.dims))
            qe = z3.Int("q_e0")
            last = spec.len_pos(to, zint(n)) - 1
            oblige("cumint-last-value==integrate",
                   z3.Implies(z3.And(qe >= 0, qe < zint(dims["e0"])),
                              out.elem({"e0": qe, layout["X"][to]: last}) == integ.elem({"e0": qe})))

    def body_order():
        w = SymWorld()
        symx.ctx().ghost["expand-sums"] = True
        nx, ny = s["sizes"]
        layout = make_layout(s["axes"])
        dims = {}
        for a, n in (("X", nx), ("Y", ny)):
            for p, d in layout[a].items():
                dims[d] = spec.len_pos(p, n)
        ds = w.dataset(dims, coords={})
        g = w.grid(ds, layout, periodic=False)
        da = w.array("D", [layout["X"]["center"], layout["Y"]["center"]], ds)
        kw = dict(to=dict(s["to"]), boundary=s["cboundary"])
        c = None
        if s["cfill"] == 0:
            kw["fill_value"] = 0.0
        elif s["cfill"] == "nonzero":
            c = w.real("c")
            symx.assume(c.e != 0)
            kw["fill_value"] = c
        r1, e1 = guarded(lambda: g.cumsum(da, ["X", "Y"], **kw))
        r2, e2 = guarded(lambda: g.cumsum(da, ["Y", "X"], **kw))
        if e1 is not None or e2 is not None:
            oblige("order:returns-normally", False, detail=f"{e1} / {e2}")
            return
        covers["normal-return"] = covers.get("normal-return", 0) + 1
        if set(r1.dims) != set(r2.dims):
            oblige("order:same-dims", False)
            return
        eqs = []
        for pos in itertools.product(*[range(r1.sizes[d]) for d in r1.dims]):
            idx = {d: z3.IntVal(p) for d, p in zip(r1.dims, pos)}
            eqs.append(r1.elem(idx) == r2.elem(idx))
        if s["cfill"] == "nonzero":
            # the "unless": with a non-zero fill value the two orders must be able to differ (cover)
            ob = oblige("order:differs-under-nonzero-fill(cover)", z3.Not(z3.And(*eqs)))
        else:
            oblige("order:independent", z3.And(*eqs))

    bodies = {"single": body_single, "invalid": body_invalid, "sequential": body_sequential, "inverse": body_inverse,
              "cumint": body_cumint, "order": body_order}
    with util.patched(*util.std_patches(mods)):
        rep = symx.explore(bodies[part], s["sid"])
    obs = []
    fnname = {"single": "grid.Grid.cumsum", "invalid": "grid.Grid.cumsum", "sequential": "grid.Grid.cumsum",
              "inverse": "grid.Grid.diff∘cumsum", "cumint": "grid.Grid.cumint", "order": "grid.Grid.cumsum[bounded]"}[part]
    for name, ob in rep.merged().items():
        rec = {"fn": fnname, "clause": name, "status": ob.status, "time": ob.time, "detail": ob.detail}
        if ob.status == "failed":
            rec["witness"] = {"structure": dict(s), "model": model_values(ob.model)}
        if canary:
            if name == "values":
                rec["canary"] = True
            else:
                continue
        obs.append(rec)
    counts = {}
    if part == "order":
        counts["bounded_standin_evaluations"] = 1
    return {"sid": s["sid"], "obligations": obs, "paths": rep.paths, "queries": rep.queries, "counts": counts,
            "solver_time": rep.solver_time, "engine_errors": rep.engine_errors, "covers": covers}


REQUIRED_COVERS = ["normal-return", "invalid-raised"]


def replay(ob):
    import warnings

    warnings.simplefilter("ignore")
    wit = ob.get("witness") or {}
    s = dict(wit["structure"])
    s["axes"] = {a: tuple(v) for a, v in s["axes"].items()}
    s["order"] = tuple(s["order"]) if s.get("order") else None
    part = s["part"]
    if part == "single":
        return C01.replay_scenario(s, wit.get("model", {}), C01.scenario, lambda s_, r_: single_spec(s_, r_, None), "cumsum")
    return native_generic(s, wit, ob)


def native_generic(s, wit, ob):
    """native replays for the relational parts: run the real code on concrete data"""
    import numpy as np
    import xarray as xr
    import xgcm
    from vp.world import NativeWorld

    part = s["part"]
    text = [f"structure {s['sid']}"]
    m = dict(wit.get("model", {}))
    # the prefix-sum function is uninterpreted in the solver's model, so the model's data need not be a
    # native counterexample: use the injective index encoding for the data of the relational parts
    m.pop("__funcs__", None)
    for k in list(m):
        if k.startswith("n_") and isinstance(m[k], int) and m[k] > 6:
            m[k] = 6
    nw = NativeWorld(m)
    try:
        if part == "invalid":
            try:
                r = C01.scenario(s, nw)
            except Exception as e:  # noqa
                return {"confirmed": False, "text": f"real code raised {type(e).__name__}: agrees"}
            return {"confirmed": True, "text": "\n".join(text + [f"REAL CODE returned an array of dims {r['out'].dims} for the invalid shift {s['arr']}->{s['to']}"])}
        if part == "sequential":
            r = C01.scenario(s, nw)
            g, da = r["g"], r["da"]
            ckw = {}
            if s["to"] is not None:
                ckw["to"] = s["to"]
            if s["cboundary"] is not None:
                ckw["boundary"] = s["cboundary"]
            if r["cfill"] is not None:
                ckw["fill_value"] = r["cfill"]
            step = g.cumsum(g.cumsum(da, s["axis"][0], **ckw), s["axis"][1], **ckw)
            out = r["out"]
            if out.dims != step.dims or not np.allclose(out.values, step.values):
                return {"confirmed": True, "text": "\n".join(text + [f"native parameters {nw.consts}", "cumsum over [a,b] differs from cumsum(b) after cumsum(a)", str(out.values), str(step.values)])}
            return {"confirmed": False, "text": "agrees natively"}
        if part == "inverse":
            r = C01.scenario(dict(s, cboundary="fill", cfill=None), nw)
            g, da = r["g"], r["da"]
            back = g.diff(g.cumsum(da, "X", to="outer", boundary="fill", fill_value=0.0), "X", to="center")
            if back.dims != da.dims or not np.allclose(back.values, da.values):
                return {"confirmed": True, "text": "\n".join(text + [f"native parameters {nw.consts}", "diff(cumsum(a, to=outer, fill 0)) != a", str(back.values), str(da.values)])}
            return {"confirmed": False, "text": "agrees natively"}
        if part in ("cumint", "order"):
            rng = np.random.default_rng(1)
            if part == "order":
                nx, ny = s["sizes"]
            else:
                nx, ny = 4, 3
            ds = xr.Dataset(coords={"x_c": np.arange(nx), "x_l": np.arange(nx), "x_o": np.arange(nx + 1), "x_r": np.arange(nx),
                                    "y_c": np.arange(ny), "y_o": np.arange(ny + 1), "e0": np.arange(2)})
            ds["dx_c"] = ("x_c", rng.random(nx) + 0.5)
            if part == "cumint":
                to = s["to"]
                ds["dx_t"] = (f"x_{to[0]}", rng.random(ds.sizes[f"x_{to[0]}"]) + 0.5)
                g = xgcm.Grid(ds, coords={"X": {"center": "x_c", to: f"x_{to[0]}"}}, periodic=False, autoparse_metadata=False,
                              metrics={("X",): ["dx_c", "dx_t"]})
                da = xr.DataArray(rng.random((2, nx)), dims=("e0", "x_c"))
                out = g.cumint(da, "X", to=to, boundary="fill", fill_value=0.0)
                ref = g.cumsum(da * ds["dx_c"], "X", to=to, boundary="fill", fill_value=0.0)
                bad = []
                if not np.allclose(out.values, ref.values):
                    bad.append("cumint != cumsum(data*metric)")
                if to in ("outer", "right") and not np.allclose(out.isel({f"x_{to[0]}": -1}).values, g.integrate(da, "X").values):
                    bad.append("last value of cumint != integrate")
                if bad:
                    return {"confirmed": True, "text": "\n".join(text + bad)}
                return {"confirmed": False, "text": "agrees natively"}
            g = xgcm.Grid(ds, coords={"X": {"center": "x_c", "left": "x_l"}, "Y": {"center": "y_c", "outer": "y_o"}}, periodic=False, autoparse_metadata=False)
            da = xr.DataArray(rng.random((nx, ny)), dims=("x_c", "y_c"))
            kw = dict(to={"X": "left", "Y": "outer"}, boundary=s["cboundary"])
            if s["cfill"] == 0:
                kw["fill_value"] = 0.0
            elif s["cfill"] == "nonzero":
                kw["fill_value"] = 1.5
            r1, r2 = g.cumsum(da, ["X", "Y"], **kw), g.cumsum(da, ["Y", "X"], **kw)
            same = np.allclose(r1.values, r2.transpose(*r1.dims).values)
            if s["cfill"] == "nonzero":
                return {"confirmed": same, "text": "\n".join(text + ["orders agree under a non-zero fill (cover not reachable)" if same else "orders differ (as stated)"])}
            return {"confirmed": not same, "text": "\n".join(text + (["order of axes changes the result"] if not same else ["agrees natively"]))}
    except Exception as e:  # noqa
        import traceback
        return {"confirmed": not _rih(e), "text": "\n".join(text + [f"REAL CODE RAISED {type(e).__name__}: {e}", traceback.format_exc(limit=-3)])}
    return {"confirmed": False, "text": "no native replay for this part"}
