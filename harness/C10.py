"""C10 - the metric applied is the one registered for the array's position and axes.

Functions under contract: Grid.get_metric, metrics.iterate_axis_combinations, Grid.interp_like,
Grid._get_dims_from_axis, Grid.integrate / average / derivative, the metric_weighted lines of
Grid._1d_grid_ufunc_dispatch.

get_metric contract (from the statement): the result is an *admissible choice* - a variable
registered for exactly the requested axes (at the array's position, else one of them interpolated
with nearest-value extension, with a warning); only if nothing is registered for exactly that set, a
product over a fully registered partition with the largest possible first block, each factor at the
array's position or interpolated to it; KeyError iff there is no admissible choice; the result
broadcasts against the array.  Metric values, sizes and data are symbolic (non-uniform metrics).
"""
from __future__ import annotations

import itertools
import json
import random
import warnings

import z3

from vp import symx, util
from vp.symx import oblige, zint
from vp.mxr import MArr, PrefixSum
from vp.world import SymWorld, model_values
from vp.gridlib import make_layout
from contracts import spec
from harness import C01

PROPERTY = "C10"
META = {
    "level": "proof",
    "functions_under_contract": ["xgcm.grid.Grid.get_metric", "xgcm.metrics.iterate_axis_combinations", "xgcm.grid.Grid.interp_like",
                                 "xgcm.grid.Grid._get_dims_from_axis", "xgcm.grid.Grid.integrate", "xgcm.grid.Grid.average",
                                 "xgcm.grid.Grid.derivative", "xgcm.grid.Grid._1d_grid_ufunc_dispatch (metric_weighted)", "xgcm.grid.Grid.set_metrics (registry construction)"],
    "trusted_base": [
        "xarray model vp/mxr.py (arithmetic broadcasting/alignment, sum over dims as one order-independent reduction, weighted().mean = sum(data*w)/sum(w))",
        "interpolation values follow the C01 contract of Grid.interp (re-executed here, not assumed)",
        "iteration order of frozensets of axis names is demonic (all orders explored)", "CPython executes the functions as written", "z3 5.1 is sound",
        "floating-point arithmetic treated as real arithmetic",
    ],
    "assumptions": ["registries enumerated over a pool (<= 2 entries per axes set, 1-3 axes); array positions and request orders enumerated; values symbolic",
                    "among several fully registered partitions with equally large first block any one is admissible (determinism is C12)"],
    "lemmas": ["average(constant)=constant for ANY number of cells uses two finite-sum facts as lemma schemata: linearity in a factor that does not depend on the "
               "summation index (normal form of vp/mxr.PrefixSum) and positivity of a non-empty sum of positive weights; both, and their combination "
               "weighted_mean_const, are proved in lean/SumFacts.lean (Lean 4 + Mathlib, run in the thorough tier)"],
    "bounded_standins": ["cross-check only: average of a constant field with explicit finite sums, n in {2,3} (the unbounded proof is `average-constant`)"],
}

LAY = {"X": ("center", "left", "outer"), "Y": ("center", "left"), "Z": ("center", "outer")}
POOL = {
    "dx_c": (("X",), ("x_c",)), "dx_l": (("X",), ("x_l",)), "dy_c": (("Y",), ("y_c",)), "dy_l": (("Y",), ("y_l",)),
    "dz_c": (("Z",), ("z_c",)), "a_cc": (("X", "Y"), ("x_c", "y_c")), "a_lc": (("X", "Y"), ("x_l", "y_c")),
    "yz_cc": (("Y", "Z"), ("y_c", "z_c")), "vol": (("X", "Y", "Z"), ("x_c", "y_c", "z_c")), "dx_cy": (("X",), ("x_c", "y_c")),
    "dx_o": (("X",), ("x_o",)),
}
REG_OPTS = {
    # (three entries: the one at the array's position may be first, in the middle or last)
    ("X",): [[], ["dx_c"], ["dx_l"], ["dx_c", "dx_l"], ["dx_l", "dx_c"], ["dx_cy"], ["dx_l", "dx_c", "dx_o"], ["dx_o", "dx_l", "dx_c"]],
    ("Y",): [[], ["dy_c"], ["dy_l", "dy_c"]],
    ("X", "Y"): [[], ["a_cc"], ["a_lc"], ["a_cc", "a_lc"]],
    ("Z",): [[], ["dz_c"]],
    ("Y", "Z"): [[], ["yz_cc"]],
    ("X", "Y", "Z"): [[], ["vol"]],
}
ARRAYS = {"ccc": ("t", "z_c", "y_c", "x_c"), "lcc": ("t", "z_c", "y_c", "x_l"), "clo": ("x_c", "y_l", "z_o"), "cc": ("y_c", "x_c"), "lc": ("x_l", "y_c"), "cl": ("x_c", "y_l"), "ll": ("t", "y_l", "x_l")}
DIM_AX = {"x_o": ("X", "outer"), "x_c": ("X", "center"), "x_l": ("X", "left"), "y_c": ("Y", "center"), "y_l": ("Y", "left"), "z_c": ("Z", "center"), "z_o": ("Z", "outer")}


def reg_sid(reg):
    return "|".join(f"{''.join(k)}:{'+'.join(v)}" for k, v in sorted(reg.items()) if v) or "empty"


def structures(tier, seed):
    out = []
    keys2 = [("X",), ("Y",), ("X", "Y")]
    for combo in itertools.product(*[REG_OPTS[k] for k in keys2]):
        reg = {k: v for k, v in zip(keys2, combo)}
        out.append({"part": "get", "sid": "get;" + reg_sid(reg), "reg": {"".join(k): v for k, v in reg.items()},
                    # a metric of X that also varies along Y must be moved along Y too when the array sits elsewhere on Y
                    "arrays": ["cc", "lc", "ccc"] + (["cl", "ll"] if "dx_cy" in reg[("X",)] else []), "requests": [["X"], ["Y"], ["X", "Y"], ["Y", "X"], "X"]})
    keys3 = list(REG_OPTS)
    all3 = list(itertools.product(*[REG_OPTS[k] for k in keys3]))
    rng = random.Random(seed)
    pick = all3 if tier == "thorough" else rng.sample(all3, 24)
    for combo in pick:
        reg = {k: v for k, v in zip(keys3, combo)}
        pre = "get3;" if tier == "thorough" else "rnd:get3;"
        out.append({"part": "get", "sid": pre + reg_sid(reg), "reg": {"".join(k): v for k, v in reg.items()},
                    "arrays": ["ccc", "clo"], "requests": [["X", "Y", "Z"], ["Z", "X", "Y"], ["Y", "Z"], ["Z"]]})
    # a fixed 3-axis set that exercises the partition order (several admissible partitions)
    for reg in ({"X": ["dx_c"], "Y": ["dy_c"], "Z": ["dz_c"], "XY": ["a_cc"], "YZ": ["yz_cc"]}, {"X": ["dx_c"], "Y": ["dy_c"], "Z": ["dz_c"]},
                {"XY": ["a_lc"], "Z": ["dz_c"]}, {"XYZ": ["vol"], "X": ["dx_c"]}):
        out.append({"part": "get", "sid": "get3;" + reg_sid({tuple(k): v for k, v in reg.items()}), "reg": reg, "arrays": ["ccc", "lcc"],
                    "requests": [["X", "Y", "Z"], ["Y", "X", "Z"]]})
    for op in ("integrate", "integrate-order", "average", "derivative", "metric_weighted-diff", "metric_weighted-interp-multi", "metric_weighted-mapping-order", "average-constant", "average-constant-bounded"):
        out.append({"part": "op", "op": op, "sid": f"op;{op}"})
    if tier == "thorough":
        out.append({"part": "lean", "sid": "lean;finite-sum-facts", "clause": "sum_const_mul,sum_pos_of_pos,weighted_mean_const"})
    out.append({"part": "get", "sid": "canary;spec-prefers-wrong-position", "reg": {"X": ["dx_c", "dx_l"]}, "arrays": ["lc"], "requests": [["X"]], "canary": True})
    return out


def tokey(k):
    return tuple(c for c in k)


class DemonicFrozenSet(frozenset):
    def __iter__(self):
        return iter(util.DemonicSet(frozenset.__iter__(self))._order())

    def __sub__(self, o):
        return DemonicFrozenSet(frozenset.__sub__(self, o))


def build(w, reg):
    layout = make_layout(LAY)
    # dims named x_c etc.
    layout = {"X": {"center": "x_c", "left": "x_l", "outer": "x_o"}, "Y": {"center": "y_c", "left": "y_l"}, "Z": {"center": "z_c", "outer": "z_o"}}
    ns = {a: w.size(f"n_{a}", 2) for a in LAY}
    dims = {}
    for a in LAY:
        for pos, d in layout[a].items():
            dims[d] = symx.mk_int(spec.len_pos(pos, zint(ns[a])))
    dims["t"] = w.size("n_t", 1)
    ds = w.dataset(dims, coords={d: (d,) for d in dims}, data_vars={k: v[1] for k, v in POOL.items()})
    metrics = {tokey(k): list(v) for k, v in reg.items() if v}
    g = w.grid(ds, layout, periodic=False, metrics=metrics)
    return layout, ns, dims, ds, g


def interp_spec(var, target_dims, layout, ns):
    """spec of 'var interpolated to the position of the array' (extend), axis after axis in grid order"""
    get = lambda idx: var.elem(idx)  # noqa
    dims = list(var.dims)
    for a in LAY:
        mine = [d for d in dims if d in layout[a].values()]
        theirs = [d for d in target_dims if d in layout[a].values()]
        if len(mine) != 1 or len(theirs) != 1 or mine[0] == theirs[0]:
            continue
        pf, pt = DIM_AX[mine[0]][1], DIM_AX[theirs[0]][1]
        get = spec.stencil(get, "interp", mine[0], theirs[0], pf, pt, "extend", z3.RealVal(0), zint(ns[a]))
        dims = [theirs[0] if d == mine[0] else d for d in dims]
    return dims, get


def admissible(reg, arr_dims, req, ds, layout, ns, prefer_wrong=False):
    """list of candidates (dims, getter, interpolated?) or [] (-> KeyError), from the statement"""
    A = frozenset(req)
    R = {frozenset(tokey(k)): list(v) for k, v in reg.items() if v}

    def all_options(block):
        opts = []
        for name in R[block]:
            var = ds[name]
            fits = set(var.dims) <= set(arr_dims)
            if fits:
                opts.append((list(var.dims), (lambda v: lambda idx: v.elem(idx))(var), False))
            else:
                d2, g2 = interp_spec(var, arr_dims, layout, ns)
                opts.append((d2, g2, True))
        return opts

    def factor_options(block):
        # the statement, for the exact set and for every block of a partition alike: the variable located at the array's position if
        # there is one, otherwise one of the registered ones interpolated to it
        opts = all_options(block)
        at = [o for o in opts if not o[2]]
        return at if at else opts
    if A in R:
        at = [o for o in all_options(A) if not o[2]]
        notat = [o for o in all_options(A) if o[2]]
        if prefer_wrong:
            return notat or at
        return at if at else notat
    # partitions of A into >= 2 registered blocks
    items = sorted(A)
    parts = []

    def rec(rest, acc):
        if not rest:
            parts.append(list(acc))
            return
        first = rest[0]
        for k in range(0, len(rest)):
            for others in itertools.combinations(rest[1:], k):
                block = frozenset((first,) + others)
                if block in R:
                    rec([x for x in rest if x not in block], acc + [block])
    rec(items, [])
    parts = [p for p in parts if len(p) >= 2]
    if not parts:
        return []
    mx = max(max(len(b) for b in p) for p in parts)
    parts = [p for p in parts if max(len(b) for b in p) == mx]
    cands = []
    for p in parts:
        for combo in itertools.product(*[factor_options(b) for b in p]):
            dd = []
            for d_, _, _ in combo:
                for x in d_:
                    if x not in dd:
                        dd.append(x)
            gs = [c[1] for c in combo]

            def getter(idx, gs=gs, combo=combo):
                t = None
                for (d_, g_, _) in combo:
                    v = g_({k: idx[k] for k in d_})
                    t = v if t is None else t * v
                return t
            cands.append((dd, getter, any(c[2] for c in combo)))
    return cands


def prove_any(name, alternatives, detail=None):
    """obligation: at least one alternative is valid on this path.  alternative = (assumptions, goals).
    First a cheap pass over all alternatives (syntactic identity / 2 s solver budget), then the full
    budget only on alternatives the cheap pass left undecided."""
    c = symx.ctx()
    first_model = None
    undecided = []
    for assumptions, goals in alternatives:
        verdict = "proved"
        for goal in goals:
            if isinstance(goal, bool):
                if not goal:
                    verdict = "failed"
                    break
                continue
            st, model = c.quick_valid(goal, assumptions)
            if st == "failed":
                verdict = "failed"
                if first_model is None:
                    first_model = model
                break
            if st == "unknown":
                verdict = "unknown"
        if verdict == "proved":
            return c.oblige(name, True, detail)
        if verdict == "unknown":
            undecided.append((assumptions, goals))
    any_unknown = False
    for assumptions, goals in undecided:
        ok = True
        for goal in goals:
            if isinstance(goal, bool):
                continue
            st, model = c.check_valid(goal, assumptions)
            if st != "proved":
                ok = False
                if st == "unknown":
                    any_unknown = True
                elif first_model is None:
                    first_model = model
                break
        if ok:
            return c.oblige(name, True, detail)
    ob = symx.Oblig(name, "unknown" if any_unknown else "failed", first_model, list(c.trace), 0.0, detail)
    c.obligs.append(ob)
    return ob


def run_get(s):
    mods = util.xgcm_modules()
    covers = {}
    obs = []
    stats = dict(paths=0, queries=0, solver_time=0.0, engine_errors=[])
    canary = s.get("canary")
    for aname in s["arrays"]:
        for req in s["requests"]:
            rq = req if isinstance(req, str) else list(req)
            tag = f"array={aname};axes={rq if isinstance(rq, str) else ''.join(rq)}{'(str)' if isinstance(rq, str) else ''}"
            adims = ARRAYS[aname]
            axes_in_arr = {DIM_AX[d][0] for d in adims if d in DIM_AX}
            reqset = [rq] if isinstance(rq, str) else rq
            if not set(reqset) <= axes_in_arr:
                continue

            def body():
                w = SymWorld()
                layout, ns, dims, ds, g = build(w, s["reg"])
                arr = w.array("A", list(adims), ds, with_coords=True)
                cands = admissible(s["reg"], adims, reqset, ds, layout, ns, prefer_wrong=bool(canary))
                with warnings.catch_warnings(record=True) as wlog:
                    warnings.simplefilter("always")
                    try:
                        m = g.get_metric(arr, rq if isinstance(rq, str) else tuple(rq))
                        err = None
                    except (symx.EngineUnsupported, symx.InfeasiblePath, symx.PathAbort):
                        raise
                    except Exception as e:  # noqa
                        err = e
                        m = None
                warned = any("being interpolated" in str(x.message) for x in wlog)
                if not cands:
                    covers["keyerror"] = covers.get("keyerror", 0) + 1
                    oblige(f"KeyError-iff-no-admissible-choice:{tag}", isinstance(err, KeyError), detail=f"{type(err).__name__ if err else 'returned'}")
                    return
                if err is not None:
                    import traceback
                    oblige(f"KeyError-iff-no-admissible-choice:{tag}", False, detail=f"raised {type(err).__name__}: {err}")
                    return
                oblige(f"KeyError-iff-no-admissible-choice:{tag}", True)
                covers["returned"] = covers.get("returned", 0) + 1
                if not isinstance(m, MArr):
                    oblige(f"broadcasts-against-the-array:{tag}", False, detail=f"get_metric returned an object of type {type(m).__name__}, not a DataArray")
                    return
                oblige(f"broadcasts-against-the-array:{tag}", set(m.dims) <= set(adims), detail=f"{m.dims} vs {adims}")
                alts = []
                q = {d: z3.Int(f"q_{d}") for d in m.dims}
                rng = z3.And(*[z3.And(q[d] >= 0, q[d] < zint(m.sizes[d])) for d in m.dims]) if m.dims else z3.BoolVal(True)
                got = m.elem(q)
                for (cd, cg, interp) in cands:
                    if set(cd) != set(m.dims):
                        continue
                    alts.append(([rng], [got == cg({d: q[d] for d in cd})] + [zint(m.sizes[d]) == zint(dims[d]) for d in cd]))
                if not alts:
                    oblige(f"metric-is-an-admissible-choice:{tag}", False, detail=f"dims {m.dims}; admissible dims {[c[0] for c in cands]}")
                else:
                    prove_any(f"metric-is-an-admissible-choice:{tag}", alts)
                must_warn = all(c[2] for c in cands)
                if must_warn:
                    covers["interpolated"] = covers.get("interpolated", 0) + 1
                    oblige(f"warning-when-interpolated:{tag}", warned)
                oblige(f"frame:registry-unchanged:{tag}", True)
            with util.patched(*util.std_patches(mods), (mods["metrics"], "frozenset", DemonicFrozenSet), (mods["grid"], "frozenset", DemonicFrozenSet)):
                rep = symx.explore(body, s["sid"] + tag)
            stats["paths"] += rep.paths
            stats["queries"] += rep.queries
            stats["solver_time"] += rep.solver_time
            stats["engine_errors"] += rep.engine_errors
            for name, ob in rep.merged().items():
                rec = {"fn": "grid.Grid.get_metric", "clause": name, "status": ob.status, "time": ob.time, "detail": ob.detail}
                if ob.status == "failed":
                    rec["witness"] = {"part": "get", "reg": s["reg"], "array": aname, "request": rq, "model": {k: v for k, v in model_values(ob.model).items() if k != "__funcs__"}}
                if canary:
                    if name.startswith("metric-is-an-admissible") and ob.status == "failed":
                        rec["canary"] = True
                        obs.append(rec)
                    continue
                obs.append(rec)
    if canary and not obs:
        obs.append({"fn": "canary", "clause": "none-refuted", "status": "proved", "canary": True, "time": 0})
    return {"sid": s["sid"], "obligations": obs, "covers": covers, **stats}


def run_op(s):
    mods = util.xgcm_modules()
    covers = {}
    op = s["op"]
    reg = {"X": ["dx_c", "dx_l"], "Y": ["dy_c", "dy_l"], "XY": ["a_cc", "a_lc"]}

    def body():
        w = SymWorld()
        if op == "average-constant-bounded":
            symx.ctx().ghost["expand-sums"] = True
            for n in (2, 3):
                layout = {"X": {"center": "x_c", "left": "x_l"}}
                dims = {"x_c": n, "x_l": n, "t": 2}
                ds = w.dataset(dims, coords={}, data_vars={"dx_c": ("x_c",)})
                g = w.grid(ds, layout, periodic=False, metrics={("X",): ["dx_c"]})
                cst = z3.Real("cst")
                arr = MArr(("t", "x_c"), {"t": 2, "x_c": n}, lambda idx: cst, name="K")
                fn = w.fields["var_dx_c"][0]
                for i in range(n):
                    symx.assume(fn(z3.IntVal(i)) > 0)
                out = g.average(arr, "X")
                for t in range(2):
                    oblige(f"average(constant)==constant:n={n}:t={t}", out.elem({"t": z3.IntVal(t)}) == cst)
            covers["returned"] = 1
            return
        if op == "average-constant":
            # any number of cells: the sum-linearity normal form (lean: sum_const_mul) and the positivity of a non-empty sum of
            # positive weights (lean: sum_pos_of_pos) are the two lemma schemata used; field constant along the averaged
            # dimension(s), arbitrary along the others
            symx.ctx().ghost["sum-linearity"] = True
            layout, ns, dims, ds, g = build(w, reg)
            K = z3.Function("K", z3.IntSort(), symx.Val)
            for axes_, adims_, wname in ((["X"], ("t", "y_c", "x_c"), "dx_c"), (["X", "Y"], ("t", "y_c", "x_c"), "a_cc"), (["Y"], ("y_l", "t"), "dy_l")):
                arr = MArr(adims_, {d: dims[d] for d in adims_}, lambda idx: K(idx["t"]), name="K")
                out = g.average(arr, list(axes_))
                oblige(f"average(constant):dims:{'+'.join(axes_)}", tuple(out.dims) == ("t",) or set(out.dims) == set(adims_) - {layout[a_]["center" if a_ != "Y" or wname != "dy_l" else "left"] for a_ in axes_},
                       detail=str(out.dims))
                # lemma instances: the total weight (every registered prefix sum over the metric alone, taken to the end) is positive
                q = {d: z3.Int(f"q_{d}") for d in out.dims}
                rng = z3.And(*[z3.And(q[d] >= 0, q[d] < zint(out.sizes[d])) for d in out.dims]) if out.dims else z3.BoolVal(True)
                for (fn, term, a0, dim0, others0) in list(symx.ctx().ghost.get("prefix-registry", {}).values()):
                    if "K" in str(term) or not all(d in q for d in others0):
                        continue
                    symx.assume(fn(*[q[d] for d in others0], zint(a0.sizes[dim0]) - 1) > 0)
                oblige(f"average(constant)==constant:any-n:{'+'.join(axes_)}", z3.Implies(rng, out.elem(q) == K(q["t"])))
            covers["returned"] = 1
            return
        layout, ns, dims, ds, g = build(w, reg)
        c = w.array("C", ["t", "y_c", "x_c"], ds, with_coords=True)
        X, Y = layout["X"], layout["Y"]
        try:
            if op in ("integrate", "integrate-order"):
                out = g.integrate(c, ["X", "Y"])
                prod = c * ds["a_cc"].reset_coords(drop=True)
                want = prod.sum(["x_c", "y_c"])
                oblige("integrate:dims", tuple(out.dims) == ("t",), detail=str(out.dims))
                qt = z3.Int("q_t")
                rng = z3.And(qt >= 0, qt < zint(dims["t"]))
                oblige("integrate==sum(data*metric)", z3.Implies(rng, out.elem({"t": qt}) == want.elem({"t": qt})))
                if op == "integrate-order":
                    out2 = g.integrate(c, ["Y", "X"])
                    oblige("integrate:any-axis-order", z3.Implies(rng, out.elem({"t": qt}) == out2.elem({"t": qt})))
                o1 = g.integrate(c, "X")
                want1 = (c * ds["dx_c"].reset_coords(drop=True)).sum("x_c")
                q = {d: z3.Int(f"q_{d}") for d in o1.dims}
                oblige("integrate-1axis:dims", set(o1.dims) == {"t", "y_c"})
                oblige("integrate-1axis==sum(data*dx)", o1.elem(q) == want1.elem(q))
            elif op == "average":
                out = g.average(c, ["X", "Y"])
                wgt = ds["a_cc"].reset_coords(drop=True)
                num = (c * wgt).sum(["x_c", "y_c"])
                den = (wgt * MArr(c.dims, c.sizes, lambda idx: z3.RealVal(1))).sum(["x_c", "y_c"])
                qt = z3.Int("q_t")
                oblige("average:dims", tuple(out.dims) == ("t",), detail=str(out.dims))
                symx.assume(den.elem({"t": qt}) != 0)
                oblige("average==sum(data*metric)/sum(metric over valid data)", out.elem({"t": qt}) == num.elem({"t": qt}) / den.elem({"t": qt}))
            elif op == "derivative":
                out = g.derivative(c, "X", to="left", boundary="extend")
                s1 = dict(axes={"X": ("center", "left"), "Y": ("center", "left")}, arr={"X": "center"}, axis="X", to="left", cboundary="extend",
                          gboundary=None, gperiodic=False, op="diff", dshifts=None)
                r = dict(da=c, layout={"X": X, "Y": Y}, ns=ns, cfill=None, gfill=None)
                sp = C01.op_spec(s1, r)
                oblige("derivative:dims", tuple(out.dims) == tuple(sp["dims"]), detail=f"{out.dims} {sp['dims']}")
                dxl = ds["dx_l"]
                for name, region, val in sp["cells"]:
                    oblige("derivative==diff/metric-at-result-position", z3.Implies(region, out.elem(sp["q"]) == val / dxl.elem({"x_l": sp["q"]["x_l"]})))
            elif op == "metric_weighted-diff":
                out = g.diff(c, "X", to="left", boundary="extend", metric_weighted=("X", "Y"))
                prod = c * ds["a_cc"].reset_coords(drop=True)
                s1 = dict(axes={"X": ("center", "left"), "Y": ("center", "left")}, arr={"X": "center"}, axis="X", to="left", cboundary="extend",
                          gboundary=None, gperiodic=False, op="diff", dshifts=None)
                r = dict(da=prod, layout={"X": X, "Y": Y}, ns=ns, cfill=None, gfill=None)
                sp = C01.op_spec(s1, r)
                oblige("metric_weighted:dims", tuple(out.dims) == tuple(sp["dims"]), detail=f"{out.dims} {sp['dims']}")
                alc = ds["a_lc"]
                for name, region, val in sp["cells"]:
                    oblige("metric_weighted op==op(data*m)/m-at-result-position",
                           z3.Implies(region, out.elem(sp["q"]) == val / alc.elem({"x_l": sp["q"]["x_l"], "y_c": sp["q"]["y_c"]})))
            elif op == "metric_weighted-interp-multi":
                out = g.interp(c, ["X", "Y"], to="left", boundary="extend", metric_weighted={"X": ("X",), "Y": ("Y",)})
                # per-axis mapping: each axis is weighted with its own entry, one axis after the other
                step = g.interp(g.interp(c, "X", to="left", boundary="extend", metric_weighted=("X",)), "Y", to="left", boundary="extend", metric_weighted=("Y",))
                q = {d: z3.Int(f"q_{d}") for d in ("t", "y_l", "x_l")}
                rng = z3.And(*[z3.And(q[d] >= 0, q[d] < zint(dims[d])) for d in q])
                oblige("metric_weighted-multi:dims", tuple(out.dims) == ("t", "y_l", "x_l") and tuple(step.dims) == tuple(out.dims), detail=str(out.dims))
                oblige("metric_weighted-multi:per-axis-weights-one-axis-after-the-other", z3.Implies(rng, out.elem(q) == step.elem(q)))
            elif op == "metric_weighted-mapping-order":
                # a per-axis mapping is keyed by axis NAME: the order of its keys is irrelevant, and it may name axes the call does not touch
                q = {d: z3.Int(f"q_{d}") for d in ("t", "y_l", "x_l")}
                rng = z3.And(*[z3.And(q[d] >= 0, q[d] < zint(dims[d])) for d in q])
                step = g.interp(g.interp(c, "Y", to="left", boundary="extend", metric_weighted=("Y",)), "X", to="left", boundary="extend", metric_weighted=("X",))
                for tag, call in (("interp[Y,X]-mapping{X,Y}", lambda: g.interp(c, ["Y", "X"], to="left", boundary="extend", metric_weighted={"X": ("X",), "Y": ("Y",)})),
                                  ("interp[Y,X]-mapping{Y,X}", lambda: g.interp(c, ["Y", "X"], to="left", boundary="extend", metric_weighted={"Y": ("Y",), "X": ("X",)}))):
                    out = call()
                    oblige(f"mapping-order:{tag}:dims", set(out.dims) == {"t", "y_l", "x_l"}, detail=str(out.dims))
                    if set(out.dims) == {"t", "y_l", "x_l"}:
                        oblige(f"mapping-order:{tag}:each-axis-weighted-by-its-own-entry", z3.Implies(rng, out.elem(q) == step.elem(q)))
                qy = {d: z3.Int(f"q_{d}") for d in ("t", "y_l", "x_c")}
                rngy = z3.And(*[z3.And(qy[d] >= 0, qy[d] < zint(dims[d])) for d in qy])
                one = g.interp(c, "Y", to="left", boundary="extend", metric_weighted=("Y",))
                for tag, call in (("interp[Y]-mapping{X,Y}", lambda: g.interp(c, "Y", to="left", boundary="extend", metric_weighted={"X": ("X",), "Y": ("Y",)})),
                                  ("cumsum[Y]-mapping{X,Y}", None)):
                    if call is None:
                        out = g.cumsum(c, "Y", to="left", boundary="fill", fill_value=0.0, metric_weighted={"X": ("X",), "Y": ("Y",)})
                        ref = g.cumsum(c, "Y", to="left", boundary="fill", fill_value=0.0, metric_weighted=("Y",))
                    else:
                        out, ref = call(), one
                    oblige(f"mapping-order:{tag}:dims", tuple(out.dims) == tuple(ref.dims), detail=f"{out.dims} {ref.dims}")
                    if tuple(out.dims) == tuple(ref.dims):
                        same = z3.simplify(out.elem(qy)).eq(z3.simplify(ref.elem(qy)))
                        oblige(f"mapping-order:{tag}:weighted-by-the-entry-of-the-operated-axis", same or symx.ctx().check_valid(z3.Implies(rngy, out.elem(qy) == ref.elem(qy)))[0] == "proved")
            covers["returned"] = 1
        except (symx.EngineUnsupported, symx.InfeasiblePath, symx.PathAbort):
            raise
        except Exception as e:  # noqa
            import traceback
            oblige("returns-normally", False, detail=f"{type(e).__name__}: {e} @ {traceback.format_exc(limit=-2)[-300:]}")
    with util.patched(*util.std_patches(mods)):
        rep = symx.explore(body, s["sid"])
    obs = []
    for name, ob in rep.merged().items():
        rec = {"fn": f"grid.Grid.{op.split('-')[0]}" + ("[bounded]" if "bounded" in op else ""), "clause": name, "status": ob.status, "time": ob.time, "detail": ob.detail}
        if ob.status == "failed":
            rec["witness"] = {"part": "op", "op": op, "model": {k: v for k, v in model_values(ob.model).items() if k != "__funcs__"}}
        obs.append(rec)
    counts = {"bounded_standin_evaluations": 2} if "bounded" in op else {}
    return {"sid": s["sid"], "obligations": obs, "paths": rep.paths, "queries": rep.queries, "counts": counts,
            "solver_time": rep.solver_time, "engine_errors": rep.engine_errors, "covers": covers}


def run_structure(s):
    if s["part"] == "lean":
        from harness import C07
        return C07.run_lean(s)
    return run_get(s) if s["part"] == "get" else run_op(s)


REQUIRED_COVERS = ["returned", "keyerror", "interpolated"]


# ---------------------------------------------------------------------------------------------------
def replay(ob):
    import numpy as np
    import xarray as xr
    import xgcm

    warnings.simplefilter("ignore")
    wit = ob.get("witness") or {}
    rng = np.random.default_rng(3)
    n = {"x_c": 4, "x_l": 4, "x_o": 5, "y_c": 3, "y_l": 3, "z_c": 2, "z_o": 3, "t": 2}
    ds = xr.Dataset(coords={d: np.arange(k) for d, k in n.items()})
    for name, (_, dd) in POOL.items():
        ds[name] = (dd, rng.random(tuple(n[d] for d in dd)) + 0.5)
    coords = {"X": {"center": "x_c", "left": "x_l", "outer": "x_o"}, "Y": {"center": "y_c", "left": "y_l"}, "Z": {"center": "z_c", "outer": "z_o"}}
    if wit.get("part") == "get":
        reg = wit["reg"]
        g = xgcm.Grid(ds, coords=coords, periodic=False, metrics={tokey(k): v for k, v in reg.items() if v}, autoparse_metadata=False)
        adims = ARRAYS[wit["array"]]
        arr = xr.DataArray(rng.random(tuple(n[d] for d in adims)), dims=adims)
        rq = wit["request"]
        text = [f"registry {reg}; array dims {adims}; get_metric(array, {rq!r})"]
        # candidates natively
        def cand_values():
            A = frozenset([rq] if isinstance(rq, str) else rq)
            R = {frozenset(tokey(k)): v for k, v in reg.items() if v}

            def fopts(block):
                # the variable located at the array's position if there is one, otherwise one of them interpolated to it
                at = [ds[name].reset_coords(drop=True) for name in R[block] if set(ds[name].dims) <= set(adims)]
                if at:
                    return at
                return [g.interp_like(ds[name].reset_coords(drop=True), arr, "extend", None) for name in R[block]]
            if A in R:
                vs = [ds[nm].reset_coords(drop=True) for nm in R[A] if set(ds[nm].dims) <= set(adims)]
                return vs if vs else fopts(A)
            items = sorted(A)
            parts = []

            def rec(rest, acc):
                if not rest:
                    parts.append(list(acc))
                    return
                for k in range(len(rest)):
                    for others in itertools.combinations(rest[1:], k):
                        b = frozenset((rest[0],) + others)
                        if b in R:
                            rec([x for x in rest if x not in b], acc + [b])
            rec(items, [])
            parts = [p for p in parts if len(p) >= 2]
            if not parts:
                return []
            mx = max(max(len(b) for b in p) for p in parts)
            out = []
            for p in parts:
                if max(len(b) for b in p) != mx:
                    continue
                for combo in itertools.product(*[fopts(b) for b in p]):
                    t = None
                    for v in combo:
                        t = v if t is None else t * v
                    out.append(t)
            return out
        cands = cand_values()
        try:
            m = g.get_metric(arr, rq if isinstance(rq, str) else tuple(rq))
        except KeyError as e:
            return {"confirmed": bool(cands), "text": "\n".join(text + [f"raised KeyError although {len(cands)} admissible choice(s) exist" if cands else "KeyError, as prescribed"])}
        except Exception as e:  # noqa
            return {"confirmed": True, "text": "\n".join(text + [f"raised {type(e).__name__}: {e}"])}
        if not cands:
            return {"confirmed": True, "text": "\n".join(text + ["returned a metric although nothing admissible is registered"])}
        if not isinstance(m, xr.DataArray):
            return {"confirmed": True, "text": "\n".join(text + [f"REAL CODE returned an object of type {type(m).__name__}, not a DataArray"])}
        ok = any(set(c.dims) == set(m.dims) and np.allclose(c.transpose(*m.dims).values, m.values) for c in cands)
        return {"confirmed": not ok, "text": "\n".join(text + [f"result dims {m.dims}: {'matches an admissible choice' if ok else 'matches NONE of the ' + str(len(cands)) + ' admissible choices'}"])}
    # operations
    op = wit.get("op", "")
    g = xgcm.Grid(ds, coords=coords, periodic=False, metrics={("X",): ["dx_c", "dx_l"], ("Y",): ["dy_c", "dy_l"], ("X", "Y"): ["a_cc", "a_lc"]}, autoparse_metadata=False)
    c = xr.DataArray(rng.random((2, 3, 4)), dims=("t", "y_c", "x_c"))
    bad = []
    try:
        if op.startswith("integrate"):
            if not np.allclose(g.integrate(c, ["X", "Y"]).values, (c * ds.a_cc).sum(["x_c", "y_c"]).values):
                bad.append("integrate != sum(data*area)")
            if not np.allclose(g.integrate(c, ["X", "Y"]).values, g.integrate(c, ["Y", "X"]).values):
                bad.append("integrate depends on the axis order")
            if not np.allclose(g.integrate(c, "X").values, (c * ds.dx_c).sum("x_c").values):
                bad.append("integrate(X) != sum(data*dx)")
        elif op.startswith("average"):
            if not np.allclose(g.average(c, ["X", "Y"]).values, ((c * ds.a_cc).sum(["x_c", "y_c"]) / ds.a_cc.sum()).values):
                bad.append("average != sum(data*w)/sum(w)")
            k = xr.full_like(c, 2.5)
            if not np.allclose(g.average(k, "X").values, 2.5):
                bad.append("average(constant) != constant")
        elif op == "derivative":
            d = g.derivative(c, "X", to="left", boundary="extend")
            ref = g.diff(c, "X", to="left", boundary="extend") / ds.dx_l
            if not np.allclose(d.values, ref.transpose(*d.dims).values):
                bad.append("derivative != diff/dx_l")
        elif op == "metric_weighted-diff":
            d = g.diff(c, "X", to="left", boundary="extend", metric_weighted=("X", "Y"))
            ref = g.diff(c * ds.a_cc, "X", to="left", boundary="extend") / ds.a_lc
            if not np.allclose(d.values, ref.transpose(*d.dims).values):
                bad.append("metric_weighted diff != diff(data*a_cc)/a_lc")
        elif op == "metric_weighted-mapping-order":
            s1 = g.interp(c * ds.dy_c, "Y", to="left", boundary="extend") / ds.dy_l
            ref = g.interp(s1 * ds.dx_c, "X", to="left", boundary="extend") / ds.dx_l
            for mw in ({"X": ("X",), "Y": ("Y",)}, {"Y": ("Y",), "X": ("X",)}):
                d = g.interp(c, ["Y", "X"], to="left", boundary="extend", metric_weighted=mw)
                if not np.allclose(d.values, ref.transpose(*d.dims).values):
                    bad.append(f"interp over [Y, X] with metric_weighted={mw} does not weight every axis by its own entry")
            d = g.interp(c, "Y", to="left", boundary="extend", metric_weighted={"X": ("X",), "Y": ("Y",)})
            if not np.allclose(d.values, s1.transpose(*d.dims).values):
                bad.append("interp along Y with a mapping naming X first is not weighted by the Y entry")
        elif op == "metric_weighted-interp-multi":
            d = g.interp(c, ["X", "Y"], to="left", boundary="extend", metric_weighted={"X": ("X",), "Y": ("Y",)})
            s1 = g.interp(c * ds.dx_c, "X", to="left", boundary="extend") / ds.dx_l
            ref = g.interp(s1 * ds.dy_c, "Y", to="left", boundary="extend") / ds.dy_l
            if not np.allclose(d.values, ref.transpose(*d.dims).values):
                bad.append("metric_weighted multi-axis interp does not weight per axis")
    except Exception as e:  # noqa
        bad.append(f"raised {type(e).__name__}: {e}")
    return {"confirmed": bool(bad), "text": "\n".join([f"operation {op}"] + bad)}
