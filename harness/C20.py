"""C20 - ill-posed requests raise instead of returning an array.

Exceptional postconditions: for every catalogued valid call and every single ill-posing edit from
the classes of the statement, the real function raises on EVERY path, for all sizes and data
(normal return => well-posed).  The valid base calls themselves are checked to return normally
(so the edits are the cause of the refusal, and the clause is not vacuous).
"""
from __future__ import annotations

import z3

from vp import symx, util
from vp.symx import oblige, zint
from vp.mxr import NArr
from vp.world import SymWorld, NativeWorld, model_values
from contracts import spec

PROPERTY = "C20"
META = {
    "level": "proof",
    "functions_under_contract": [
        "raises-clauses of: Grid._get_dims_from_axis, Axis._get_position_name, Axis.__init__, Grid.__init__, Grid._1d_grid_ufunc_dispatch, "
        "grid._select_grid_ufunc, Grid.cumsum, Grid.derivative/integrate/average/cumint, padding._pad_basic, grid_ufunc.apply_as_grid_ufunc, "
        "grid_ufunc._identify_dummy_axes_with_real_axes, grid_ufunc._check_data_input, transform.transform, transform.interp_1d_conservative",
    ],
    "trusted_base": ["xarray/numpy models of vp/mxr.py (their error conditions: missing dimension, unknown pad mode, missing core dimension)",
                     "CPython executes the functions as written; proxies intercept all symbolic control flow", "z3 5.1 is sound"],
    "assumptions": ["catalogue of base calls x single ill-posing edits enumerated on 2 grid layouts; sizes and data symbolic",
                    "a per-call boundary word that is never used because all widths are zero is not required to raise (the request has a defined answer)"],
}

LAYOUTS = {
    "L1": {"X": {"center": "x_c", "left": "x_l", "outer": "x_o"}, "Y": {"center": "y_c", "left": "y_l"}, "Z": {"center": "z_c", "outer": "z_o"}},
    "L2": {"X": {"center": "x_c", "left": "x_l", "right": "x_r", "inner": "x_i", "outer": "x_o"}, "Y": {"center": "y_c", "right": "y_r"}, "Z": {"center": "z_c", "inner": "z_i"}},
}


def cases():
    """name -> (class, callable(env) performing the call).  env has g, ds, w, arrays"""
    C = {}

    def add(name, klass, fn, valid=False):
        C[name] = (klass, fn, valid)
    ops = ["diff", "interp", "min", "max", "cumsum"]
    for op in ops:
        add(f"{op}:valid", "base", lambda e, op=op: getattr(e.g, op)(e.c, "X", to="left", boundary="extend"), True)
        add(f"{op}:axis-not-in-grid", "axis the grid lacks", lambda e, op=op: getattr(e.g, op)(e.c, "W", boundary="extend"))
        add(f"{op}:second-axis-not-in-grid", "axis the grid lacks", lambda e, op=op: getattr(e.g, op)(e.c, ["X", "W"], boundary="extend"))
        add(f"{op}:data-lacks-axis-dim", "data lacking a dimension of the axis", lambda e, op=op: getattr(e.g, op)(e.noX, "X", boundary="extend"))
        add(f"{op}:data-has-two-axis-dims", "data having two dimensions of the axis", lambda e, op=op: getattr(e.g, op)(e.twoX, "X", boundary="extend"))
        add(f"{op}:shift-to-same-position", "shift the axis cannot make", lambda e, op=op: getattr(e.g, op)(e.c, "X", to="center", boundary="extend"))
        add(f"{op}:shift-to-absent-position", "shift the axis cannot make", lambda e, op=op: getattr(e.g, op)(e.cy, "Y", to="inner", boundary="extend"))
        add(f"{op}:shift-face-to-face", "shift the axis cannot make", lambda e, op=op: getattr(e.g, op)(e.l, "X", to="outer", boundary="extend"))
        add(f"{op}:unknown-position-word", "unknown position word", lambda e, op=op: getattr(e.g, op)(e.c, "X", to="middle", boundary="extend"))
        add(f"{op}:unknown-boundary-word", "unknown boundary word", lambda e, op=op: getattr(e.g, op)(e.c, "X", to="left", boundary="reflect"))
        add(f"{op}:unknown-boundary-word-in-mapping", "unknown boundary word", lambda e, op=op: getattr(e.g, op)(e.c, "X", to="left", boundary={"X": "reflect"}))
        add(f"{op}:mapping-to-second-axis-invalid", "shift the axis cannot make",
            lambda e, op=op: getattr(e.g, op)(e.c, ["X", "Y"], to={"X": "left", "Y": "center"}, boundary="extend"))
    for op in ("derivative", "integrate", "average", "cumint"):
        add(f"{op}:valid", "base", lambda e, op=op: getattr(e.g, op)(e.c, "X", **({"boundary": "extend"} if op in ("derivative", "cumint") else {})), True)
        add(f"{op}:axis-not-in-grid", "axis the grid lacks", lambda e, op=op: getattr(e.g, op)(e.c, "W"))
        add(f"{op}:data-lacks-axis-dim", "data lacking a dimension of the axis", lambda e, op=op: getattr(e.g, op)(e.noX, "X"))
    add("canary:valid-call-expected-to-be-refused", "canary", lambda e: e.g.diff(e.c, "X", to="left", boundary="extend"))
    # constructor
    add("ctor:valid", "base", lambda e: e.mk(), True)
    add("ctor:unknown-boundary-word", "unknown boundary word", lambda e: e.mk(boundary="reflect"))
    add("ctor:unknown-boundary-word-in-mapping", "unknown boundary word", lambda e: e.mk(boundary={"X": "fill", "Y": "reflect", "Z": "fill"}))
    add("ctor:unknown-position-word", "unknown position word", lambda e: e.mk(coords_edit=("X", "middle", "x_l")))
    add("ctor:non-numeric-fill-value", "non-numeric fill value", lambda e: e.mk(fill_value="a"))
    add("ctor:non-numeric-fill-value-in-mapping", "non-numeric fill value", lambda e: e.mk(fill_value={"Y": "zero"}))
    # text that LOOKS like a number is still not a number
    add("ctor:numeric-looking-string-fill-value", "non-numeric fill value", lambda e: e.mk(fill_value="1"))
    add("ctor:numeric-looking-string-fill-value-in-mapping", "non-numeric fill value", lambda e: e.mk(fill_value={"X": "2.5"}))
    add("ctor:nan-string-fill-value", "non-numeric fill value", lambda e: e.mk(fill_value=" nan "))
    add("ctor:bytes-fill-value", "non-numeric fill value", lambda e: e.mk(fill_value=b"7"))
    add("ctor:list-fill-value", "non-numeric fill value", lambda e: e.mk(fill_value={"Y": [1.0]}))
    add("ctor:dimension-not-in-dataset", "dimension missing", lambda e: e.mk(coords_edit=("Y", "left", "nosuchdim")))
    add("ctor:default-shift-to-same-position", "shift the axis cannot make", lambda e: e.mk(default_shifts={"X": {"center": "center"}}))
    # grid ufuncs
    add("ufunc:valid", "base", lambda e: e.apply("(Q:center)->(Q:left)", [e.c], [("X",)], {"Q": (1, 0)}), True)
    add("ufunc:valid-2in", "base", lambda e: e.apply("(Q:center),(Q:left)->(Q:left)", [e.c, e.l], [("X",), ("X",)], None), True)
    add("ufunc:input-on-wrong-position", "grid-ufunc inputs on the wrong positions", lambda e: e.apply("(Q:center)->(Q:left)", [e.l], [("X",)], {"Q": (1, 0)}))
    add("ufunc:second-input-on-wrong-position", "grid-ufunc inputs on the wrong positions", lambda e: e.apply("(Q:center),(Q:left)->(Q:left)", [e.c, e.c], [("X",), ("X",)], None))
    # arguments with TWO signature axes, one of them on the position the signature names and the other one not
    add("ufunc:valid-2axes", "base", lambda e: e.apply2("(P:center,Q:center)->(P:left,Q:center)", [e.c], [("X", "Y")], {"P": (1, 0)}), True)
    add("ufunc:2axes-first-axis-on-wrong-position", "grid-ufunc inputs on the wrong positions",
        lambda e: e.apply2("(P:center,Q:center)->(P:left,Q:center)", [e.l], [("X", "Y")], {"P": (1, 0)}))
    add("ufunc:2axes-second-axis-on-wrong-position", "grid-ufunc inputs on the wrong positions",
        lambda e: e.apply2("(Q:center,P:center)->(Q:center,P:left)", [e.l], [("Y", "X")], {"P": (1, 0)}))
    add("ufunc:2axes-second-input-partly-on-wrong-position", "grid-ufunc inputs on the wrong positions",
        lambda e: e.apply2("(P:center,Q:center),(P:center,Q:center)->(P:left,Q:center)", [e.c, e.l], [("X", "Y"), ("X", "Y")], {"P": (1, 0)}))
    # an unknown boundary word on an axis of the call whose own width is zero while another axis IS padded
    add("ufunc:unknown-boundary-word-on-the-unpadded-axis", "unknown boundary word",
        lambda e: e.apply2b("(P:center,Q:center)->(P:left,Q:center)", [e.c], [("X", "Y")], {"P": (1, 0), "Q": (0, 0)}, {"X": "fill", "Y": "bogus"}))
    add("ufunc:valid-2axes-one-unpadded", "base",
        lambda e: e.apply2b("(P:center,Q:center)->(P:left,Q:center)", [e.c], [("X", "Y")], {"P": (1, 0), "Q": (0, 0)}, {"X": "fill", "Y": "extend"}), True)
    add("ufunc:position-absent-on-axis", "grid-ufunc inputs on the wrong positions", lambda e: e.apply("(Q:center)->(Q:inner)", [e.cy], [("Y",)], None))
    add("ufunc:too-many-inputs", "grid-ufunc inputs in the wrong number", lambda e: e.apply("(Q:center)->(Q:left)", [e.c, e.c], [("X",), ("X",)], None))
    add("ufunc:too-few-inputs", "grid-ufunc inputs in the wrong number", lambda e: e.apply("(Q:center),(Q:left)->(Q:left)", [e.c], [("X",)], None))
    add("ufunc:axis-entries-mismatch", "grid-ufunc inputs in the wrong number", lambda e: e.apply("(Q:center),(Q:left)->(Q:left)", [e.c, e.l], [("X",)], None))
    add("ufunc:axis-entry-wrong-arity", "grid-ufunc inputs in the wrong number", lambda e: e.apply("(Q:center)->(Q:left)", [e.c], [("X", "Y")], None))
    add("ufunc:axis-not-in-grid", "axis the grid lacks", lambda e: e.apply("(Q:center)->(Q:left)", [e.c], [("W",)], None))
    add("ufunc:no-axis", "grid-ufunc inputs in the wrong number", lambda e: e.apply("(Q:center)->(Q:left)", [e.c], None, None))
    # transform
    add("transform:valid-linear", "base", lambda e: e.transform(method="linear"), True)
    add("transform:valid-conservative", "base", lambda e: e.transform(method="conservative", td="outer"), True)
    add("transform:periodic-axis", "transform along a periodic axis", lambda e: e.transform(method="linear", periodic=True))
    add("transform:periodic-axis-conservative", "transform along a periodic axis", lambda e: e.transform(method="conservative", td="outer", periodic=True))
    add("transform:conservative-without-outer", "conservative transform without outer positions", lambda e: e.transform(method="conservative", axis="Y", td="ycenter"))
    add("transform:non-monotonic-bins", "non-monotonic conservative target bins", lambda e: e.transform(method="conservative", td="outer", bins="nonmono"))
    add("transform:bins-with-repeated-value", "non-monotonic conservative target bins", lambda e: e.transform(method="conservative", td="outer", bins="repeat"))
    add("transform:axis-not-in-grid", "axis the grid lacks", lambda e: e.transform(method="linear", axis="W"))
    return C


class Env:
    def __init__(self, w, lay):
        self.w = w
        self.lay = LAYOUTS[lay]
        L = self.lay
        n = {a: w.size(f"n_{a}", 3) for a in L}
        self.n = n
        dims = {}
        for a in L:
            for pos, d in L[a].items():
                dims[d] = spec.len_pos(pos, n[a]) if w.native else symx.mk_int(spec.len_pos(pos, zint(n[a])))
        dims["t"] = w.size("n_t", 1)
        self.dims = dims
        self.ds = w.dataset(dims, coords={d: (d,) for d in dims}, data_vars={"dx_c": ("x_c",), "dx_l": ("x_l",), "dz_c": ("z_c",)})
        self.g = self.mk()
        ds = self.ds
        self.c = w.array("C", ["t", "y_c", "x_c"], ds, with_coords=True)
        self.l = w.array("Lf", ["t", "y_c", "x_l"], ds, with_coords=True)
        self.cy = w.array("CY", ["t", "y_c", "x_c"], ds)
        self.noX = w.array("NX", ["t", "y_c"], ds)
        self.twoX = w.array("TX", ["x_c", "y_c", "x_l"], ds)
        self.zc = w.array("ZC", ["t", "z_c", "x_c"], ds, with_coords=True)

    def mk(self, coords_edit=None, periodic=False, **kw):
        coords = {a: dict(pm) for a, pm in self.lay.items()}
        if coords_edit:
            a, pos, dim = coords_edit
            coords[a][pos] = dim
        from xgcm import Grid
        return Grid(self.ds, coords=coords, periodic=periodic, metrics={("X",): ["dx_c", "dx_l"], ("Z",): ["dz_c"]}, autoparse_metadata=False, **kw)

    def apply(self, sig, args, axis, bw):
        f = self.w.userfunc("F", lambda arrs: [list(arrs[0].shape[:-1]) + [self.dims["x_l"]]])
        return self.g.apply_as_grid_ufunc(f, *args, axis=axis, signature=sig, boundary_width=bw, boundary="extend")

    def apply2(self, sig, args, axis, bw):
        f = self.w.userfunc("F2", lambda arrs: [list(arrs[0].shape[:-2]) + [self.dims["x_l"], self.dims["y_c"]]])
        return self.g.apply_as_grid_ufunc(f, *args, axis=axis, signature=sig, boundary_width=bw, boundary="extend")

    def apply2b(self, sig, args, axis, bw, boundary):
        f = self.w.userfunc("F2", lambda arrs: [list(arrs[0].shape[:-2]) + [self.dims["x_l"], self.dims["y_c"]]])
        return self.g.apply_as_grid_ufunc(f, *args, axis=axis, signature=sig, boundary_width=bw, boundary=boundary)

    def transform(self, method, axis="Z", td="center", periodic=False, bins="mono"):
        import numpy as np
        g = self.mk(periodic=periodic) if periodic else self.g
        w = self.w
        if w.native:
            lv = {"mono": np.array([0.1, 0.4, 0.9]), "nonmono": np.array([0.1, 0.9, 0.4]), "repeat": np.array([0.1, 0.4, 0.4])}[bins]
        else:
            LV = z3.Function("LV", z3.IntSort(), symx.Val)
            lv = NArr((3,), lambda p: LV(p[0]))
            b0, b1, b2 = LV(0), LV(1), LV(2)
            symx.assume({"mono": z3.And(b0 < b1, b1 < b2), "nonmono": z3.And(b0 < b1, b1 > b2), "repeat": z3.And(b0 < b1, b1 == b2)}[bins])
        if axis == "Y":
            da = w.array("YC", ["t", "y_c", "x_c"], self.ds, with_coords=True)
            tdat = w.array("TDY", ["t", "y_c", "x_c"], self.ds)
        else:
            da = self.zc
            tdim = {"center": "z_c", "outer": self.lay["Z"].get("outer", "z_c")}[td] if td in ("center", "outer") else "z_c"
            tdat = w.array("TD", ["t", tdim, "x_c"], self.ds)
        if w.native:
            return g.transform(da, axis, lv, target_data=tdat, method=method)
        mods = util.xgcm_modules()
        TR = mods["transform"]
        # the numeric kernels are callees with their own contracts (C07/C08): stubbed by uninterpreted recorders
        rec = w.userfunc("K", lambda arrs: [list(arrs[0].shape[:-1]) + [arrs[2].shape[-1] if method != "conservative" else arrs[-1].shape[-1]]])
        with util.patched((TR, "_interp_1d_linear", rec), (TR, "_interp_1d_conservative", rec)):
            return g.transform(da, axis, lv, target_data=tdat, method=method)


def structures(tier, seed):
    out = []
    for lay in LAYOUTS:
        for name, (klass, fn, valid) in cases().items():
            if name == "transform:valid-conservative" and "outer" not in LAYOUTS[lay]["Z"]:
                continue
            if name in ("transform:non-monotonic-bins", "transform:bins-with-repeated-value", "transform:periodic-axis-conservative") and "outer" not in LAYOUTS[lay]["Z"]:
                continue
            out.append({"sid": f"{lay};{name}", "lay": lay, "case": name, "klass": klass, "valid": valid})
    return out


def run_structure(s):
    mods = util.xgcm_modules()
    covers = {}
    klass, fn, valid = cases()[s["case"]]

    def body():
        w = SymWorld()
        try:
            e = Env(w, s["lay"])
        except (symx.EngineUnsupported, symx.InfeasiblePath, symx.PathAbort):
            raise
        except Exception as ex:  # noqa
            oblige("environment-built", False, detail=f"{type(ex).__name__}: {ex}")
            return
        try:
            r = fn(e)
            outcome = ("returned", None)
        except (symx.EngineUnsupported, symx.InfeasiblePath, symx.PathAbort):
            raise
        except Exception as ex:  # noqa
            outcome = ("raised", ex)
        covers[outcome[0]] = covers.get(outcome[0], 0) + 1
        if valid:
            import traceback
            oblige("valid-base-call-returns", outcome[0] == "returned",
                   detail=None if outcome[0] == "returned" else f"{type(outcome[1]).__name__}: {outcome[1]}")
        else:
            oblige(f"refused[{klass}]", outcome[0] == "raised", detail="returned an array" if outcome[0] == "returned" else type(outcome[1]).__name__)
    with util.patched(*util.std_patches(mods)):
        rep = symx.explore(body, s["sid"])
    obs = []
    if klass != "canary":
        # [bounded] the same request on the REAL libraries (one concrete size): independent of how strict the library models are
        # (e.g. xarray accepts a rename that creates duplicate dimension names; the model cannot represent that)
        import warnings
        from vp.world import raised_in_harness
        with warnings.catch_warnings():
            warnings.simplefilter("ignore")
            nw = NativeWorld({})
            try:
                fn(Env(nw, s["lay"]))
                nat = ("returned", None)
            except Exception as ex:  # noqa
                nat = ("raised", ex)
        if nat[0] == "raised" and raised_in_harness(nat[1]):
            rep.engine_errors.append(f"native pass crashed inside the harness: {type(nat[1]).__name__}: {nat[1]}")
        else:
            ok = (nat[0] == "returned") if valid else (nat[0] == "raised")
            obs.append({"fn": "raises-clause[bounded, real xarray]", "clause": ("valid-base-call-returns" if valid else f"refused[{klass}]") + ":native", "status": "proved" if ok else "failed",
                        "time": 0.0, "detail": None if ok else ("returned an array" if nat[0] == "returned" else f"{type(nat[1]).__name__}: {nat[1]}"),
                        **({} if ok else {"witness": {"lay": s["lay"], "case": s["case"], "valid": valid, "model": {}}})})
            covers["native"] = 1
    for name, ob in rep.merged().items():
        rec = {"fn": "raises-clause", "clause": name, "status": ob.status, "time": ob.time, "detail": ob.detail}
        if ob.status == "failed":
            rec["witness"] = {"lay": s["lay"], "case": s["case"], "valid": valid, "model": {k: v for k, v in model_values(ob.model).items() if k != "__funcs__"}}
        if klass == "canary":
            if not name.startswith("refused["):
                continue
            rec["canary"] = True
        obs.append(rec)
    return {"sid": s["sid"], "obligations": obs, "paths": rep.paths, "queries": rep.queries,
            "solver_time": rep.solver_time, "engine_errors": rep.engine_errors, "covers": covers}


REQUIRED_COVERS = ["returned", "raised"]


def replay(ob):
    import warnings

    warnings.simplefilter("ignore")
    wit = ob.get("witness") or {}
    klass, fn, valid = cases()[wit["case"]]
    m = dict(wit.get("model", {}))
    for k in list(m):
        if k.startswith("n_") and isinstance(m[k], int) and m[k] > 6:
            m[k] = 6
    nw = NativeWorld(m)
    try:
        e = Env(nw, wit["lay"])
        r = fn(e)
        outcome = "returned " + (f"an object of type {type(r).__name__}" + (f" with dims {getattr(r, 'dims', None)}" if hasattr(r, "dims") else ""))
        raised = False
    except Exception as ex:  # noqa
        outcome = f"raised {type(ex).__name__}: {ex}"
        raised = True
    text = f"case {wit['case']} on layout {wit['lay']} (sizes {nw.consts}): real code {outcome}"
    return {"confirmed": (not raised) if not valid else raised, "text": text}
