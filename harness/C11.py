"""C11 - grid ufuncs receive padded core dims last and return declared positions.

The user function is an *uninterpreted recording function*: obligations are on what it receives
(trailing dims, sizes, padded content, rule/fill in force for every way of supplying the options)
and on how its outputs are labelled.

Functions under contract: grid_ufunc.GridUFunc.__init__/__call__, as_grid_ufunc,
apply_as_grid_ufunc, _identify_dummy_axes_with_real_axes, _substitute_dummy_axis_names,
_pad_then_rechunk, _apply, _reattach_coords, _promote_to_sequence_and_check, _check_data_input,
Grid.apply_as_grid_ufunc, padding.pad (inlined).
"""
from __future__ import annotations

import json
from typing import Annotated

import z3

from vp.world import raised_in_harness as _rih
from vp import symx, util
from vp.symx import oblige, zint
from vp.world import SymWorld, NativeWorld, model_values, evalnum
from vp.gridlib import make_layout
from contracts import spec

PROPERTY = "C11"
META = {
    "level": "proof",
    "functions_under_contract": [
        "xgcm.grid_ufunc.GridUFunc.__init__", "xgcm.grid_ufunc.GridUFunc.__call__", "xgcm.grid_ufunc.as_grid_ufunc",
        "xgcm.grid_ufunc.apply_as_grid_ufunc", "xgcm.grid.Grid.apply_as_grid_ufunc",
        "xgcm.grid_ufunc._identify_dummy_axes_with_real_axes", "xgcm.grid_ufunc._substitute_dummy_axis_names",
        "xgcm.grid_ufunc._pad_then_rechunk", "xgcm.grid_ufunc._apply", "xgcm.grid_ufunc._reattach_coords",
        "xgcm.grid_ufunc._promote_to_sequence_and_check", "xgcm.grid_ufunc._check_data_input",
        "xgcm.grid_ufunc._GridUFuncSignature.from_string / from_type_hints (run concretely on the enumerated signatures)",
        "xgcm.padding.pad", "xgcm.padding._pad_basic",
    ],
    "trusted_base": [
        "assumed xarray.apply_ufunc contract (vp/mxr.py apply_ufunc_model): core dims moved to the end in listed order, broadcast dims first in order of first appearance, outputs = broadcast dims + output_core_dims, exclude_dims lift the equal-size requirement",
        "the user function is modelled as an uninterpreted function of its index (it may compute anything)",
        "CPython executes the functions as written; proxies intercept all symbolic control flow", "z3 5.1 is sound",
        "floating-point data treated as mathematical reals (values are only copied here)",
    ],
    "assumptions": ["signatures enumerated (1-3 inputs, 1-2 outputs, 1-2 dummy axes per argument); every input carries every axis that boundary_width names",
                    "the user function returns arrays of the declared output length (it trims what was padded)"],
}

# signature catalogue: (name, signature string, [real axes per input], boundary_width (dummy keyed), outputs)
LAY = {"lon": ("center", "left", "right", "outer"), "lat": ("center", "left", "outer"), "lev": ("center", "inner")}
SIGS = {
    "1in1out": dict(sig="(X:center)->(X:left)", axis=[("lon",)], bw={"X": (1, 0)}),
    "1in1out-lat": dict(sig="(X:center)->(X:outer)", axis=[("lat",)], bw={"X": (1, 1)}),
    "2ax": dict(sig="(X:center,Y:center)->(X:left,Y:center)", axis=[("lon", "lat")], bw={"X": (1, 0), "Y": (2, 1)}),
    "2ax-swapped": dict(sig="(Y:center,X:left)->(X:center,Y:outer)", axis=[("lat", "lon")], bw={"X": (0, 1), "Y": (1, 1)}),
    "2in": dict(sig="(X:center),(X:left)->(X:center)", axis=[("lon",), ("lon",)], bw={"X": (1, 1)}),
    "2in-diffaxes": dict(sig="(X:center),(Y:center)->()", axis=[("lon",), ("lat",)], bw=None),
    "2out": dict(sig="(X:center)->(X:left),(X:right)", axis=[("lon",)], bw={"X": (1, 1)}),
    "3in": dict(sig="(A:center,B:center),(A:left,B:center),(B:outer)->(A:center,B:center)",
                axis=[("lon", "lat"), ("lon", "lat"), ("lat",)], bw={"B": (1, 0)}),
    "rebind": dict(sig="(Q:center)->(Q:left)", axis=[("lat",)], bw={"Q": (2, 0)}),
    # dummy names that are ALSO names of real axes of the grid, bound to a different real axis (dummy names are bound variables:
    # boundary_width is keyed by the dummy name, whatever real axes happen to be called)
    "crossnamed": dict(sig="(lat:center,lon:center)->(lat:left,lon:center)", axis=[("lon", "lat")], bw={"lat": (1, 0), "lon": (0, 2)}),
    "shiftnamed": dict(sig="(lon:center,lat:center)->(lon:left,lat:inner)", axis=[("lat", "lev")], bw={"lon": (1, 0), "lat": (2, 1)}),
    "rebind-named": dict(sig="(lon:center)->(lon:outer)", axis=[("lat",)], bw={"lon": (1, 2)}),
}
WAYS = ["apply", "grid-method", "decorator-def", "decorator-call", "decorator-override", "hints"]
RULES = ["fill", "extend", "periodic"]


def parse_sig(sig):
    """tiny independent reader of the catalogue's own signatures -> (in [(names,pos)], out [...])"""
    lhs, rhs = sig.split("->")

    def side(t):
        out = []
        for arg in t.strip()[1:-1].split("),(") if t.strip() not in ("()",) else [""]:
            pairs = [p for p in arg.split(",") if p]
            out.append(([p.split(":")[0] for p in pairs], [p.split(":")[1] for p in pairs]))
        return out
    return side(lhs), side(rhs)


def sid(d):
    keys = ("sig", "way", "rule", "fillmode", "pad_before", "extra", "canary", "mispos", "lazy", "dask_def", "dask_call")
    return ";".join(f"{k}={json.dumps(d[k])}" for k in keys if d.get(k) is not None).replace('"', "")


def structures(tier, seed):
    out = []

    def add(**k):
        d = dict(sig="1in1out", way="apply", rule="fill", fillmode="scalar", pad_before=True, extra=1, canary=None)
        d.update(k)
        d["sid"] = sid(d)
        out.append(d)
    for name in SIGS:
        for way in WAYS:
            for rule in (RULES if (tier == "thorough" or name in ("1in1out", "2ax")) else ["fill"]):
                if SIGS[name]["bw"] is None and way != "apply":
                    continue
                add(sig=name, way=way, rule=rule)
    for name in ("1in1out", "2ax", "2in"):
        add(sig=name, way="apply", rule="fill", fillmode="mapping")
        add(sig=name, way="decorator-def", rule="fill", fillmode="mapping")
        add(sig=name, way="apply", rule=None, fillmode=None)  # grid defaults
        add(sig=name, way="apply", rule="extend", extra=0)
    add(sig="1in1out-lat", way="apply", rule="fill", pad_before=False)
    add(sig="1in1out-lat", way="decorator-def", rule="extend", pad_before=False)
    add(sig="1in1out-lat", way="decorator-call", rule="fill", pad_before=False)
    # inputs not located on the positions the signature names are rejected: every input x every signature axis of it moved elsewhere
    for name in SIGS:
        ins_, _ = parse_sig(SIGS[name]["sig"])
        for i, (names_, _) in enumerate(ins_):
            for j in range(len(names_)):
                for alt in (0, 1):
                    add(sig=name, way=("apply", "decorator-call", "grid-method")[(i + j + alt) % 3], rule="fill", mispos=[i, j, alt])
    # lazy inputs and the `dask` option, bound at definition and / or given at call time (effective value: call, else definition, else 'forbidden')
    for name in ("1in1out", "2ax"):
        for ddef, dcall in (("parallelized", None), (None, "parallelized"), ("forbidden", "parallelized"), ("parallelized", "forbidden"), (None, None), ("allowed", None)):
            add(sig=name, way="decorator-def", rule="fill", lazy=True, dask_def=ddef, dask_call=dcall)
    add(sig="2ax", way="apply", rule="fill", canary="width-off-by-one")
    add(sig="2in", way="apply", rule="extend", canary="wrong-input-order")
    return out


def scenario(s, w):
    import xgcm
    from xgcm import grid_ufunc as GU

    cfg = SIGS[s["sig"]]
    ins, outs = parse_sig(cfg["sig"])
    layout = make_layout(LAY)
    ns = {a: w.size(f"n_{a}", 3) for a in LAY}
    dims = {}
    for a in LAY:
        for pos, d in layout[a].items():
            dims[d] = spec.len_pos(pos, ns[a]) if w.native else symx.mk_int(spec.len_pos(pos, zint(ns[a])))
    ex = [f"e{k}" for k in range(s["extra"])]
    for d in ex:
        dims[d] = w.size(f"n_{d}", 1)
    ds = w.dataset(dims, coords={d: (d,) for d in dims})
    gfill = w.real("gfill")
    g = w.grid(ds, layout, periodic=False, boundary={"lon": "extend", "lat": "fill", "lev": "periodic"}, fill_value=gfill)
    # dummy -> real binding by first appearance over the inputs (from the statement)
    bind = {}
    for (names, _), real in zip(ins, cfg["axis"]):
        for dn, rn in zip(names, real):
            bind.setdefault(dn, rn)
    # inputs
    args = []
    for i, ((names, poss), real) in enumerate(zip(ins, cfg["axis"])):
        core = [layout[rn][p] for rn, p in zip(real, poss)]
        mp = s.get("mispos")
        if mp and mp[0] == i:
            # this input carries ONE of its signature axes on another position than the signature names
            j = mp[1]
            other = [q for q in LAY[real[j]] if q != poss[j]][mp[2] % (len(LAY[real[j]]) - 1)]
            core[j] = layout[real[j]][other]
        # non-core dims: the extra dims first, and the other bound axes this input does not have stay absent
        adims = ex[:1] + core[::-1] + ex[1:]
        lazy = {d: (dims[d],) for d in adims} if s.get("lazy") else None
        args.append(w.array(f"D{i}", adims, ds, with_coords=True, dask=lazy))
    out_core = [[layout[bind[dn]][p] for dn, p in zip(names, poss)] for names, poss in outs]
    bw = cfg["bw"]
    bw_real = {bind[k]: v for k, v in (bw or {}).items()}
    pad_before = s["pad_before"]

    def out_shapes(arrs):
        ncore0 = len(ins[0][0])
        lead = list(arrs[0].shape[: len(arrs[0].shape) - ncore0])
        shapes = []
        for oc in out_core:
            sz = []
            for d in oc:
                n = dims[d]
                if not pad_before:
                    a = next(k for k, v in layout.items() if d in v.values())
                    lo, hi = bw_real.get(a, (0, 0))
                    n = n - lo - hi
                sz.append(n)
            shapes.append(lead + sz)
        return shapes
    # rule / fill options
    rule, fillmode = s["rule"], s["fillmode"]
    axes_used = sorted(set(bind.values()))
    cf = None
    if fillmode == "scalar":
        cf = w.real("cfill")
    elif fillmode == "mapping":
        cf = {a: w.real(f"cfill_{a}") for a in axes_used[:1]}
    opts = {}
    if rule is not None:
        opts["boundary"] = rule
    if cf is not None:
        opts["fill_value"] = cf
    if not pad_before:
        opts["pad_before_func"] = False
    way = s["way"]
    axis = [tuple(a) for a in cfg["axis"]]
    annotations = None
    if way == "hints":
        import numpy as np
        annotations = {}
        for i, (names, poss) in enumerate(ins):
            annotations[f"a{i}"] = Annotated[np.ndarray, ",".join(f"{n}:{p}" for n, p in zip(names, poss))]
        rets = [Annotated[np.ndarray, ",".join(f"{n}:{p}" for n, p in zip(names, poss))] for names, poss in outs]
        import typing
        annotations["return"] = rets[0] if len(rets) == 1 else typing.Tuple[tuple(rets)]
    f = w.userfunc("F", out_shapes, annotations)
    if way == "hints":
        # type hints need real parameter names
        import types
        pass
    eff = dict(opts)
    if s.get("lazy"):
        # the dask option bound at definition time acts as if passed at call time; the call-time value overrides it
        ddef, dcall = s.get("dask_def"), s.get("dask_call")
        uf = GU.as_grid_ufunc(signature=cfg["sig"], boundary_width=bw, **opts, **({"dask": ddef} if ddef else {}))(f)
        res = uf(g, *args, axis=axis, **({"dask": dcall} if dcall else {}))
    elif way == "apply":
        res = GU.apply_as_grid_ufunc(f, *args, axis=axis, grid=g, signature=cfg["sig"], boundary_width=bw, **opts)
    elif way == "grid-method":
        res = g.apply_as_grid_ufunc(f, *args, axis=axis, signature=cfg["sig"], boundary_width=bw, **opts)
    elif way == "decorator-def":
        uf = GU.as_grid_ufunc(signature=cfg["sig"], boundary_width=bw, **opts)(f)
        res = uf(g, *args, axis=axis)
    elif way == "decorator-call":
        uf = GU.as_grid_ufunc(signature=cfg["sig"])(f)
        res = uf(g, *args, axis=axis, boundary_width=bw, **opts)
    elif way == "decorator-override":
        # definition-time options are all different and must be overridden by the call-time ones
        other = {"boundary": "periodic" if rule != "periodic" else "fill", "fill_value": w.real("deffill"),
                 "pad_before_func": not pad_before}
        bw_def = {k: (v[0] + 1, v[1] + 2) for k, v in (bw or {}).items()}
        uf = GU.as_grid_ufunc(signature=cfg["sig"], boundary_width=bw_def, **other)(f)
        call = dict(opts)
        call.setdefault("boundary", "extend")
        call.setdefault("fill_value", w.real("cfill2"))
        call["pad_before_func"] = pad_before
        eff = dict(call)
        res = uf(g, *args, axis=axis, boundary_width=bw, **call)
    elif way == "hints":
        uf = GU.as_grid_ufunc(boundary_width=bw, **opts)(f)
        res = uf(g, *args, axis=axis)
    else:
        raise ValueError(way)
    return dict(res=res, args=args, f=f, g=g, layout=layout, ns=ns, dims=dims, bind=bind, ins=ins, outs=outs,
                out_core=out_core, bw_real=bw_real, gfill=gfill, eff=eff, ex=ex, cfgaxis=cfg["axis"])


GRID_RULES = {"lon": "extend", "lat": "fill", "lev": "periodic"}


def received_spec(s, r, i, canary=None):
    """what input i must look like when the user function receives it (pad-before mode)"""
    da = r["args"][i]
    names, poss = r["ins"][i]
    real = r["cfgaxis"][i]
    layout = r["layout"]
    core = [layout[rn][p] for rn, p in zip(real, poss)]
    eff = r["eff"]
    info = []
    for a, (lo, hi) in r["bw_real"].items():
        d = next((layout[a][p] for p in layout[a] if layout[a][p] in da.dims), None)
        rule = eff.get("boundary") or GRID_RULES[a]
        fv = eff.get("fill_value")
        if isinstance(fv, dict):
            fv = fv.get(a)
        fill = symx.RVx(fv) if fv is not None else symx.RVx(r["gfill"])
        if canary == "width-off-by-one":
            lo = lo + 1
        info.append((d, lo, hi, rule, fill, zint(da.sizes[d])))

    def rec(k, idx):
        if k < 0:
            return da.elem(idx)
        d, lo, hi, rule, fill, n = info[k]
        return spec.ext(rule, lambda j: rec(k - 1, {**idx, d: j}), n, idx[d] - lo, fill)
    sizes = {d: zint(da.sizes[d]) for d in da.dims}
    if s["pad_before"]:
        for d, lo, hi, *_ in info:
            sizes[d] = sizes[d] + lo + hi
        val = lambda idx: rec(len(info) - 1, idx)  # noqa
    else:
        val = lambda idx: da.elem(idx)  # noqa
    return core, sizes, val


def run_structure(s):
    mods = util.xgcm_modules()
    covers = {}
    canary = s.get("canary")

    def body():
        w = SymWorld()
        if s.get("lazy") and (s.get("dask_call") or s.get("dask_def") or "forbidden") == "forbidden":
            try:
                scenario(s, w)
                raised = None
            except (symx.EngineUnsupported, symx.InfeasiblePath, symx.PathAbort):
                raise
            except Exception as e:  # noqa
                raised = e
            covers["rejected"] = covers.get("rejected", 0) + (1 if raised is not None else 0)
            oblige("lazy-input-refused-when-the-effective-dask-option-is-forbidden", raised is not None, detail="the call returned normally")
            return "forbidden"
        if s.get("mispos"):
            try:
                scenario(s, w)
                raised = None
            except (symx.EngineUnsupported, symx.InfeasiblePath, symx.PathAbort):
                raise
            except Exception as e:  # noqa
                raised = e
            covers["rejected"] = covers.get("rejected", 0) + (1 if raised is not None else 0)
            oblige("input-not-on-the-signature's-position-is-rejected", raised is not None, detail="the call returned normally")
            return "mispos"
        try:
            r = scenario(s, w)
        except (symx.EngineUnsupported, symx.InfeasiblePath, symx.PathAbort):
            raise
        except Exception as e:  # noqa
            import traceback
            oblige("returns-normally", False, detail=f"{type(e).__name__}: {e} @ {traceback.format_exc(limit=-2)[-300:]}")
            return "raise"
        oblige("returns-normally", True)
        covers["normal-return"] = covers.get("normal-return", 0) + 1
        if s.get("lazy"):
            oblige("lazy:result-stays-lazy", all(o.dask is not None for o in (r["res"] if isinstance(r["res"], (tuple, list)) else [r["res"]])))
            oblige("lazy:no-eager-evaluation", not symx.ctx().ghost.get("eager"), detail=str(symx.ctx().ghost.get("eager")))
        f = r["f"]
        oblige("user-function-called-exactly-once", len(f.calls) == 1, detail=str(len(f.calls)))
        if len(f.calls) != 1:
            return "calls"
        arrs, kw = f.calls[0]
        oblige("user-function-gets-no-extra-kwargs", kw == {}, detail=str(kw))
        oblige("received:number-of-arrays", len(arrs) == len(r["args"]))
        for i, a in enumerate(arrs[: len(r["args"])]):
            j = i
            if canary == "wrong-input-order":
                j = len(arrs) - 1 - i
            core, sizes, val = received_spec(s, r, j, canary)
            k = len(core)
            labels = list(a.labels)
            oblige(f"received[{i}]:trailing-dims-are-signature-axes-in-order", labels[len(labels) - k:] == core,
                   detail=f"{labels} vs core {core}")
            if labels[len(labels) - k:] != core:
                continue
            for pos, d in enumerate(labels):
                if d in sizes:
                    oblige(f"received[{i}]:size:{'core' if d in core else 'lead'}{pos}", zint(a.shape[pos]) == sizes[d])
                else:
                    oblige(f"received[{i}]:size:broadcast-axis{pos}", zint(a.shape[pos]) == 1)
            p = tuple(z3.Int(f"p{n}") for n in range(len(labels)))
            rng = z3.And(*[z3.And(p[n] >= 0, p[n] < zint(a.shape[n])) for n in range(len(labels))])
            idx = {d: p[n] for n, d in enumerate(labels)}
            da = r["args"][j]
            oblige(f"received[{i}]:padded-content", z3.Implies(rng, a.elem(p) == val({d: idx[d] for d in da.dims})))
        # outputs
        res = r["res"]
        ress = res if isinstance(res, (tuple, list)) else (res,)
        oblige("outputs:count", len(ress) == len(r["outs"]), detail=f"{len(ress)}")
        lead = [d for d in r["args"][0].dims if d not in [r["layout"][rn][p] for rn, p in zip(r["cfgaxis"][0], r["ins"][0][1])]]
        for k2, (o, oc) in enumerate(zip(ress, r["out_core"])):
            oblige(f"output[{k2}]:core-dims-are-bound-axes-at-output-positions", list(o.dims)[len(o.dims) - len(oc):] == oc and set(o.dims) == set(lead) | set(oc),
                   detail=f"{o.dims} vs lead {lead} + {oc}")
            if set(o.dims) != set(lead) | set(oc):
                continue
            for d in oc:
                oblige(f"output[{k2}]:size:{d}", zint(o.sizes[d]) == zint(r["dims"][d]))
            fn = w.fields[f"F{k2}"][0]
            q = {d: z3.Int(f"q_{d}") for d in o.dims}
            rng = z3.And(*[z3.And(q[d] >= 0, q[d] < zint(o.sizes[d])) for d in o.dims])
            order = lead + oc
            if s["pad_before"]:
                want = fn(*[q[d] for d in order]) if order else fn
                oblige(f"output[{k2}]:values-are-what-the-function-returned", z3.Implies(rng, o.elem(q) == want))
            else:
                # padded after the function: ext of the returned array with the rule in force
                info = []
                for a_, (lo, hi) in r["bw_real"].items():
                    d = next((r["layout"][a_][p] for p in r["layout"][a_] if r["layout"][a_][p] in oc), None)
                    if d is None:
                        continue
                    rule = r["eff"].get("boundary") or GRID_RULES[a_]
                    fv = r["eff"].get("fill_value")
                    if isinstance(fv, dict):
                        fv = fv.get(a_)
                    fill = symx.RVx(fv) if fv is not None else symx.RVx(r["gfill"])
                    info.append((d, lo, hi, rule, fill, zint(r["dims"][d]) - lo - hi))

                def rec(k3, idx):
                    if k3 < 0:
                        return fn(*[idx[d] for d in order])
                    d, lo, hi, rule, fill, n = info[k3]
                    return spec.ext(rule, lambda j: rec(k3 - 1, {**idx, d: j}), n, idx[d] - lo, fill)
                oblige(f"output[{k2}]:values-are-the-returned-array-padded-afterwards", z3.Implies(rng, o.elem(q) == rec(len(info) - 1, dict(q))))
        for a in r["args"]:
            oblige("frame:inputs-unchanged", not a.log)
        return "ok"
    with util.patched(*util.std_patches(mods)):
        rep = symx.explore(body, s["sid"])
    obs = []
    for name, ob in rep.merged().items():
        rec = {"fn": "grid_ufunc.apply_as_grid_ufunc" if s["way"] in ("apply", "grid-method") else "grid_ufunc.GridUFunc.__call__",
               "clause": name, "status": ob.status, "time": ob.time, "detail": ob.detail}
        if ob.status == "failed":
            rec["witness"] = {"structure": dict(s), "model": model_values(ob.model)}
        if canary:
            if name.startswith("received["):
                if ob.status == "failed":
                    rec["canary"] = True
                    obs.append(rec)
            continue
        obs.append(rec)
    if canary and not any(o.get("canary") for o in obs):
        obs.append({"fn": "canary", "clause": "none-refuted", "status": "proved", "canary": True, "time": 0})
    return {"sid": s["sid"], "obligations": obs, "paths": rep.paths, "queries": rep.queries,
            "solver_time": rep.solver_time, "engine_errors": rep.engine_errors, "covers": covers}


REQUIRED_COVERS = ["normal-return"]


def replay(ob):
    """native replay: real xarray, real apply_ufunc, a real recording numpy function"""
    import warnings

    import numpy as np

    warnings.simplefilter("ignore")
    wit = ob.get("witness") or {}
    s = dict(wit["structure"])
    m = dict(wit.get("model", {}))
    for k in list(m):
        if k.startswith("n_") and isinstance(m[k], int) and m[k] > 6:
            m[k] = 6
    nw = NativeWorld(m)
    text = [f"structure {s['sid']}"]
    if s.get("mispos"):
        try:
            scenario(s, nw)
        except Exception as e:  # noqa
            return {"confirmed": False, "text": "\n".join(text + [f"rejected natively with {type(e).__name__}" + (" (raised by the harness!)" if _rih(e) else "")])}
        return {"confirmed": True, "text": "\n".join(text + [f"native parameters {nw.consts}", "REAL CODE ACCEPTED an input that is not on the position the signature names"])}
    try:
        rn = scenario(s, nw)
    except Exception as e:  # noqa
        import traceback
        text.append(f"native parameters {nw.consts}")
        text.append(f"REAL CODE RAISED {type(e).__name__}: {e}")
        text.append(traceback.format_exc(limit=-3))
        return {"confirmed": not _rih(e), "text": "\n".join(text)}
    text.append(f"native parameters {nw.consts}")
    mods = util.xgcm_modules()
    symx.CUR = symx.Ctx([])
    try:
        sw = SymWorld()
        with util.patched(*util.std_patches(mods)):
            from xgcm import grid_ufunc as GU
            import xgcm.grid as GR
            stub = lambda *a, **k: None  # noqa
            with util.patched((GU, "apply_as_grid_ufunc", stub)):
                rs = scenario(s, sw)
    finally:
        symx.CUR = None
    bad = []
    f = rn["f"]
    if len(f.calls) != 1:
        bad.append(f"user function called {len(f.calls)} times")
    else:
        arrs, kw = f.calls[0]
        subs = nw.numconsts(sw)
        funs = nw.numfuns(sw)
        for i, a in enumerate(arrs):
            core, sizes, val = received_spec(s, rs, i)
            da = rs["args"][i]
            # leading dims: broadcast dims in order of first appearance over the inputs
            lead = []
            for x, (names, poss), real in zip(rs["args"], rs["ins"], rs["cfgaxis"]):
                cr = [rs["layout"][rn_][p] for rn_, p in zip(real, poss)]
                for d in x.dims:
                    if d not in cr and d not in lead:
                        lead.append(d)
            labels = lead + core
            a = np.asarray(a)
            if a.ndim != len(labels):
                bad.append(f"input {i}: received rank {a.ndim}, expected dims {labels}")
                continue
            want_shape = tuple(evalnum(sizes[d], subs, []) if d in sizes else a.shape[n] for n, d in enumerate(labels))
            if tuple(a.shape) != want_shape:
                bad.append(f"input {i}: received shape {a.shape} for dims {labels}, the statement prescribes {want_shape}")
                continue
            import itertools
            for pos in itertools.product(*[range(n) for n in a.shape]):
                idx = {d: z3.IntVal(p) for d, p in zip(labels, pos) if d in da.dims}
                want = evalnum(val(idx), subs, funs)
                if abs(float(a[pos]) - want) > 1e-9 * max(1, abs(want)):
                    bad.append(f"input {i}: received{list(pos)} (dims {labels}) = {float(a[pos])!r}, expected {want!r}")
                    break
    res = rn["res"]
    ress = res if isinstance(res, (tuple, list)) else (res,)
    for k2, (o, oc) in enumerate(zip(ress, rn["out_core"])):
        if list(o.dims)[len(o.dims) - len(oc):] != oc:
            bad.append(f"output {k2}: dims {o.dims}, expected core dims {oc} last")
    if bad:
        text.append("REAL CODE DISAGREES WITH THE SPECIFICATION:")
        text += bad[:10]
        return {"confirmed": True, "text": "\n".join(text)}
    text.append("real code agrees with the specification on this input (model not confirmed natively)")
    return {"confirmed": False, "text": "\n".join(text)}
