"""C03 - scalar operations are invariant to how the domain is cut into faces.

Composition of contracts:
  (1) C05  : pad() on a face-connected grid = interior + halo cells taken from the documented source cell
  (2) here : DISPATCH - the real Grid.diff/interp/min/max on a face-connected grid equals the stencil
             applied to what the real pad() returns for the ufunc's boundary_width (relational, for a
             generic face of a table of any size, all sizes/data symbolic)
  (3) here : GEOMETRY LEMMA (z3 over the specification only) - place face f with the identity
             orientation and a neighbour g with any of the 8 orientations of the square against any of
             f's 4 edges; for each of the 4 link kinds there is exactly ONE orientation for which the
             documented source cell is the affine continuation of f's own cell lattice into g, i.e. the
             halo value equals the undivided field there; and the link the reciprocity rule (C17) puts
             into g's table then does the same for g.  Junctions with the other orientations are not
             expressible in the face_connections format (outside the property).
  (1)+(2)+(3) + C01's stencil contract: every face computes the values of the undivided domain (in its
  own orientation); unlinked edges follow the ordinary boundary rule (C05 open-edge clause).
"""
from __future__ import annotations

import itertools
import time

import z3

from vp import symx, util
from vp.symx import oblige, zint
from vp.world import model_values
from contracts import spec
from harness import C05

PROPERTY = "C03"
META = {
    "level": "proof",
    "functions_under_contract": ["xgcm.grid.Grid.diff/interp/min/max on a face-connected grid (Grid._1d_grid_ufunc_dispatch, apply_as_grid_ufunc, _pad_then_rechunk, pad, _pad_face_connections, _apply, _reattach_coords)",
                                 "lemma over the C05 link semantics (contracts/spec.py: link_source) and the C17 reciprocity rule"],
    "trusted_base": ["C05 (halo = documented cell) and C01 (stencil on the padded window) are proved separately; this check composes them", "xarray / numpy models of vp/mxr.py",
                     "generic-face rule (loop independence checked by C05's side condition)", "z3 5.1 is sound", "floats as reals"],
    "bounded_standins": ["native cross-check: for each of the 16 (edge, link kind) pairs a 4x4-cell two-face domain cut out of random undivided fields, all 4 operators, compared with the undivided result on the real code"],
    "assumptions": ["faces are square N x N, N >= 2", "face f is placed with the identity orientation (any other placement differs by a rigid motion of the whole domain, under which the statement is invariant)",
                    "junctions whose relative orientation has no matching link kind are not expressible in the format and are outside the property"],
}

OPS = ["diff", "interp", "min", "max"]
# the 8 orientations of the square acting on local cell coordinates (i, j) in [0, N)^2 -> (a, b) in [0, N)^2
D4 = {
    "identity": lambda i, j, N: (i, j), "mirror-x": lambda i, j, N: (N - 1 - i, j), "mirror-y": lambda i, j, N: (i, N - 1 - j), "rot180": lambda i, j, N: (N - 1 - i, N - 1 - j),
    "transpose": lambda i, j, N: (j, i), "rot+90": lambda i, j, N: (j, N - 1 - i), "rot-90": lambda i, j, N: (N - 1 - j, i), "anti-transpose": lambda i, j, N: (N - 1 - j, N - 1 - i),
}
INV = {"identity": "identity", "mirror-x": "mirror-x", "mirror-y": "mirror-y", "rot180": "rot180", "transpose": "transpose", "rot+90": "rot-90", "rot-90": "rot+90", "anti-transpose": "anti-transpose"}


def structures(tier, seed):
    out = [{"sid": "lemma;geometry", "part": "lemma"}, {"sid": "native;two-face-domains-vs-undivided[bounded]", "part": "native"}]
    for a, side in itertools.product(("X", "Y"), (0, 1)):
        for lk in C05.LINK_KINDS:
            out.append({"sid": f"padscalar;{a}{'lr'[side]}:{lk[0]}{'-rev' if lk[1] else ''}", "part": "padscalar", "entry": {f"{a}{side}": list(lk)}, "bw": [a], "rules": {"X": "extend", "Y": "fill"}})
    for a in ("X", "Y"):
        for lkL, lkR in itertools.product(C05.LINK_KINDS, repeat=2):
            if lkL != lkR or tier == "thorough":
                out.append({"sid": f"padscalar;{a}l:{lkL[0]}{'-rev' if lkL[1] else ''}+{a}r:{lkR[0]}{'-rev' if lkR[1] else ''}", "part": "padscalar",
                            "entry": {f"{a}0": list(lkL), f"{a}1": list(lkR)}, "bw": ["X", "Y"], "rules": {"X": "fill", "Y": "periodic"}, "extra": "after"})
    shapes = []
    for op in OPS:
        shifts = [("center", "left"), ("center", "right"), ("left", "center"), ("center", "outer")]
        if tier != "quick":
            shifts = [(p, "center") for p in ("left", "right")] + [("center", p) for p in ("left", "right", "outer", "inner")]
        for (pf, pt) in shifts:
            shapes.append((op, pf, pt))
    links = [{("X", 1): ("same", False)}, {("X", 0): ("swap", False), ("X", 1): ("same", True)}, {("X", 0): ("swap", True)}, {}]
    k = 0
    for (op, pf, pt) in shapes:
        for extra in ("none", "before", "after"):
            ent = links[k % len(links)]
            k += 1
            if tier == "quick" and extra != "none" and op not in ("diff",):
                continue
            out.append({"sid": f"dispatch;op={op};{pf}->{pt};links={sorted((a + 'lr'[s_], kk[0] + ('-rev' if kk[1] else '')) for (a, s_), kk in ent.items())};extra={extra}",
                        "part": "dispatch", "op": op, "pf": pf, "pt": pt, "entry": {f"{a}{s_}": list(kk) for (a, s_), kk in ent.items()}, "extra": extra})
    return out


# ------------------------------------------------------------------------------------------------ lemma
def run_lemma(s):
    obs = []
    G = z3.Function("G", z3.IntSort(), z3.IntSort(), symx.Val)   # the undivided field, G(X, Y) at global cell (X, Y)
    N, k, t = z3.Ints("N k t")
    base = [N >= 2, k >= 1, k <= N, t >= 0, t < N]
    nq = 0
    t0 = time.time()
    table = {}
    for axis, side in itertools.product(("X", "Y"), (0, 1)):
        # neighbour block: g's cells are at global (ox + a, oy + b)
        ox, oy = {("X", 1): (N, 0), ("X", 0): (-N, 0), ("Y", 1): (0, N), ("Y", 0): (0, -N)}[(axis, side)]
        # the halo cell of f at depth k, along-edge t, continued into the global lattice
        if axis == "X":
            gx = (N - 1 + k) if side else (-k)
            gy = t
        else:
            gy = (N - 1 + k) if side else (-k)
            gx = t
        for lk, rev in C05.LINK_KINDS:
            same = lk == "same"
            src_axis = axis if same else C05.OTHER[axis]
            c, tt = spec.link_source(N, side == 1, same, rev, k, t)
            i, j = (c, tt) if src_axis == "X" else (tt, c)   # local (x, y) of the documented source cell in g
            matches = []
            for oname, R in D4.items():
                a, b = R(i, j, N)
                sol = z3.Solver()
                sol.add(*base)
                # the documented source cell must lie on the undivided lattice exactly where f's halo cell is
                sol.add(z3.Not(z3.And(ox + a == gx, oy + b == gy)))
                nq += 1
                if sol.check() == z3.unsat:
                    matches.append(oname)
            tag = f"{axis}-{'right' if side else 'left'};{lk}{'-rev' if rev else ''}"
            obs.append({"fn": "lemma", "clause": f"exactly-one-orientation-matches:{tag}", "status": "proved" if len(matches) == 1 else "failed", "time": 0,
                        "detail": f"orientation(s) {matches}"})
            if len(matches) != 1:
                continue
            oname = matches[0]
            table[tag] = oname
            R = D4[oname]
            # halo VALUE: data of g is the undivided field seen through its placement
            a, b = R(i, j, N)
            sol = z3.Solver()
            sol.add(*base)
            Dg = G(ox + a, oy + b)           # D(g, y=j, x=i)
            sol.add(Dg != G(gx, gy))
            nq += 1
            obs.append({"fn": "lemma", "clause": f"halo-value==undivided-field-at-the-continued-cell:{tag}", "status": "proved" if sol.check() == z3.unsat else "failed", "time": 0, "detail": f"g oriented {oname}"})
            # reciprocity (C17): g's table holds at [src_axis][side'] the link (f, axis, rev), side' = side if rev else 1 - side
            side2 = side if rev else 1 - side
            k2, t2 = z3.Ints("k2 t2")
            c2, tt2 = spec.link_source(N, side2 == 1, same, rev, k2, t2)
            fi, fj = (c2, tt2) if axis == "X" else (tt2, c2)     # documented source cell in f (identity: global (fi, fj))
            # g's halo cell at depth k2, along-edge t2 of its src_axis edge side2, continued affinely through g's placement
            if src_axis == "X":
                hi = (N - 1 + k2) if side2 else (-k2)
                hj = t2
            else:
                hj = (N - 1 + k2) if side2 else (-k2)
                hi = t2
            ha, hb = R(hi, hj, N)            # affine continuation of g's placement map
            sol = z3.Solver()
            sol.add(N >= 2, k2 >= 1, k2 <= N, t2 >= 0, t2 < N)
            sol.add(z3.Not(z3.And(ox + ha == fi, oy + hb == fj)))
            nq += 1
            obs.append({"fn": "lemma", "clause": f"reciprocal-link-serves-the-neighbour-symmetrically:{tag}", "status": "proved" if sol.check() == z3.unsat else "failed", "time": 0,
                        "detail": f"g's {src_axis}-{'right' if side2 else 'left'} link back to f"})
    # every edge has exactly 4 expressible orientations, pairwise different
    for axis, side in itertools.product(("X", "Y"), (0, 1)):
        tags = [v for kk, v in table.items() if kk.startswith(f"{axis}-{'right' if side else 'left'};")]
        obs.append({"fn": "lemma", "clause": f"four-distinct-expressible-orientations:{axis}-{'right' if side else 'left'}", "status": "proved" if len(set(tags)) == 4 else "failed", "time": 0, "detail": str(tags)})
    # canary: a wrong mirror rule (no tangential flip for swapped non-reversed links) must break the lemma
    c, tt = spec.link_source(N, True, False, False, k, t)
    a, b = D4["rot+90"](t, c, N)   # wrong: tt replaced by t
    sol = z3.Solver()
    sol.add(*base)
    sol.add(z3.Not(z3.And(N + a == N - 1 + k, b == t)))
    obs.append({"fn": "canary", "clause": "missing-mirror-breaks-the-lemma", "status": "failed" if sol.check() == z3.sat else "proved", "canary": True, "time": 0})
    dt = time.time() - t0
    return {"sid": s["sid"], "obligations": obs, "paths": 0, "queries": nq, "solver_time": dt, "engine_errors": [], "covers": {"lemma": 1}, "counts": {"orientation_table": len(table)}}


# ------------------------------------------------------------------------------------------------ dispatch
def run_dispatch(s):
    mods = util.xgcm_modules()
    P = mods["padding"]
    entry = {(k[0], int(k[1])): tuple(v) for k, v in s["entry"].items()}
    s5 = C05.mk(None, entry, ("X",), {"X": "extend", "Y": "fill"}, s["extra"])
    s5["conn"] = tuple(sorted(set(s5["conn"]) | {"X"}))
    covers = {}
    pf, pt, op = s["pf"], s["pt"], s["op"]

    def body():
        import xgcm
        from xgcm.axis import Axis
        from vp.mxr import MDataset
        b = C05.build(s5)
        c = symx.ctx()
        N, F = b["N"], b["F"]
        # a real Grid whose X axis has the two positions of the shift; the ghost table is injected afterwards
        poss = {"center": "x", "left": "xl", "right": "xr", "outer": "xo", "inner": "xi"}
        xpos = {p: poss[p] for p in dict.fromkeys(("center", pf, pt))}
        dims = {"y": N, "yl": N, "face": F, "t": b["esz"]["t"], "z": b["esz"]["z"]}
        for p, d in xpos.items():
            dims[d] = symx.mk_int(spec.len_pos(p, zint(N)))
        ds = MDataset(dims)
        g = xgcm.Grid(ds, coords={"X": xpos, "Y": {"center": "y", "left": "yl"}}, periodic=False, boundary={"X": "extend", "Y": "fill"}, autoparse_metadata=False)
        g._facedim = "face"
        g._face_connections = b["grid"]._face_connections
        # data on the from-position of X (square faces: only center/left/right have N points)
        xd = xpos[pf]
        da0 = b["da"]
        da = da0.rename({"x": xd}) if xd != "x" else da0
        if pf in ("outer", "inner"):
            raise symx.PathAbort("faces must be square")
        try:
            res = getattr(g, op)(da, "X", to=pt)
        except (symx.EngineUnsupported, symx.InfeasiblePath, symx.PathAbort):
            raise
        except Exception as e:  # noqa
            import traceback
            oblige("returns-normally", False, detail=f"{type(e).__name__}: {e} @ {traceback.format_exc(limit=-2)[-300:]}")
            return
        oblige("returns-normally", True)
        covers["returned"] = covers.get("returned", 0) + 1
        # what the real pad() gives for the width the predefined ufunc declares
        import xgcm.gridops as ops
        uf = getattr(ops, f"{op}_{pf}_to_{pt}")
        bw = {"X": tuple(uf.boundary_width["X"])}
        c.ghost.pop("generic", None)
        padded = P.pad(da, g, boundary_width=bw, boundary=None, fill_value=None)
        gen2 = c.ghost.get("generic")
        dto = xpos[pt]
        want_dims = [dto if d == xd else d for d in da.dims]
        oblige("dims:input-order-with-axis-dim-replaced", tuple(res.dims) == tuple(want_dims), detail=f"{res.dims} vs {want_dims}")
        if set(res.dims) != set(want_dims):
            return
        q = {d: z3.Int(f"q_{d}") for d in res.dims}
        fi = z3.Int("q_face")
        rng = z3.And(*[z3.And(q[d] >= 0, q[d] < zint(res.sizes[d])) for d in res.dims])
        oblige(f"size:{dto}", zint(res.sizes[dto]) == spec.len_pos(pt, zint(N)))
        # stencil on the padded window: out[j] = op(padded[j], padded[j+1])   (C01 contract of the ufunc body)
        j = q[dto]
        base_idx = {d: q[d] for d in res.dims if d != dto}
        lo = padded.elem({**base_idx, xd: j})
        hi = padded.elem({**base_idx, xd: j + 1})
        oblige("padded-length-fits-the-stencil", zint(padded.sizes[xd]) == spec.len_pos(pt, zint(N)) + 1)
        oblige("result==stencil-of-what-pad-returns(every face of any table)", z3.Implies(rng, res.elem(q) == spec.opterm(op, lo, hi)))
    with util.patched(*util.std_patches(mods, sets=True)):
        rep = symx.explore(body, s["sid"])
    obs = []
    for name, ob in rep.merged().items():
        rec = {"fn": f"grid.Grid.{op}[face-connected]", "clause": name, "status": ob.status, "time": ob.time, "detail": ob.detail}
        if ob.status == "failed":
            rec["witness"] = {"part": "dispatch", "s": {k: v for k, v in s.items()}, "model": {k: v for k, v in model_values(ob.model).items() if k != "__funcs__"}}
        obs.append(rec)
    return {"sid": s["sid"], "obligations": obs, "paths": rep.paths, "queries": rep.queries, "solver_time": rep.solver_time, "engine_errors": rep.engine_errors, "covers": covers}


def run_native(s):
    """bounded cross-check of the whole chain on the REAL code: a 2-face domain cut out of a random undivided field,
    neighbour placed with the orientation the lemma assigns to each (edge, link kind); face result vs undivided result"""
    import re
    lem = run_lemma({"sid": "l"})
    tab = {o["clause"].split(":", 1)[1]: re.findall(r"'([^']+)'", o["detail"]) for o in lem["obligations"] if o["clause"].startswith("exactly-one")}
    obs = []
    n = 0
    for axis, side in itertools.product(("X", "Y"), (0, 1)):
        for lk, rev in C05.LINK_KINDS:
            tag = f"{axis}-{'right' if side else 'left'};{lk}{'-rev' if rev else ''}"
            if len(tab.get(tag, [])) != 1:
                continue
            on = tab[tag][0]
            bad = []
            for op in OPS:
                for seed in (0, 1):
                    ok, res, sub = native_domain_check(op, on, axis, side, lk, rev, seed=seed)
                    n += 1
                    if not ok:
                        bad.append(op)
            wrong_detected = True
            if side == 0:
                wrong = [o for o in D4 if o != on][0]
                wrong_detected = not native_domain_check("diff", wrong, axis, side, lk, rev)[0]
                n += 1
            obs.append({"fn": "grid.Grid.<op>[native, 2 faces]", "clause": f"face-result==undivided-result:{tag}", "status": "proved" if not bad and wrong_detected else "failed", "time": 0,
                        "detail": f"neighbour oriented {on}" + (f"; mismatching ops {bad}" if bad else "") + ("" if wrong_detected else "; a wrong orientation was not noticed"),
                        "witness": {"part": "native", "tag": tag, "orientation": on}})
    return {"sid": s["sid"], "obligations": obs, "paths": 0, "queries": 0, "solver_time": 0.0, "engine_errors": [], "covers": {"native": 1}, "counts": {"bounded_standin_evaluations": n}}


def run_padscalar(s):
    """the C05 contract of the real padding code for scalar inputs, re-proved here (C03 = C05 o C01 o lemma): every link
    kind on every slot and every pair of different kinds on the two sides of an axis"""
    s5 = C05.mk(None, {(k[0], int(k[1])): tuple(v) for k, v in s["entry"].items()}, tuple(s["bw"]), dict(s["rules"]), s.get("extra", "none"))
    r = C05.run_structure(s5)
    r["sid"] = s["sid"]
    for o in r["obligations"]:
        o["fn"] = "padding._pad_face_connections[scalar]"
    r["covers"] = {"padscalar": 1}
    return r


def run_structure(s):
    return {"lemma": run_lemma, "dispatch": run_dispatch, "native": run_native, "padscalar": run_padscalar}[s["part"]](s)


REQUIRED_COVERS = ["lemma", "returned", "padscalar"]


# ------------------------------------------------------------------------------------------------ native replay
def native_domain_check(op, orient_name, axis, side, lk, rev, pf="center", pt=None, N=4, seed=0):
    """build a 2-face domain natively (f identity, g oriented) and compare the face result with the undivided one"""
    import warnings

    import numpy as np
    import xarray as xr
    import xgcm
    warnings.simplefilter("ignore")
    rng = np.random.default_rng(seed)
    ox, oy = {("X", 1): (N, 0), ("X", 0): (-N, 0), ("Y", 1): (0, N), ("Y", 0): (0, -N)}[(axis, side)]
    X0, Y0 = min(0, ox), min(0, oy)
    W, H = (2 * N, N) if axis == "X" else (N, 2 * N)
    Gf = rng.random((H, W))      # Gf[Y - Y0, X - X0]
    R = D4[orient_name]
    f = np.array([[Gf[j - Y0, i - X0] for i in range(N)] for j in range(N)])
    gdat = np.zeros((N, N))
    for j in range(N):
        for i in range(N):
            a, b = R(i, j, N)
            gdat[j, i] = Gf[oy + b - Y0, ox + a - X0]
    src_axis = axis if lk == "same" else C05.OTHER[axis]
    side2 = side if rev else 1 - side
    tab = {0: {"X": [None, None], "Y": [None, None]}, 1: {"X": [None, None], "Y": [None, None]}}
    tab[0][axis][side] = (1, src_axis, rev)
    tab[1][src_axis][side2] = (0, axis, rev)
    tab = {fk: {a: tuple(v) for a, v in d.items()} for fk, d in tab.items()}
    ds = xr.Dataset(coords={"x": np.arange(N), "xl": np.arange(N), "y": np.arange(N), "yl": np.arange(N), "face": np.arange(2)})
    grid = xgcm.Grid(ds, coords={"X": {"center": "x", "left": "xl"}, "Y": {"center": "y", "left": "yl"}}, periodic=False, boundary="fill", fill_value=0.0,
                     face_connections={"face": tab}, autoparse_metadata=False)
    da = xr.DataArray(np.stack([f, gdat]), dims=("face", "y", "x"))
    res = getattr(grid, op)(da, axis, to="left", boundary="fill", fill_value=0.0).isel(face=0).values
    dsu = xr.Dataset(coords={"x": np.arange(W), "xl": np.arange(W), "y": np.arange(H), "yl": np.arange(H)})
    gu = xgcm.Grid(dsu, coords={"X": {"center": "x", "left": "xl"}, "Y": {"center": "y", "left": "yl"}}, periodic=False, boundary="fill", fill_value=0.0, autoparse_metadata=False)
    ru = getattr(gu, op)(xr.DataArray(Gf, dims=("y", "x")), axis, to="left", boundary="fill", fill_value=0.0).values
    sub = ru[0 - Y0:0 - Y0 + N, 0 - X0:0 - X0 + N]
    if side == 0:
        return np.allclose(res, sub), res, sub
    # right-side links are seen by center->left only through the neighbour's own halo; compare the neighbour-free part
    return np.allclose(res[:, 1:] if axis == "X" else res[1:, :], sub[:, 1:] if axis == "X" else sub[1:, :]), res, sub


def native_dispatch_replay(op, pf, pt, entry, kind, N=4):
    """real code, real xarray: Grid.<op> on a two-face grid whose face 0 has the given links (face 1 reciprocates) against
    the stencil applied to what the real pad() returns"""
    import warnings

    import numpy as np
    import xarray as xr
    import xgcm
    import xgcm.gridops as ops
    warnings.simplefilter("ignore")
    rng = np.random.default_rng(0)
    tab = {0: {"X": [None, None], "Y": [None, None]}, 1: {"X": [None, None], "Y": [None, None]}}
    for (a, side), (lk, rev) in entry.items():
        sa = a if lk == "same" else C05.OTHER[a]
        s2 = side if rev else 1 - side
        if tab[1][sa][s2] is not None:
            continue
        tab[0][a][side] = (1, sa, rev)
        tab[1][sa][s2] = (0, a, rev)
    tab = {f: {a: tuple(v) for a, v in d.items()} for f, d in tab.items()}
    pos = {"center": "x", "left": "xl", "right": "xr"}
    xpos = {p: pos[p] for p in dict.fromkeys(("center", pf, pt)) if p in pos}
    if pf not in pos or pt not in pos:
        return {"confirmed": False, "text": "shift involves inner/outer (faces must be square): no native replay"}
    ds = xr.Dataset(coords={**{d: np.arange(N) for d in xpos.values()}, "y": np.arange(N), "yl": np.arange(N), "face": np.arange(2)})
    g = xgcm.Grid(ds, coords={"X": xpos, "Y": {"center": "y", "left": "yl"}}, periodic=False, boundary={"X": "extend", "Y": "fill"}, face_connections={"face": tab}, autoparse_metadata=False)
    xd = xpos[pf]
    text = [f"two faces, table {tab}"]
    try:
        if kind is None:
            da = xr.DataArray(rng.random((2, N, N)), dims=("face", "y", xd))
            res = getattr(g, op)(da, "X", to=pt)
            bw = {"X": tuple(getattr(ops, f"{op}_{pf}_to_{pt}").boundary_width["X"])}
            padded = xgcm.padding.pad(da, g, boundary_width=bw, boundary=None, fill_value=None)
            axis_dim = xd
        else:
            u = xr.DataArray(rng.random((2, N, N)), dims=("face", "y", "xl"))
            v = xr.DataArray(rng.random((2, N, N)), dims=("face", "yl", "x"))
            comp, part, axis_dim = (u, v, "xl") if kind == "X" else (v, u, "yl")
            res = getattr(g, op)({kind: comp}, kind, to="center", other_component={C05.OTHER[kind]: part})
            padded = xgcm.padding.pad({kind: comp}, g, boundary_width={kind: (0, 1)}, boundary=None, fill_value=None, other_component={C05.OTHER[kind]: part})
        p = padded.transpose(..., axis_dim).values
        lo, hi = p[..., :-1], p[..., 1:]
        want = {"diff": hi - lo, "interp": (lo + hi) / 2, "min": np.minimum(lo, hi), "max": np.maximum(lo, hi)}[op]
        newdim = [d for d in res.dims if d not in padded.dims][0]
        got = res.transpose(..., newdim).values
        if got.shape != want.shape or not np.allclose(got, want):
            return {"confirmed": True, "text": "\n".join(text + [f"grid.{op} differs from the stencil applied to what pad() returns"])}
        return {"confirmed": False, "text": "\n".join(text + ["agrees natively"])}
    except Exception as e:  # noqa
        return {"confirmed": True, "text": "\n".join(text + [f"real code raised {type(e).__name__}: {e}"])}


def replay(ob):
    wit = ob.get("witness") or {}
    if "structure" in wit and "part" not in wit:
        from harness import native_pad
        return native_pad.replay_face(ob)
    if wit.get("part") == "native":
        return {"confirmed": True, "text": f"two-face domain, link {wit['tag']}, neighbour oriented {wit['orientation']}: the face result differs from the undivided result on the real code"}
    if wit.get("part") == "dispatch":
        s = wit["s"]
        return native_dispatch_replay(s["op"], s["pf"], s["pt"], {(k[0], int(k[1])): tuple(v) for k, v in s["entry"].items()}, None)
    return {"confirmed": False, "text": "lemma over the specification (no code involved)"}
