"""[bounded] real xarray + real dask: Grid.transform on data chunked over NON-axis dimensions builds its result without computing
and computes to the in-memory result (the 'columns are independent ... dask chunking over them changes nothing' clauses of C07/C08)."""
from __future__ import annotations

import time


def dask_equivalence(methods, seed, n_cases):
    import warnings

    import numpy as np
    import xarray as xr
    import xgcm
    from dask.callbacks import Callback

    warnings.simplefilter("ignore")

    class Count(Callback):
        n = 0

        def _start(self, dsk):
            Count.n += 1
    rng = np.random.default_rng(300 + seed)
    bad, ncmp = [], 0
    t0 = time.time()
    for case in range(n_cases):
        nz, nx, nt = int(rng.integers(3, 6)), int(rng.integers(2, 5)), int(rng.integers(2, 4))
        ds = xr.Dataset(coords={"z_c": np.arange(nz), "z_o": np.arange(nz + 1), "x_c": np.arange(nx), "t": np.arange(nt)})
        g = xgcm.Grid(ds, coords={"Z": {"center": "z_c", "outer": "z_o"}, "X": {"center": "x_c"}}, periodic=False, autoparse_metadata=False)
        da = xr.DataArray(rng.random((nt, nz, nx)) + 0.5, dims=("t", "z_c", "x_c"), name="PHI")
        method = methods[case % len(methods)]
        if method == "conservative":
            td = xr.DataArray(np.sort(rng.random((nt, nz + 1, nx)) * 4 + 0.5, axis=1), dims=("t", "z_o", "x_c"), name="TD")
            if case % 3 == 0:
                td = xr.DataArray(np.sort(rng.random((nt, nz, nx)) * 4 + 0.5, axis=1), dims=("t", "z_c", "x_c"), name="TD")  # on centres: interpolated to the bounds
            target = np.array([0.0, 1.5, 3.0, 5.0])
            kw = {}
        else:
            td = xr.DataArray(np.sort(rng.random((nt, nz, nx)) * 4 + 0.5, axis=1), dims=("t", "z_c", "x_c"), name="TD")
            if case % 2:
                td = td.isel(z_c=slice(None, None, -1)).assign_coords(z_c=np.arange(nz))  # decreasing along the axis
            target = np.array([1.0, 3.5, 0.2, 2.2])
            kw = {"mask_edges": bool(case % 4 < 2)}
        chunks = [{"t": 1}, {"x_c": 1}, {"t": 1, "x_c": 2}, {"t": nt, "x_c": nx}][case % 4]
        try:
            ref = g.transform(da, "Z", target, target_data=td, method=method, **kw)
        except Exception as e:  # noqa
            bad.append(f"in-memory transform({method}) raised {type(e).__name__}: {e}")
            break
        Count.n = 0
        try:
            with Count():
                lazy = g.transform(da.chunk(chunks), "Z", target, target_data=td.chunk(chunks), method=method, **kw)
        except Exception as e:  # noqa
            bad.append(f"transform({method}) on data chunked {chunks} raised {type(e).__name__}: {e} (accepted in memory)")
            break
        ncmp += 1
        if Count.n:
            bad.append(f"transform({method}) on data chunked {chunks}: {Count.n} computation(s) while the result was being built")
            break
        if not hasattr(lazy.data, "dask"):
            bad.append(f"transform({method}) on data chunked {chunks}: the result is not lazy")
            break
        got = lazy.compute()
        if got.dims != ref.dims or set(got.coords) != set(ref.coords) or not np.allclose(got.values, ref.values, equal_nan=True):
            bad.append(f"transform({method}) on data chunked {chunks} differs from the in-memory result (dims {got.dims} vs {ref.dims})")
            break
    return bad, ncmp, time.time() - t0


def run(s, fn):
    bad, ncmp, dt = dask_equivalence(s["methods"], s.get("seed", 0), s["n"])
    rec = {"fn": fn, "clause": "chunking-over-non-axis-dimensions-changes-nothing-and-nothing-is-computed-early", "status": "failed" if bad else "proved", "time": dt,
           "detail": bad[0] if bad else f"{ncmp} lazy/in-memory pairs"}
    if bad:
        rec["witness"] = {"part": "native-dask", "text": bad[0]}
    return {"sid": s["sid"], "obligations": [rec], "paths": 0, "queries": 0, "solver_time": 0.0, "engine_errors": [], "covers": {"native-dask": 1},
            "counts": {"bounded_standin_evaluations": ncmp}}
