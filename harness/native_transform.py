"""[bounded] real xarray + real dask: Grid.transform on data chunked over NON-axis dimensions builds its result without computing
and computes to the in-memory result (the 'columns are independent ... dask chunking over them changes nothing' clauses of C07/C08)."""
from __future__ import annotations

import time


def dask_equivalence(methods, seed, n_cases):
    import warnings

    import numpy as np
    import xarray as xr
    import xgcm
    from dask.callbacks import Callback

    warnings.simplefilter("ignore")

    class Count(Callback):
        n = 0

        def _start(self, dsk):
            Count.n += 1
    rng = np.random.default_rng(300 + seed)
    bad, ncmp = [], 0
    t0 = time.time()
    for case in range(n_cases):
        nz, nx, nt = int(rng.integers(3, 6)), int(rng.integers(2, 5)), int(rng.integers(2, 4))
        ds = xr.Dataset(coords={"z_c": np.arange(nz), "z_o": np.arange(nz + 1), "x_c": np.arange(nx), "t": np.arange(nt)})
        g = xgcm.Grid(ds, coords={"Z": {"center": "z_c", "outer": "z_o"}, "X": {"center": "x_c"}}, periodic=False, autoparse_metadata=False)
        da = xr.DataArray(rng.random((nt, nz, nx)) + 0.5, dims=("t", "z_c", "x_c"), name="PHI")
        method = methods[case % len(methods)]
        if method == "conservative":
            td = xr.DataArray(np.sort(rng.random((nt, nz + 1, nx)) * 4 + 0.5, axis=1), dims=("t", "z_o", "x_c"), name="TD")
            if case % 3 == 0:
                td = xr.DataArray(np.sort(rng.random((nt, nz, nx)) * 4 + 0.5, axis=1), dims=("t", "z_c", "x_c"), name="TD")  # on centres: interpolated to the bounds
            target = np.array([0.0, 1.5, 3.0, 5.0])
            kw = {}
        else:
            td = xr.DataArray(np.sort(rng.random((nt, nz, nx)) * 4 + 0.5, axis=1), dims=("t", "z_c", "x_c"), name="TD")
            if case % 2:
                td = td.isel(z_c=slice(None, None, -1)).assign_coords(z_c=np.arange(nz))  # decreasing along the axis
            target = np.array([1.0, 3.5, 0.2, 2.2])
            kw = {"mask_edges": bool(case % 4 < 2)}
        chunks = [{"t": 1}, {"x_c": 1}, {"t": 1, "x_c": 2}, {"t": nt, "x_c": nx}][case % 4]
        try:
            ref = g.transform(da, "Z", target, target_data=td, method=method, **kw)
        except Exception as e:  # noqa
            bad.append(f"in-memory transform({method}) raised {type(e).__name__}: {e}")
            break
        Count.n = 0
        try:
            with Count():
                lazy = g.transform(da.chunk(chunks), "Z", target, target_data=td.chunk(chunks), method=method, **kw)
        except Exception as e:  # noqa
            bad.append(f"transform({method}) on data chunked {chunks} raised {type(e).__name__}: {e} (accepted in memory)")
            break
        ncmp += 1
        if Count.n:
            bad.append(f"transform({method}) on data chunked {chunks}: {Count.n} computation(s) while the result was being built")
            break
        if not hasattr(lazy.data, "dask"):
            bad.append(f"transform({method}) on data chunked {chunks}: the result is not lazy")
            break
        got = lazy.compute()
        if got.dims != ref.dims or set(got.coords) != set(ref.coords) or not np.allclose(got.values, ref.values, equal_nan=True):
            bad.append(f"transform({method}) on data chunked {chunks} differs from the in-memory result (dims {got.dims} vs {ref.dims})")
            break
    return bad, ncmp, time.time() - t0


def run(s, fn):
    bad, ncmp, dt = dask_equivalence(s["methods"], s.get("seed", 0), s["n"])
    rec = {"fn": fn, "clause": "chunking-over-non-axis-dimensions-changes-nothing-and-nothing-is-computed-early", "status": "failed" if bad else "proved", "time": dt,
           "detail": bad[0] if bad else f"{ncmp} lazy/in-memory pairs"}
    if bad:
        rec["witness"] = {"part": "native-dask", "text": bad[0]}
    return {"sid": s["sid"], "obligations": [rec], "paths": 0, "queries": 0, "solver_time": 0.0, "engine_errors": [], "covers": {"native-dask": 1},
            "counts": {"bounded_standin_evaluations": ncmp}}


def reference_check(seed, n_cases):
    """[bounded] Grid.transform(method=linear|log) on real xarray against a float64 numpy reference, with the dtypes of data and
    target_data / target varied independently (float32 data with float64 density-like target_data: the interpolation is
    'against the given target_data', not against a rounded copy of it)"""
    import warnings

    import numpy as np
    import xarray as xr
    import xgcm

    warnings.simplefilter("ignore")
    rng = np.random.default_rng(400 + seed)
    bad, ncmp = [], 0
    t0 = time.time()
    for case in range(n_cases):
        nz, nx = int(rng.integers(3, 7)), int(rng.integers(1, 4))
        ds = xr.Dataset(coords={"z_c": np.arange(nz), "z_o": np.arange(nz + 1), "x_c": np.arange(nx)})
        g = xgcm.Grid(ds, coords={"Z": {"center": "z_c", "outer": "z_o"}, "X": {"center": "x_c"}}, periodic=False, autoparse_metadata=False)
        ddt = [np.float32, np.float64][case % 2]
        phi = (rng.random((nz, nx)) * 10 - 3).astype(ddt)
        base, scale = [(1027.0, 2e-4), (0.5, 4.0), (1.0e5, 3e-2)][case % 3]
        th = base + np.sort(rng.random((nz, nx)), axis=0) * scale * nz
        if len(np.unique(th)) < th.size:
            continue
        if case % 4 >= 2:
            th = th[::-1].copy()
        lo, hi = th.min(), th.max()
        lev = np.concatenate([lo + rng.random(4) * (hi - lo), [lo - (hi - lo) * 0.1, hi + (hi - lo) * 0.1]])
        rng.shuffle(lev)
        method = ["linear", "log"][(case // 2) % 2]
        mask = bool(case % 3)
        da = xr.DataArray(phi, dims=("z_c", "x_c"), name="PHI")
        td = xr.DataArray(th, dims=("z_c", "x_c"), name="TD")
        try:
            out = g.transform(da, "Z", lev, target_data=td, method=method, mask_edges=mask)
        except Exception as e:  # noqa
            bad.append(f"transform({method}) raised {type(e).__name__}: {e}")
            break
        f = np.log if method == "log" else (lambda v: v)
        ncmp += 1
        for x in range(nx):
            col = th[:, x].astype(np.float64)
            o = np.argsort(col)
            want = np.interp(f(lev), f(col[o]), phi[:, x].astype(np.float64)[o])
            if mask:
                want = np.where((lev < col.min()) | (lev > col.max()), np.nan, want)
            got = out.isel(x_c=x).values.astype(np.float64)
            tol = 2e-5 * max(1.0, float(np.abs(phi).max()))
            if got.shape != want.shape or not np.allclose(got, want, equal_nan=True, rtol=0, atol=tol):
                bad.append(f"transform({method}, mask_edges={mask}) with data dtype {np.dtype(ddt).name}, target_data float64 around {base}: column {x} gives {got.tolist()} ; "
                           f"interpolant against the GIVEN target_data {want.tolist()} (target_data {col.tolist()}, levels {lev.tolist()})")
                break
        if bad:
            break
    return bad, ncmp, time.time() - t0


def run_reference(s, fn):
    bad, ncmp, dt = reference_check(s.get("seed", 0), s["n"])
    rec = {"fn": fn, "clause": "result-is-the-interpolant-against-the-given-target_data-for-every-dtype-mix", "status": "failed" if bad else "proved", "time": dt,
           "detail": bad[0] if bad else f"{ncmp} transforms"}
    if bad:
        rec["witness"] = {"part": "native-dask", "text": bad[0]}
    return {"sid": s["sid"], "obligations": [rec], "paths": 0, "queries": 0, "solver_time": 0.0, "engine_errors": [], "covers": {"native-reference": 1},
            "counts": {"bounded_standin_evaluations": ncmp}}
