"""C04 - vector components cross rotated face links with the right partner and sign.

  (1) C05 (vector clauses): halo of a component = partner component across axis-swapping links, negated
      exactly when the link reverses its direction - proved on the real padding code.
  (2) here, DISPATCH: the real Grid.diff / Grid.interp called with {axis: component} and other_component
      on a face-connected grid equals the stencil applied to what the real pad() returns for the vector
      input (the vector and its partner reach pad unchanged, for a generic face of any table).
  (3) here, GEOMETRY LEMMA (z3, specification only): a C-grid vector (U on x-faces, V on y-faces) on the
      undivided domain; face f with the identity placement, neighbour g placed across f's upper X / Y
      edge with the orientation that the non-reversed link kind expresses (identity / a quarter turn,
      from C03's lemma); g's local components are the rotated global field.  Then the edge value that
      differencing / interpolating a component along its own axis to the cell centre needs is, by the
      C05 vector semantics, exactly the global component on that edge.  Hence the discrete divergence
      of every cell equals that of the undivided field (lat-lon-cap family: non-reversed links).
  (4) here: on a grid WITHOUT face connections the vector form gives exactly the scalar result (every
      shift, rule, operator; all sizes and data).
"""
from __future__ import annotations

import itertools
import time

import z3

from vp import symx, util
from vp.symx import oblige, zint
from vp.world import SymWorld, model_values
from contracts import spec
from harness import C01, C05

PROPERTY = "C04"
META = {
    "level": "proof",
    "functions_under_contract": ["xgcm.grid.Grid.diff/interp with {axis: component} + other_component (Grid._1d_grid_ufunc_dispatch, grid_ufunc._check_data_input, _maybe_unpack_vector_component, "
                                 "_promote_to_sequence_and_check, apply_as_grid_ufunc, _pad_then_rechunk, padding.pad, _pad_face_connections / _pad_basic)",
                                 "lemma over the C05 vector semantics (contracts/spec.py: link_source, link_sign)"],
    "trusted_base": ["C05 (vector halo = partner/sign of the documented cell) and C01 (stencil) are proved separately; this check composes them", "xarray / numpy models of vp/mxr.py", "z3 5.1 is sound", "floats as reals"],
    "bounded_standins": ["native cross-check of the placement model of the lemma: 4x4-cell two-face domains cut out of random undivided C-grid vector fields (upper X / Y edge, same-axis and axis-swapping non-reversed link), diff and interp of the along-component on the real code vs the undivided field"],
    "assumptions": ["components live on the 'left' position of their own axis (C-grid), faces square, face f at the identity placement (rigid motions of the whole domain leave the statement invariant)",
                    "only non-reversed links (the statement's lat-lon-cap family)"],
}


def structures(tier, seed):
    out = [{"sid": "lemma;c-grid-vector-across-non-reversed-links", "part": "lemma"}, {"sid": "native;two-face-vector-domains-vs-undivided[bounded]", "part": "native"},
           {"sid": "2d-vector;diff_2d_vector+interp_2d_vector", "part": "2d"}]
    for op in ("diff", "interp"):
        for kind, slot, lk in (("X", ("X", 1), ("same", False)), ("X", ("X", 1), ("swap", False)), ("Y", ("Y", 1), ("swap", False)), ("Y", ("Y", 1), ("same", False)),
                               ("X", ("X", 0), ("swap", False)), ("X", ("X", 1), ("swap", True))):
            for extra in (("none", "before") if (tier == "thorough" or op == "diff") else ("none",)):
                out.append({"sid": f"dispatch;op={op};component={kind};link={slot[0]}{'lr'[slot[1]]}:{lk[0]}{'-rev' if lk[1] else ''};extra={extra}", "part": "dispatch", "op": op, "kind": kind,
                            "slot": [slot[0], slot[1]], "lk": list(lk), "extra": extra})
    NR = [("same", False), ("swap", False)]
    for kind in ("X", "Y"):
        for a in ("X", "Y"):
            for lkL, lkR in itertools.product([None] + NR, repeat=2):
                ent = {}
                if lkL:
                    ent[f"{a}0"] = list(lkL)
                if lkR:
                    ent[f"{a}1"] = list(lkR)
                if not ent:
                    continue
                out.append({"sid": f"padvec;component={kind};axis={a};left={lkL};right={lkR}", "part": "padvec", "kind": kind, "entry": ent, "bw": [a]})
    out.append({"sid": "padvec;component=X;four-slots", "part": "padvec", "kind": "X", "entry": {"X0": ["swap", False], "X1": ["same", False], "Y0": ["same", False], "Y1": ["swap", False]}, "bw": ["X", "Y"], "extra": "before"})
    for op in ("diff", "interp", "min", "max"):
        for (pf, pt) in C01.SHIFTS:
            for rule in (("fill", "extend", "periodic") if tier == "thorough" else ("extend",)):
                out.append({"sid": f"simple;op={op};{pf}->{pt};rule={rule}", "part": "simple", "op": op, "pf": pf, "pt": pt, "rule": rule})
    return out


# ---------------------------------------------------------------------------------------------- lemma
def run_lemma(s):
    obs = []
    U = z3.Function("U", z3.IntSort(), z3.IntSort(), symx.Val)   # U(X, Y): x-component on the left face of global cell (X, Y)
    V = z3.Function("V", z3.IntSort(), z3.IntSort(), symx.Val)   # V(X, Y): y-component on the lower face of global cell (X, Y)
    N, t = z3.Ints("N t")
    base = [N >= 2, t >= 0, t < N]
    t0 = time.time()
    nq = 0
    # local components of a face placed by  local cell (i, j) -> global (ox + a, oy + b):
    #   identity: a = i, b = j         : u_loc(i, j) = U(ox+i, oy+j),            v_loc(i, j) = V(ox+i, oy+j)
    #   rot+90  : a = j, b = N-1-i     : u_loc(i, j) = -V(ox+j, oy+N-i),         v_loc(i, j) = U(ox+j, oy+N-1-i)
    #   rot-90  : a = N-1-j, b = i     : u_loc(i, j) = V(ox+N-1-j, oy+i),        v_loc(i, j) = -U(ox+N-j, oy+i)
    # (local x-direction maps to global -y / +y, local y-direction to global +x / -x; staggered positions carried along)
    def comps(orient, ox, oy):
        if orient == "identity":
            return (lambda i, j: U(ox + i, oy + j)), (lambda i, j: V(ox + i, oy + j))
        if orient == "rot+90":
            return (lambda i, j: -V(ox + j, oy + N - i)), (lambda i, j: U(ox + j, oy + N - 1 - i))
        if orient == "rot-90":
            return (lambda i, j: V(ox + N - 1 - j, oy + i)), (lambda i, j: -U(ox + N - j, oy + i))
        raise ValueError(orient)
    # consistency of the component definitions with the placement of the cell centres (the staggered point of a
    # local component must be the staggered point of the global component it is identified with): checked on centres
    # through C03's table: swap-nonrev at the upper X edge <-> rot+90, at the upper Y edge <-> rot-90
    cases = [("X", "same", "identity"), ("X", "swap", "rot+90"), ("Y", "same", "identity"), ("Y", "swap", "rot-90")]
    for axis, lk, orient in cases:
        same = lk == "same"
        ox, oy = (N, 0) if axis == "X" else (0, N)
        ug, vg = comps(orient, ox, oy)
        # the component along `axis` on f needs, for left -> center, its value one cell beyond f's upper edge: depth k = 1
        k = z3.IntVal(1)
        c, tt = spec.link_source(N, True, same, False, k, t)
        src_axis = axis if same else C05.OTHER[axis]
        i, j = (c, tt) if src_axis == "X" else (tt, c)
        sign = spec.link_sign(axis, axis, same, False)
        # C05: same-axis link -> the same component of g; swapped link -> the partner component of g
        if same:
            src = ug(i, j) if axis == "X" else vg(i, j)
        else:
            src = vg(i, j) if axis == "X" else ug(i, j)
        halo = sign * src
        want = U(N, t) if axis == "X" else V(t, N)    # the global component on the shared edge, at along-edge position t
        sol = z3.Solver()
        sol.add(*base)
        sol.add(halo != want)
        nq += 1
        r = sol.check()
        obs.append({"fn": "lemma", "clause": f"edge-value-of-the-component-along-{axis}==undivided-component:{lk}-link(neighbour {orient})",
                    "status": "proved" if r == z3.unsat else "failed", "time": 0, "detail": None})
        # a wrong partner / missing sign must be refuted (non-vacuity)
        if not same:
            wrong = (ug(i, j) if axis == "X" else vg(i, j))
            sol = z3.Solver()
            sol.add(*base)
            sol.add(wrong != want)
            nq += 1
            obs.append({"fn": "canary", "clause": f"wrong-partner:{axis}", "status": "failed" if sol.check() == z3.sat else "proved", "canary": True, "time": 0})
    # divergence: with every edge value equal to the undivided component, the cell-wise divergence is equal (pure congruence)
    i, j = z3.Ints("ci cj")
    du = U(i + 1, j) - U(i, j)
    dv = V(i, j + 1) - V(i, j)
    sol = z3.Solver()
    uh, vh = z3.Function("uh", z3.IntSort(), z3.IntSort(), symx.Val), z3.Function("vh", z3.IntSort(), z3.IntSort(), symx.Val)
    sol.add(uh(i + 1, j) == U(i + 1, j), uh(i, j) == U(i, j), vh(i, j + 1) == V(i, j + 1), vh(i, j) == V(i, j))
    sol.add((uh(i + 1, j) - uh(i, j)) + (vh(i, j + 1) - vh(i, j)) != du + dv)
    nq += 1
    obs.append({"fn": "lemma", "clause": "divergence-of-every-cell==undivided-divergence(given the edge values)", "status": "proved" if sol.check() == z3.unsat else "failed", "time": 0})
    return {"sid": s["sid"], "obligations": obs, "paths": 0, "queries": nq, "solver_time": time.time() - t0, "engine_errors": [], "covers": {"lemma": 1}}


# ---------------------------------------------------------------------------------------------- dispatch
def run_dispatch(s):
    mods = util.xgcm_modules()
    P = mods["padding"]
    kind = s["kind"]
    slot = (s["slot"][0], int(s["slot"][1]))
    s5 = C05.mk(kind, {slot: tuple(s["lk"])}, (kind,), {"X": "fill", "Y": "extend"}, s["extra"])
    s5["conn"] = ("X", "Y")
    op = s["op"]
    covers = {}

    def body():
        import xgcm
        from vp.mxr import MDataset
        b = C05.build(s5)
        c = symx.ctx()
        N, F = b["N"], b["F"]
        ds = MDataset({"x": N, "xl": N, "y": N, "yl": N, "face": F, "t": b["esz"]["t"], "z": b["esz"]["z"]})
        g = xgcm.Grid(ds, coords={"X": {"center": "x", "left": "xl"}, "Y": {"center": "y", "left": "yl"}}, periodic=False, boundary={"X": "fill", "Y": "extend"},
                      fill_value={"X": symx.SymFloat(b["fills"]["X"]), "Y": symx.SymFloat(b["fills"]["Y"])}, autoparse_metadata=False)
        g._facedim = "face"
        g._face_connections = b["grid"]._face_connections
        da, pa = b["da"], b["partner"]
        vec = util.TrackedDict({kind: da})
        oc = util.TrackedDict({C05.OTHER[kind]: pa})
        try:
            res = getattr(g, op)(vec, kind, to="center", other_component=oc)
        except (symx.EngineUnsupported, symx.InfeasiblePath, symx.PathAbort):
            raise
        except Exception as e:  # noqa
            import traceback
            oblige("returns-normally", False, detail=f"{type(e).__name__}: {e} @ {traceback.format_exc(limit=-2)[-300:]}")
            return
        oblige("returns-normally", True)
        covers["returned"] = covers.get("returned", 0) + 1
        c.ghost.pop("generic", None)
        padded = P.pad({kind: da}, g, boundary_width={kind: (0, 1)}, boundary=None, fill_value=None, other_component={C05.OTHER[kind]: pa})
        dfrom = b["xd"] if kind == "X" else b["yd"]
        dto = "x" if kind == "X" else "y"
        want_dims = [dto if d == dfrom else d for d in da.dims]
        oblige("dims:input-order-with-axis-dim-replaced", tuple(res.dims) == tuple(want_dims), detail=f"{res.dims} vs {want_dims}")
        if set(res.dims) != set(want_dims):
            return
        q = {d: z3.Int(f"q_{d}") for d in res.dims}
        rng = z3.And(*[z3.And(q[d] >= 0, q[d] < zint(res.sizes[d])) for d in res.dims])
        j = q[dto]
        base_idx = {d: q[d] for d in res.dims if d != dto}
        lo = padded.elem({**base_idx, dfrom: j})
        hi = padded.elem({**base_idx, dfrom: j + 1})
        oblige("result==stencil-of-what-pad-returns-for-the-vector-input", z3.Implies(rng, res.elem(q) == spec.opterm(op, lo, hi)))
        oblige("frame:vector-and-other_component-unchanged", not vec.log and not oc.log and dict(vec) == {kind: da} and dict(oc) == {C05.OTHER[kind]: pa})
    with util.patched(*util.std_patches(mods, sets=True)):
        rep = symx.explore(body, s["sid"])
    obs = []
    for name, ob in rep.merged().items():
        rec = {"fn": f"grid.Grid.{op}[vector, face-connected]", "clause": name, "status": ob.status, "time": ob.time, "detail": ob.detail}
        if ob.status == "failed":
            rec["witness"] = {"part": "dispatch", "s": {k: v for k, v in s.items()}, "detail": ob.detail}
        obs.append(rec)
    return {"sid": s["sid"], "obligations": obs, "paths": rep.paths, "queries": rep.queries, "solver_time": rep.solver_time, "engine_errors": rep.engine_errors, "covers": covers}


def run_simple(s):
    mods = util.xgcm_modules()
    op, pf, pt, rule = s["op"], s["pf"], s["pt"], s["rule"]
    covers = {}
    st = C01.structures("quick", 0)[0]
    st = dict(st, op=op, axes={"X": tuple(dict.fromkeys(("center", pf, pt))), "Y": ("center", "left")}, arr={"X": pf, "Y": "left" if pf != "left" else "center"}, axis="X", to=pt,
              cboundary=rule, cfill="S" if rule == "fill" else None, extra=1, gperiodic=False, gboundary=None, gfill=None, order=None, dshifts=None, coords=True, canary=None)

    def body():
        w = SymWorld()
        try:
            r = C01.scenario(st, w)
        except (symx.EngineUnsupported, symx.InfeasiblePath, symx.PathAbort):
            raise
        except Exception as e:  # noqa
            oblige("scalar-form-returns", False, detail=f"{type(e).__name__}: {e}")
            return
        g, da, ds, layout = r["g"], r["da"], r["ds"], r["layout"]
        other = w.array("V", [d for d in da.dims if d not in layout["X"].values()][:1] + [layout["Y"]["center"] if s["pf"] != "left" else layout["Y"]["left"], layout["X"]["center"]], ds)
        kw = {"to": pt, "boundary": rule}
        if r["cfill"] is not None:
            kw["fill_value"] = r["cfill"]
        try:
            res = getattr(g, op)({"X": da}, "X", other_component={"Y": other}, **kw)
        except (symx.EngineUnsupported, symx.InfeasiblePath, symx.PathAbort):
            raise
        except Exception as e:  # noqa
            import traceback
            oblige("vector-form-accepted-on-a-grid-without-face-connections", False, detail=f"{type(e).__name__}: {e} @ {traceback.format_exc(limit=-1)[-200:]}")
            return
        oblige("vector-form-accepted-on-a-grid-without-face-connections", True)
        covers["returned"] = covers.get("returned", 0) + 1
        out = r["out"]
        oblige("vector-form:same-dims-as-the-scalar-form", tuple(res.dims) == tuple(out.dims), detail=f"{res.dims} vs {out.dims}")
        if set(res.dims) != set(out.dims):
            return
        q = {d: z3.Int(f"q_{d}") for d in out.dims}
        rng = z3.And(*[z3.And(q[d] >= 0, q[d] < zint(out.sizes[d])) for d in out.dims])
        for d in out.dims:
            oblige(f"vector-form:size:{d}", zint(res.sizes[d]) == zint(out.sizes[d]))
        oblige("vector-form==scalar-form(every value)", z3.Implies(rng, res.elem(q) == out.elem(q)))
    with util.patched(*util.std_patches(mods)):
        rep = symx.explore(body, s["sid"])
    obs = []
    for name, ob in rep.merged().items():
        rec = {"fn": f"grid.Grid.{op}[vector, simple grid]", "clause": name, "status": ob.status, "time": ob.time, "detail": ob.detail}
        if ob.status == "failed":
            rec["witness"] = {"part": "simple", "s": {k: v for k, v in s.items()}, "detail": ob.detail}
        obs.append(rec)
    return {"sid": s["sid"], "obligations": obs, "paths": rep.paths, "queries": rep.queries, "solver_time": rep.solver_time, "engine_errors": rep.engine_errors, "covers": covers}


def native_vector_check(axis, lk, N=4, seed=0):
    """two faces cut out of an undivided C-grid vector field, the neighbour beyond f's upper `axis` edge placed with
    the orientation the non-reversed link kind expresses; diff/interp of the along-component on f (real code)
    against the same operation on the undivided field"""
    import warnings

    import numpy as np
    import xarray as xr
    import xgcm
    warnings.simplefilter("ignore")
    rng = np.random.default_rng(seed)
    W, H = (2 * N, N) if axis == "X" else (N, 2 * N)
    Ug = rng.random((H, W + 1))   # Ug[Y, X] on the left face of cell (X, Y)   (one extra column for the far edge)
    Vg = rng.random((H + 1, W))   # Vg[Y, X] on the lower face of cell (X, Y)
    U = lambda X, Y: Ug[Y, X]  # noqa
    V = lambda X, Y: Vg[Y, X]  # noqa
    ox, oy = (N, 0) if axis == "X" else (0, N)
    orient = "identity" if lk == "same" else ("rot+90" if axis == "X" else "rot-90")
    uf = np.array([[U(i, j) for i in range(N)] for j in range(N)])
    vf = np.array([[V(i, j) for i in range(N)] for j in range(N)])
    if orient == "identity":
        ug = np.array([[U(ox + i, oy + j) for i in range(N)] for j in range(N)])
        vg = np.array([[V(ox + i, oy + j) for i in range(N)] for j in range(N)])
    elif orient == "rot+90":
        ug = np.array([[-V(ox + j, oy + N - i) for i in range(N)] for j in range(N)])
        vg = np.array([[U(ox + j, oy + N - 1 - i) for i in range(N)] for j in range(N)])
    else:
        ug = np.array([[V(ox + N - 1 - j, oy + i) for i in range(N)] for j in range(N)])
        vg = np.array([[-U(ox + N - j, oy + i) for i in range(N)] for j in range(N)])
    src_axis = axis if lk == "same" else C05.OTHER[axis]
    tab = {0: {"X": [None, None], "Y": [None, None]}, 1: {"X": [None, None], "Y": [None, None]}}
    tab[0][axis][1] = (1, src_axis, False)
    tab[1][src_axis][0] = (0, axis, False)
    tab = {fk: {a: tuple(v) for a, v in d.items()} for fk, d in tab.items()}
    ds = xr.Dataset(coords={"x": np.arange(N), "xl": np.arange(N), "y": np.arange(N), "yl": np.arange(N), "face": np.arange(2)})
    grid = xgcm.Grid(ds, coords={"X": {"center": "x", "left": "xl"}, "Y": {"center": "y", "left": "yl"}}, periodic=False, boundary="fill", fill_value=0.0,
                     face_connections={"face": tab}, autoparse_metadata=False)
    u = xr.DataArray(np.stack([uf, ug]), dims=("face", "y", "xl"))
    v = xr.DataArray(np.stack([vf, vg]), dims=("face", "yl", "x"))
    bad = []
    for op in ("diff", "interp"):
        if axis == "X":
            res = getattr(grid, op)({"X": u}, "X", to="center", other_component={"Y": v}).isel(face=0).values
            ref = np.array([[(U(i + 1, j) - U(i, j)) if op == "diff" else (U(i + 1, j) + U(i, j)) / 2 for i in range(N)] for j in range(N)])
        else:
            res = getattr(grid, op)({"Y": v}, "Y", to="center", other_component={"X": u}).isel(face=0).values
            ref = np.array([[(V(i, j + 1) - V(i, j)) if op == "diff" else (V(i, j + 1) + V(i, j)) / 2 for i in range(N)] for j in range(N)])
        if not np.allclose(res, ref):
            bad.append(op)
    return bad


def run_native(s):
    obs = []
    n = 0
    for axis, lk in itertools.product(("X", "Y"), ("same", "swap")):
        bad = []
        for seed in (0, 1, 2):
            bad += native_vector_check(axis, lk, seed=seed)
            n += 2
        obs.append({"fn": "grid.Grid.diff/interp[native, vector, 2 faces]", "clause": f"along-component-result==undivided-result:{axis}-upper-edge;{lk}-link", "status": "proved" if not bad else "failed", "time": 0,
                    "detail": f"mismatching ops {sorted(set(bad))}" if bad else None, "witness": {"part": "native", "axis": axis, "lk": lk}})
    return {"sid": s["sid"], "obligations": obs, "paths": 0, "queries": 0, "solver_time": 0.0, "engine_errors": [], "covers": {"native": 1}, "counts": {"bounded_standin_evaluations": n}}


def run_2dvector(s):
    """Grid.diff_2d_vector / interp_2d_vector (deprecated entry points): each component is the along-axis operation on
    that component with the other one as partner - relational, on a face-connected grid with an axis-swapping link"""
    mods = util.xgcm_modules()
    s5 = C05.mk("X", {("X", 1): ("swap", False), ("Y", 1): ("swap", False)}, ("X",), {"X": "fill", "Y": "extend"}, "none")
    s5["conn"] = ("X", "Y")
    covers = {}

    def body():
        import warnings

        import xgcm
        from vp.mxr import MDataset
        b = C05.build(s5)
        N, F = b["N"], b["F"]
        ds = MDataset({"x": N, "xl": N, "y": N, "yl": N, "face": F, "t": b["esz"]["t"], "z": b["esz"]["z"]})
        g = xgcm.Grid(ds, coords={"X": {"center": "x", "left": "xl"}, "Y": {"center": "y", "left": "yl"}}, periodic=False, boundary={"X": "fill", "Y": "extend"}, autoparse_metadata=False)
        g._facedim = "face"
        g._face_connections = b["grid"]._face_connections
        u, v = b["da"], b["partner"]
        vec = util.TrackedDict({"X": u, "Y": v})
        for name in ("diff_2d_vector", "interp_2d_vector"):
            opn = name.split("_")[0]
            with warnings.catch_warnings():
                warnings.simplefilter("ignore")
                try:
                    both = getattr(g, name)(vec)
                    rx = getattr(g, opn)({"X": u}, "X", to="center", other_component={"Y": v})
                    ry = getattr(g, opn)({"Y": v}, "Y", to="center", other_component={"X": u})
                except (symx.EngineUnsupported, symx.InfeasiblePath, symx.PathAbort):
                    raise
                except Exception as e:  # noqa
                    oblige(f"{name}:returns-normally", False, detail=f"{type(e).__name__}: {e}")
                    continue
            covers["returned"] = covers.get("returned", 0) + 1
            oblige(f"{name}:one-result-per-component", isinstance(both, dict) and list(both) == ["X", "Y"], detail=str(type(both)))
            if not isinstance(both, dict) or set(both) != {"X", "Y"}:
                continue
            for k, ref in (("X", rx), ("Y", ry)):
                got = both[k]
                oblige(f"{name}:{k}-component:dims", tuple(got.dims) == tuple(ref.dims))
                if tuple(got.dims) == tuple(ref.dims):
                    q = {d: z3.Int(f"q_{d}") for d in got.dims}
                    oblige(f"{name}:{k}-component==along-axis-operation-with-the-other-as-partner", z3.simplify(got.elem(q)).eq(z3.simplify(ref.elem(q))) or symx.ctx().check_valid(got.elem(q) == ref.elem(q))[0] == "proved")
        oblige("2d-vector:argument-unchanged", not vec.log and list(vec) == ["X", "Y"])
    with util.patched(*util.std_patches(mods, sets=True)):
        rep = symx.explore(body, s["sid"])
    obs = []
    for name, ob in rep.merged().items():
        rec = {"fn": "grid.Grid._apply_vector_function", "clause": name, "status": ob.status, "time": ob.time, "detail": ob.detail}
        if ob.status == "failed":
            rec["witness"] = {"part": "2d", "detail": ob.detail}
        obs.append(rec)
    return {"sid": s["sid"], "obligations": obs, "paths": rep.paths, "queries": rep.queries, "solver_time": rep.solver_time, "engine_errors": rep.engine_errors, "covers": covers}


def run_padvec(s):
    """the C05 contract of the real padding code for vector inputs, re-proved here for the link shapes of the statement's
    family (non-reversed links, one or both sides of an axis linked, same-axis and axis-swapping mixed)"""
    s5 = C05.mk(s["kind"], {(k[0], int(k[1])): tuple(v) for k, v in s["entry"].items()}, tuple(s["bw"]), {"X": "fill", "Y": "extend"}, s.get("extra", "none"))
    r = C05.run_structure(s5)
    r["sid"] = s["sid"]
    for o in r["obligations"]:
        o["fn"] = "padding._pad_face_connections[vector]"
    r["covers"] = {"padvec": 1}
    return r


def run_structure(s):
    return {"lemma": run_lemma, "dispatch": run_dispatch, "simple": run_simple, "native": run_native, "2d": run_2dvector, "padvec": run_padvec}[s["part"]](s)


REQUIRED_COVERS = ["lemma", "returned", "padvec"]


def replay(ob):
    import warnings

    import numpy as np
    import xarray as xr
    import xgcm

    warnings.simplefilter("ignore")
    wit = ob.get("witness") or {}
    if "structure" in wit and "part" not in wit:
        from harness import native_pad
        return native_pad.replay_face(ob)
    if wit.get("part") == "simple":
        s = wit["s"]
        pos = {"center": "x_c", "left": "x_l", "right": "x_r", "outer": "x_o", "inner": "x_i"}
        n = 5
        ln = {"center": n, "left": n, "right": n, "outer": n + 1, "inner": n - 1}
        ps = list(dict.fromkeys(("center", s["pf"], s["pt"])))
        ds = xr.Dataset(coords={**{pos[p]: np.arange(ln[p]) for p in ps}, "y_c": np.arange(3), "y_l": np.arange(3)})
        g = xgcm.Grid(ds, coords={"X": {p: pos[p] for p in ps}, "Y": {"center": "y_c", "left": "y_l"}}, periodic=False, autoparse_metadata=False)
        u = xr.DataArray(np.random.rand(3, ln[s["pf"]]), dims=("y_c", pos[s["pf"]]))
        v = xr.DataArray(np.random.rand(3, n), dims=("y_l", "x_c"))
        kw = dict(to=s["pt"], boundary=s["rule"], fill_value=1.5)
        try:
            a = getattr(g, s["op"])({"X": u}, "X", other_component={"Y": v}, **kw)
        except Exception as e:  # noqa
            return {"confirmed": True, "text": f"grid.{s['op']}({{'X': u}}, 'X', other_component={{'Y': v}}, to={s['pt']!r}) on a grid without face connections raised {type(e).__name__}: {e}"}
        b = getattr(g, s["op"])(u, "X", **kw)
        ok = a.dims == b.dims and np.allclose(a.values, b.values)
        return {"confirmed": not ok, "text": "vector form differs from the scalar form" if not ok else "agrees natively"}
    if wit.get("part") == "2d":
        # real code on a two-face grid (X-right of face 0 linked to X-left of face 1): both components at once vs one at a time
        n = 4
        ds = xr.Dataset(coords={"x": np.arange(n), "xl": np.arange(n), "y": np.arange(n), "yl": np.arange(n), "face": np.arange(2)})
        fc = {"face": {0: {"X": (None, (1, "X", False))}, 1: {"X": ((0, "X", False), None)}}}
        g = xgcm.Grid(ds, coords={"X": {"center": "x", "left": "xl"}, "Y": {"center": "y", "left": "yl"}}, periodic=False, boundary={"X": "fill", "Y": "extend"},
                      face_connections=fc, autoparse_metadata=False)
        rng = np.random.default_rng(2)
        u = xr.DataArray(rng.random((2, n, n)), dims=("face", "y", "xl"))
        v = xr.DataArray(rng.random((2, n, n)), dims=("face", "yl", "x"))
        bad = []
        for name in ("diff_2d_vector", "interp_2d_vector"):
            opn = name.split("_")[0]
            try:
                both = getattr(g, name)({"X": u, "Y": v})
            except Exception as e:  # noqa
                bad.append(f"grid.{name}({{'X': u, 'Y': v}}) raised {type(e).__name__}: {e}")
                continue
            rx = getattr(g, opn)({"X": u}, "X", to="center", other_component={"Y": v})
            ry = getattr(g, opn)({"Y": v}, "Y", to="center", other_component={"X": u})
            if not isinstance(both, dict) or list(both) != ["X", "Y"]:
                bad.append(f"grid.{name} returned {type(both).__name__} {list(both) if isinstance(both, dict) else ''}")
                continue
            for k, ref in (("X", rx), ("Y", ry)):
                if both[k].dims != ref.dims or not np.allclose(both[k].values, ref.values):
                    bad.append(f"grid.{name}: component {k} differs from the along-axis operation with the other component as partner")
        return {"confirmed": bool(bad), "text": "\n".join(bad or ["diff_2d_vector / interp_2d_vector agree natively with the per-component operations"])}
    if wit.get("part") == "native":
        return {"confirmed": True, "text": f"two-face vector domain, {wit['axis']} upper edge, {wit['lk']} link: the face result of the along-component differs from the undivided field on the real code"}
    if wit.get("part") == "dispatch":
        from harness import C03
        s = wit["s"]
        return C03.native_dispatch_replay(s["op"], "left", "center", {(s["slot"][0], int(s["slot"][1])): tuple(s["lk"])}, s["kind"])
    return {"confirmed": False, "text": "lemma over the specification"}
