"""C06 - lazy (dask) execution equals in-memory execution for every chunking.

What a contract on xgcm can say, and what is proved here on the real code:
  (a) _get_chunk_pattern_for_merging_boundary: same number of chunks, only the first / last chunk grow by the lower /
      upper width, total = padded length (chunk sizes and widths symbolic; number of chunks 1..5 enumerated)
  (b) _map_func_over_core_dims: dask.array.map_overlap is called with depth = {numpy axis of each operated dimension
      after moving core dims last: boundary width}, boundary='none', trim=False and the unpadded chunks
  (c) _check_if_length_would_change raises NotImplementedError iff an inner / outer position occurs or there is more
      than one output - "refused rather than answered differently"
  (d) dispatch (which dask mode / whether map_overlap is used) is recorded as coverage only - it is a mechanism, not part
      of the property; acceptance + value clauses below are what must hold
  (e) LAZINESS as an effect contract: dask-backed model arrays trap .values / .compute() / .load(); no public operation
      evaluates eagerly on any path; and (f) ACCEPTANCE: lazy scalar and vector inputs are accepted wherever in-memory
      inputs are, with the same dims / sizes / values (under the assumed end-to-end dask contracts)
  (g) BOUNDED native cross-check with the real dask: several chunkings x synchronous and threaded schedulers, compute
      count via a dask callback.
Not decidable by contracts on xgcm (assumed): dask's schedulers execute a graph of pure tasks to the same values;
xarray.apply_ufunc(dask='parallelized') and dask.array.map_overlap implement their documented semantics.
"""
from __future__ import annotations

import itertools
import sys

import z3

from vp import symx, util
from vp.symx import SymInt, mk_int, oblige, zint
from vp.mxr import MArr, NArr, EagerEvaluation
from vp.world import SymWorld, model_values
from contracts import spec
from harness import C01

PROPERTY = "C06"
META = {
    "level": "proof",
    "functions_under_contract": ["xgcm.grid_ufunc._get_chunk_pattern_for_merging_boundary", "xgcm.grid_ufunc._rechunk_to_merge_in_boundary_chunks", "xgcm.grid_ufunc._map_func_over_core_dims",
                                 "xgcm.grid_ufunc._check_if_length_would_change", "xgcm.grid_ufunc._has_chunked_core_dims / _is_dim_chunked", "xgcm.grid_ufunc._pad_then_rechunk",
                                 "xgcm.grid.Grid._1d_grid_ufunc_dispatch (choice of dask mode / map_overlap)", "laziness + acceptance clauses of Grid.diff/interp/min/max/cumsum/derivative/integrate/average/cumint/apply_as_grid_ufunc"],
    "trusted_base": [
        "ASSUMED end-to-end dask contract: for a translation-invariant stencil f consuming lo+hi elements along an axis, map_overlap(f, A, depth={axis:(lo,hi)}, boundary='none', trim=False) computes f(A) whatever the chunking of A",
        "ASSUMED: xarray.apply_ufunc(dask='parallelized') computes the same values as on numpy data; dask schedulers (synchronous, threaded) execute graphs of pure tasks to the same values - thread interleavings are not expressible as contracts on xgcm",
        "dask model of vp/mxr.py: chunk tuples per dimension; .values/.compute()/.load() on a dask-backed array is an eager evaluation", "xarray / numpy models of vp/mxr.py", "z3 5.1 is sound",
    ],
    "assumptions": ["number of chunks along the operated dimension enumerated 1..5 (sizes symbolic); catalogue of operations and chunk layouts enumerated"],
    "bounded_standins": ["(g) native: real dask, 6 chunk layouts x 9 operations x {synchronous, threads}, lazy result vs eager result and number of graph executions"],
}


def structures(tier, seed):
    out = []
    for k in (1, 2, 3, 4, 5):
        out.append({"sid": f"chunk-pattern;nchunks={k}", "part": "pattern", "k": k})
    out.append({"sid": "length-change-refusal", "part": "refusal"})
    for op, pf, pt in (("diff", "center", "left"), ("interp", "left", "center"), ("min", "center", "right"), ("max", "right", "center")):
        for order in ((0, 1, 2), (2, 0, 1)):
            out.append({"sid": f"map_overlap;op={op};{pf}->{pt};order={order}", "part": "overlap", "op": op, "pf": pf, "pt": pt, "order": list(order)})
    cat = ["diff", "interp", "min", "max", "cumsum", "derivative", "integrate", "average", "cumint", "apply_ufunc", "vector-simple", "fc-scalar", "fc-vector", "fc-rot-scalar", "fc-rot-vector", "diff-multi"]
    for op in cat:
        for chunking in ("non-core", "core-2", "core-3"):
            if chunking != "non-core" and op in ("fc-scalar", "fc-vector", "fc-rot-scalar", "fc-rot-vector", "integrate", "average", "derivative", "apply_ufunc", "diff-multi"):
                continue
            out.append({"sid": f"lazy;op={op};chunks={chunking}", "part": "lazy", "op": op, "chunking": chunking})
    # several axes in one call: chunked along an operated axis WITHOUT inner/outer, another operated axis in one chunk WITH outer/inner:
    # not the statement's exception (the data is not chunked along the inner/outer axis) - must be accepted like the in-memory call
    # a vector component chunked along the operated axis whose dimension is NOT the last one of the array
    out.append({"sid": "lazy;op=vector-Y-not-last;chunks=core-y2", "part": "lazy", "op": "vector-Y-not-last", "chunking": "core-y2"})
    for op in ("multi-diff-Youter-X", "multi-interp-X-Yinner", "multi-max-Xouter-chunkedY"):
        out.append({"sid": f"lazy;op={op};chunks=per-axis", "part": "lazy", "op": op, "chunking": "core-2" if "chunkedY" not in op else "core-y2"})
    for op, pt in (("diff", "outer"), ("interp", "inner"), ("min", "outer")):
        out.append({"sid": f"refused;op={op};center->{pt};chunked-along-the-axis", "part": "lazy", "op": op, "chunking": "core-2", "to": pt, "expect": "NotImplementedError"})
    out.append({"sid": "canary;eager-evaluation-is-trapped", "part": "canary"})
    out.append({"sid": "native;real-dask[bounded]", "part": "native"})
    return out


# ---- (a) chunk pattern -------------------------------------------------------------------------------
def run_pattern(s):
    mods = util.xgcm_modules()
    GU = mods["grid_ufunc"]
    k = s["k"]
    covers = {}

    def body():
        w = SymWorld()
        cs = [mk_int(z3.Int(f"c{i}")) for i in range(k)]
        for cc in cs:
            symx.assume(zint(cc) >= 1)
        lo, hi = mk_int(z3.Int("lo")), mk_int(z3.Int("hi"))
        symx.assume(zint(lo) >= 0, zint(hi) >= 0)
        tot = sum((zint(cc) for cc in cs), z3.IntVal(0))
        layout = {"X": {"center": "x_c", "left": "x_l"}, "Y": {"center": "y_c", "left": "y_l"}}
        ny = w.size("n_Y", 2)
        dims = {"x_c": mk_int(tot), "x_l": mk_int(tot), "y_c": ny, "y_l": ny}
        ds = w.dataset(dims, coords={})
        g = w.grid(ds, layout, periodic=False)
        da = w.array("D", ["y_c", "x_c"], ds, dask={"y_c": (ny,), "x_c": tuple(cs)})
        padded = da.pad({"x_c": (lo, hi)}, "constant")
        try:
            new = GU._get_chunk_pattern_for_merging_boundary(g, padded, da.variable.chunksizes, {"X": (lo, hi)})
        except (symx.EngineUnsupported, symx.InfeasiblePath, symx.PathAbort):
            raise
        except Exception as e:  # noqa
            oblige("returns-normally", False, detail=f"{type(e).__name__}: {e}")
            return
        covers["pattern"] = 1
        oblige("only-the-operated-dimension-is-rechunked", set(new) == {"x_c"}, detail=str(list(new)))
        nc = new.get("x_c", ())
        oblige("same-number-of-chunks", len(nc) == k, detail=f"{len(nc)}")
        if len(nc) != k:
            return
        oblige("chunks-sum-to-the-padded-length", sum((zint(x) for x in nc), z3.IntVal(0)) == tot + zint(lo) + zint(hi))
        if k == 1:
            oblige("single-chunk-grows-by-both-widths", zint(nc[0]) == zint(cs[0]) + zint(lo) + zint(hi))
        else:
            oblige("first-chunk-grows-by-the-lower-width", zint(nc[0]) == zint(cs[0]) + zint(lo))
            oblige("last-chunk-grows-by-the-upper-width", zint(nc[-1]) == zint(cs[-1]) + zint(hi))
            for i in range(1, k - 1):
                oblige(f"inner-chunk-{i}-unchanged", zint(nc[i]) == zint(cs[i]))
        # and the real rechunk step accepts the pattern (chunks sum to the padded length: library precondition)
        try:
            out = GU._rechunk_to_merge_in_boundary_chunks([padded], [da], {"X": (lo, hi)}, g)
            oblige("rechunk-accepts-the-pattern", len(out) == 1)
        except (symx.EngineUnsupported, symx.InfeasiblePath, symx.PathAbort):
            raise
        except Exception as e:  # noqa
            oblige("rechunk-accepts-the-pattern", False, detail=f"{type(e).__name__}: {e}")
    with util.patched(*util.std_patches(mods)):
        rep = symx.explore(body, s["sid"])
    return pack(s, rep, "grid_ufunc._get_chunk_pattern_for_merging_boundary", covers)


def pack(s, rep, fn, covers, canary_clause=None):
    obs = []
    for name, ob in rep.merged().items():
        rec = {"fn": fn, "clause": name, "status": ob.status, "time": ob.time, "detail": ob.detail}
        if ob.status == "failed":
            rec["witness"] = {"part": s["part"], "s": {k: v for k, v in s.items()}, "clause": name, "detail": ob.detail, "model": {k: v for k, v in model_values(ob.model).items() if k != "__funcs__"}}
        if canary_clause is not None:
            if name == canary_clause:
                rec["canary"] = True
                obs.append(rec)
            continue
        obs.append(rec)
    return {"sid": s["sid"], "obligations": obs, "paths": rep.paths, "queries": rep.queries, "solver_time": rep.solver_time, "engine_errors": rep.engine_errors, "covers": covers}


# ---- (c) refusal --------------------------------------------------------------------------------------
def run_refusal(s):
    import xgcm.grid_ufunc as GU
    obs = []
    P = spec.POSITIONS
    n = 0
    bad = []
    for pin, pout in itertools.product(P, P):
        for nout in (1, 2):
            sig = GU._GridUFuncSignature([("X",)], [(pin,)], [("X",)] * nout, [(pout,)] * nout)
            want = (pin in ("inner", "outer")) or (pout in ("inner", "outer")) or nout > 1
            try:
                GU._check_if_length_would_change(sig)
                got = False
            except NotImplementedError:
                got = True
            n += 1
            if got != want:
                bad.append((pin, pout, nout, got))
    obs.append({"fn": "grid_ufunc._check_if_length_would_change", "clause": "NotImplementedError-iff-inner/outer-position-or-several-outputs", "status": "proved" if not bad else "failed", "time": 0,
                "detail": f"{n} signatures" if not bad else str(bad[:3]), "witness": {"part": "refusal", "cases": [list(b) for b in bad[:3]]}})
    return {"sid": s["sid"], "obligations": obs, "paths": 0, "queries": 0, "solver_time": 0.0, "engine_errors": [], "covers": {"refusal": 1}}


# ---- (b) map_overlap wrapper ---------------------------------------------------------------------------
class OverlapRecorder:
    def __init__(self):
        self.calls = []

    def __call__(self, func, *a, **kw):
        self.calls.append((func, a, kw))
        # assumed end-to-end contract: the stencil applied to the whole (padded) array
        return func(*a)


def run_overlap(s):
    mods = util.xgcm_modules()
    covers = {}
    op, pf, pt = s["op"], s["pf"], s["pt"]
    import dask.array as dsa

    def body():
        w = SymWorld()
        layout = {"X": {"center": "x_c", "left": "x_l", "right": "x_r"}, "Y": {"center": "y_c", "left": "y_l"}}
        c1, c2 = mk_int(z3.Int("c1")), mk_int(z3.Int("c2"))
        symx.assume(zint(c1) >= 1, zint(c2) >= 1)
        n = mk_int(zint(c1) + zint(c2))
        ny, nt = w.size("n_Y", 2), w.size("n_t", 1)
        dims = {"x_c": n, "x_l": n, "x_r": n, "y_c": ny, "y_l": ny, "t": nt}
        ds = w.dataset(dims, coords={d: (d,) for d in dims})
        g = w.grid(ds, layout, periodic=False)
        xd = layout["X"][pf]
        adims = [["t", "y_c", xd][i] for i in s["order"]]
        da = w.array("D", adims, ds, with_coords=True, dask={"t": (nt,), "y_c": (ny,), xd: (c1, c2)})
        rec = OverlapRecorder()
        with util.patched((dsa, "map_overlap", rec)):
            try:
                res = getattr(g, op)(da, "X", to=pt, boundary="extend")
            except (symx.EngineUnsupported, symx.InfeasiblePath, symx.PathAbort):
                raise
            except Exception as e:  # noqa
                import traceback
                oblige("accepted-when-chunked-along-the-operated-axis", False, detail=f"{type(e).__name__}: {e} @ {traceback.format_exc(limit=-2)[-300:]}")
                return
        oblige("accepted-when-chunked-along-the-operated-axis", True)
        covers["overlap"] = covers.get("overlap", 0) + 1
        oblige("map_overlap-used-exactly-once", len(rec.calls) == 1, detail=str(len(rec.calls)))
        if len(rec.calls) != 1:
            return
        func, a, kw = rec.calls[0]
        import xgcm.gridops as ops
        uf = getattr(ops, f"{op}_{pf}_to_{pt}")
        lo, hi = uf.boundary_width["X"]
        arr = a[0]
        core_axis = len(arr.shape) - 1
        oblige("operated-dimension-is-the-last-axis-of-what-the-function-sees", list(arr.labels)[-1] == xd, detail=str(arr.labels))
        oblige("depth=={numpy axis of the operated dimension: boundary width}", dict(kw.get("depth", {})) == {core_axis: (lo, hi)}, detail=f"depth {kw.get('depth')} core axis {core_axis} width {(lo, hi)}")
        oblige("boundary='none' and trim=False", kw.get("boundary") == "none" and kw.get("trim") is False, detail=str({k: kw.get(k) for k in ("boundary", "trim")}))
        ch = kw.get("chunks")
        oblige("declared-output-chunks-are-the-unpadded-chunks-with-the-operated-axis-last", ch is not None and len(ch) == len(arr.shape) and tuple(ch[-1]) == (c1, c2) if ch is not None and len(ch) and isinstance(ch[-1], tuple) and len(ch[-1]) == 2 and all(isinstance(x, (int, SymInt)) for x in ch[-1]) and False else
               (ch is not None and len(ch) == len(arr.shape) and len(ch[-1]) == 2 and bool(symx.SymBool(z3.And(zint(ch[-1][0]) == zint(c1), zint(ch[-1][1]) == zint(c2))))), detail=str(ch))
        # the array handed to map_overlap is the correctly padded whole array, rechunked so that first/last chunk absorbed the halo
        oblige("padded-length", zint(arr.shape[-1]) == zint(n) + lo + hi)
        dk = arr.dask
        oblige("boundary-chunks-merged", dk is not None and len(dk[xd]) == 2 and bool(symx.SymBool(z3.And(zint(dk[xd][0]) == zint(c1) + lo, zint(dk[xd][1]) == zint(c2) + hi))), detail=str(dk))
        # values: same specification as in memory (C01)
        st = dict(op=op, axes={"X": ("center", "left", "right"), "Y": ("center", "left")}, arr={"X": pf}, axis="X", to=pt, cboundary="extend", gboundary=None, gperiodic=False, dshifts=None)
        sp = C01.op_spec(st, dict(da=da, layout=layout, ns={"X": n, "Y": ny}, cfill=None, gfill=None))
        oblige("dims-as-in-memory", tuple(res.dims) == tuple(sp["dims"]), detail=f"{res.dims} {sp['dims']}")
        if tuple(res.dims) == tuple(sp["dims"]):
            for name, region, val in sp["cells"]:
                oblige("values-as-in-memory(under the assumed map_overlap contract)", z3.Implies(region, res.elem(sp["q"]) == val))
        oblige("result-stays-lazy", res.dask is not None)
    with util.patched(*util.std_patches(mods)):
        rep = symx.explore(body, s["sid"])
    return pack(s, rep, "grid_ufunc._map_func_over_core_dims", covers)


# ---- (d)(e)(f) laziness / acceptance ---------------------------------------------------------------------
def run_lazy(s):
    mods = util.xgcm_modules()
    covers = {}
    op, chunking = s["op"], s["chunking"]
    import dask.array as dsa

    def build(w, lazy):
        fc = op.startswith("fc")
        layout = {"X": {"center": "x_c", "left": "x_l", "outer": "x_o", "inner": "x_i"}, "Y": {"center": "y_c", "left": "y_l"}}
        multi = op.startswith("multi")
        if multi:
            layout["Y"].update({"outer": "y_o", "inner": "y_i"})
        cx = [mk_int(z3.Int(f"cx{i}")) for i in range(3)]
        for cc in cx:
            symx.assume(zint(cc) >= 1)
        nch = {"non-core": 1, "core-2": 2, "core-3": 3, "core-y2": 1}[chunking]
        cy = [mk_int(z3.Int(f"cy{i}")) for i in range(2)]
        for cc in cy:
            symx.assume(zint(cc) >= 1)
        n = mk_int(sum((zint(cc) for cc in cx[:nch]), z3.IntVal(0)) + (0 if nch > 1 else 1))
        if fc:
            ny = n
        elif chunking == "core-y2":
            ny = mk_int(zint(cy[0]) + zint(cy[1]))
        else:
            ny = w.size("n_Y", 2)
        t1, t2 = mk_int(z3.Int("t1")), mk_int(z3.Int("t2"))
        symx.assume(zint(t1) >= 1, zint(t2) >= 1)
        nt = mk_int(zint(t1) + zint(t2))
        dims = {"x_c": n, "x_l": n, "x_o": mk_int(zint(n) + 1), "x_i": mk_int(zint(n) - 1), "y_c": ny, "y_l": ny, "t": nt}
        if fc:
            dims["face"] = 2
        if multi:
            dims["y_o"], dims["y_i"] = mk_int(zint(ny) + 1), mk_int(zint(ny) - 1)
        ds = w.dataset(dims, coords={d: (d,) for d in dims if d != "face"}, data_vars={"dx_c": ("x_c",), "dx_l": ("x_l",), "dy_c": ("y_c",)})
        kw = dict(periodic=False, metrics={("X",): ["dx_c", "dx_l"], ("Y",): ["dy_c"]})
        if fc:
            kw["face_connections"] = {"face": {0: {"X": (None, (1, "X", False))}, 1: {"X": ((0, "X", False), None)}}}
            if "rot" in op:
                # an axis-swapping link: the source slice has its dimensions renamed / exchanged on the way
                kw["face_connections"] = {"face": {0: {"X": (None, (1, "Y", False))}, 1: {"Y": ((0, "X", False), None)}}}
        g = w.grid(ds, layout, **kw)
        face = ["face"] if fc else []

        def chunks(dl):
            if not lazy:
                return None
            d = {}
            for x in dl:
                if x == "t":
                    d[x] = (t1, t2)
                elif x == "face":
                    d[x] = (1, 1)
                elif x in ("x_c", "x_l") and nch > 1:
                    d[x] = tuple(cx[:nch])
                elif x in ("y_c", "y_l") and chunking == "core-y2":
                    d[x] = tuple(cy)
                else:
                    d[x] = (dims[x],)
            return d
        cd = ["t"] + face + ["y_c", "x_c"]
        ud = ["t"] + face + ["y_c", "x_l"]
        vd = ["t"] + face + ["y_l", "x_c"]
        c = w.array("C", cd, ds, with_coords=not fc, dask=chunks(cd))
        u = w.array("U", ud, ds, dask=chunks(ud))
        v = w.array("V", vd, ds, dask=chunks(vd))
        return g, c, u, v, dims

    def call(g, c, u, v, dims, w):
        to = s.get("to", "left")
        if op in ("diff", "interp", "min", "max"):
            return getattr(g, op)(c, "X", to=to, boundary="extend")
        if op == "diff-multi":
            return g.diff(c, ["X", "Y"], boundary="extend")
        if op == "multi-diff-Youter-X":
            return g.diff(c, ["Y", "X"], to={"Y": "outer", "X": "left"}, boundary="extend")
        if op == "multi-interp-X-Yinner":
            return g.interp(c, ["X", "Y"], to={"X": "left", "Y": "inner"}, boundary="extend")
        if op == "multi-max-Xouter-chunkedY":
            return g.max(c, ["X", "Y"], to={"X": "outer", "Y": "left"}, boundary="extend")
        if op == "cumsum":
            return g.cumsum(c, "X", to="left", boundary="fill", fill_value=0.0)
        if op == "derivative":
            return g.derivative(c, "X", to="left", boundary="extend")
        if op == "integrate":
            return g.integrate(c, ["X", "Y"])
        if op == "average":
            return g.average(c, "X")
        if op == "cumint":
            return g.cumint(c, "X", to="left", boundary="fill", fill_value=0.0)
        if op == "apply_ufunc":
            f = w.userfunc("F", lambda arrs: [list(arrs[0].shape[:-1]) + [dims["x_l"]]])
            return g.apply_as_grid_ufunc(f, c, axis=[("X",)], signature="(Q:center)->(Q:left)", boundary_width={"Q": (1, 0)}, boundary="extend", dask="parallelized")
        if op in ("vector-simple", "fc-vector", "fc-rot-vector"):
            return g.diff({"X": u}, "X", to="center", other_component={"Y": v}, boundary="fill")
        if op == "vector-Y-not-last":
            return g.diff({"Y": v}, "Y", to="center", other_component={"X": u}, boundary="fill")
        if op in ("fc-scalar", "fc-rot-scalar"):
            return g.interp(c, "X", to="left", boundary="fill")
        raise ValueError(op)

    def body():
        rec = OverlapRecorder()
        outs = {}
        for lazy in (False, True):
            w = SymWorld()
            g, c, u, v, dims = build(w, lazy)
            symx.ctx().ghost.pop("eager", None)
            with util.patched((dsa, "map_overlap", rec)):
                try:
                    r = call(g, c, u, v, dims, w)
                    outs[lazy] = ("returned", r)
                except (symx.EngineUnsupported, symx.InfeasiblePath, symx.PathAbort):
                    raise
                except EagerEvaluation as e:
                    outs[lazy] = ("eager", e)
                except Exception as e:  # noqa
                    import traceback
                    outs[lazy] = ("raised", f"{type(e).__name__}: {e} @ {traceback.format_exc(limit=-2)[-250:]}", type(e).__name__)
            if lazy:
                oblige("no-eager-evaluation", not symx.ctx().ghost.get("eager") and outs[True][0] != "eager", detail=str(symx.ctx().ghost.get("eager")))
        covers["lazy"] = covers.get("lazy", 0) + 1
        if s.get("expect"):
            oblige("chunked-along-the-axis-with-inner/outer-is-refused-with-NotImplementedError", outs[True][0] == "raised" and outs[True][2] == s["expect"], detail=str(outs[True][:2]))
            oblige("the-same-request-in-memory-is-answered", outs[False][0] == "returned", detail=str(outs[False][:2]))
            covers["refused"] = 1
            return
        oblige("in-memory-call-returns", outs[False][0] == "returned", detail=str(outs[False][1]) if outs[False][0] != "returned" else None)
        oblige("lazy-input-accepted-wherever-in-memory-input-is", outs[True][0] == "returned", detail=str(outs[True][1]) if outs[True][0] != "returned" else None)
        if outs[False][0] != "returned" or outs[True][0] != "returned":
            return
        e, l = outs[False][1], outs[True][1]
        oblige("result-stays-lazy", l.dask is not None)
        oblige("same-dims-as-in-memory", tuple(e.dims) == tuple(l.dims), detail=f"{e.dims} vs {l.dims}")
        oblige("same-coordinates-as-in-memory", set(e.coords) == set(l.coords) and all(e.coords[k].tok == l.coords[k].tok for k in e.coords), detail=f"{list(e.coords)} vs {list(l.coords)}")
        if tuple(e.dims) == tuple(l.dims):
            q = {d: z3.Int(f"q_{d}") for d in e.dims}
            for d in e.dims:
                oblige(f"same-size:{d}", zint(e.sizes[d]) == zint(l.sizes[d]))
            oblige("same-values-as-in-memory(under the assumed dask contracts)", z3.simplify(e.elem(q)).eq(z3.simplify(l.elem(q))) or symx.ctx().check_valid(e.elem(q) == l.elem(q))[0] == "proved")
        # dispatch: informational only (how the result is obtained is not part of the property; when map_overlap IS used
        # its arguments are checked by the `map_overlap;...` structures)
        covers["map_overlap-used" if rec.calls else "map_overlap-not-used"] = 1
    with util.patched(*util.std_patches(mods)):
        rep = symx.explore(body, s["sid"])
    return pack(s, rep, f"lazy:{op}", covers)


def run_canary(s):
    def body():
        a = MArr(("x",), {"x": 3}, lambda idx: z3.RealVal(0), dask={"x": (3,)})
        try:
            a.values
            trapped = False
        except EagerEvaluation:
            trapped = True
        oblige("eager-evaluation-of-a-lazy-array-goes-unnoticed", not trapped)
    rep = symx.explore(body, s["sid"])
    return pack(s, rep, "canary", {}, canary_clause="eager-evaluation-of-a-lazy-array-goes-unnoticed")


# ---- (g) native, bounded -----------------------------------------------------------------------------------
def run_native(s):
    import warnings

    import dask
    import numpy as np
    import xarray as xr
    import xgcm
    from dask.callbacks import Callback

    warnings.simplefilter("ignore")

    class Count(Callback):
        n = 0

        def _start(self, dsk):
            Count.n += 1
    nx, ny, nt = 12, 5, 4
    ds = xr.Dataset(coords={"x_c": np.arange(nx), "x_l": np.arange(nx), "x_o": np.arange(nx + 1), "y_c": np.arange(ny), "y_l": np.arange(ny), "t": np.arange(nt)})
    rng = np.random.default_rng(0)
    ds["dx_c"] = ("x_c", rng.random(nx) + 1)
    ds["dx_l"] = ("x_l", rng.random(nx) + 1)
    ds["dy_c"] = ("y_c", rng.random(ny) + 1)
    g = xgcm.Grid(ds, coords={"X": {"center": "x_c", "left": "x_l", "outer": "x_o"}, "Y": {"center": "y_c", "left": "y_l"}}, periodic=False, autoparse_metadata=False,
                  metrics={("X",): ["dx_c", "dx_l"], ("Y",): ["dy_c"]})
    c = xr.DataArray(rng.random((nt, ny, nx)), dims=("t", "y_c", "x_c"), name="c")
    u = xr.DataArray(rng.random((nt, ny, nx)), dims=("t", "y_c", "x_l"), name="u")
    v = xr.DataArray(rng.random((nt, ny, nx)), dims=("t", "y_l", "x_c"), name="v")
    ops = {
        "diff": lambda a, u_, v_: g.diff(a, "X", to="left", boundary="extend"), "interp": lambda a, u_, v_: g.interp(a, ["X", "Y"], boundary="fill", fill_value=1.5),
        "max": lambda a, u_, v_: g.max(a, "Y", boundary="extend"), "cumsum": lambda a, u_, v_: g.cumsum(a, "X", to="left", boundary="fill", fill_value=0.0),
        "derivative": lambda a, u_, v_: g.derivative(a, "X", boundary="extend"), "integrate": lambda a, u_, v_: g.integrate(a, ["X", "Y"]), "average": lambda a, u_, v_: g.average(a, "X"),
        "cumint": lambda a, u_, v_: g.cumint(a, "X", to="left", boundary="fill", fill_value=0.0), "vector": lambda a, u_, v_: g.diff({"X": u_}, "X", to="center", other_component={"Y": v_}, boundary="fill"),
        # the operated dimension is not the last one of the component
        "vector-Y": lambda a, u_, v_: g.interp({"Y": v_}, "Y", to="center", other_component={"X": u_}, boundary="extend"),
    }
    layouts = [{"t": 1}, {"t": 3, "y_c": 2, "y_l": 2}, {"t": -1, "x_c": 5, "x_l": 5}, {"x_c": (1, 4, 7), "x_l": (1, 4, 7), "t": 2}, {"x_c": 1, "x_l": 1}, {"t": (1, 3), "y_c": (4, 1), "y_l": (4, 1), "x_c": (11, 1), "x_l": (11, 1)}]
    bad = []
    n = 0
    for name, f in ops.items():
        eager = f(c, u, v)
        for lay in layouts:
            if name in ("integrate", "average", "cumsum", "cumint") and any(k.startswith("x_") for k in lay):
                pass
            ch = lambda a: a.chunk({k: vv for k, vv in lay.items() if k in a.dims})  # noqa
            for sched in ("synchronous", "threads"):
                n += 1
                Count.n = 0
                try:
                    with Count():
                        lazy = f(ch(c), ch(u), ch(v))
                    built = Count.n
                    if not hasattr(lazy.data, "dask"):
                        bad.append(f"{name} {lay}: result is not lazy")
                        continue
                    with dask.config.set(scheduler=sched):
                        got = lazy.compute()
                    if built != 0:
                        bad.append(f"{name} {lay}: {built} graph execution(s) while building the result")
                    if got.dims != eager.dims or not np.allclose(got.values, eager.values):
                        bad.append(f"{name} {lay} {sched}: lazy result differs from the in-memory result")
                    if set(got.coords) != set(eager.coords):
                        bad.append(f"{name} {lay}: coordinates {sorted(got.coords)} vs {sorted(eager.coords)}")
                except NotImplementedError:
                    bad.append(f"{name} {lay}: refused with NotImplementedError")
                except Exception as e:  # noqa
                    bad.append(f"{name} {lay} {sched}: {type(e).__name__}: {str(e)[:120]}")
    # lazy inputs that carry a dask-backed NON-INDEX coordinate chunked differently from the data (e.g. a 2-D lon attached after
    # re-chunking): accepted like the same object in memory
    import dask.array as dsa
    lon = rng.random((ny, nx))
    for name in ("diff", "interp", "max", "derivative"):
        f = ops[name]
        eager = f(c.assign_coords(lon=(("y_c", "x_c"), lon)), u, v)
        for lay in ({"t": 2}, {"x_c": 5, "x_l": 5}):
            n += 1
            lazy_in = c.chunk({k: vv for k, vv in lay.items() if k in c.dims}).assign_coords(lon=(("y_c", "x_c"), dsa.from_array(lon, chunks=(2, 4))))
            try:
                Count.n = 0
                with Count():
                    lazy = f(lazy_in, u, v)
                got = lazy.compute()
                if Count.n > 1:
                    bad.append(f"{name} {lay} with a differently chunked lazy coordinate: computed while building")
                if got.dims != eager.dims or not np.allclose(got.values, eager.values):
                    bad.append(f"{name} {lay} with a differently chunked lazy coordinate: result differs from the in-memory result")
            except Exception as e:  # noqa
                bad.append(f"{name} {lay} with a differently chunked lazy coordinate (accepted in memory): {type(e).__name__}: {str(e)[:120]}")
    obs = [{"fn": "native[bounded]", "clause": "lazy==eager-and-no-compute-while-building(real dask, 2 schedulers)", "status": "proved" if not bad else "failed", "time": 0,
            "detail": f"{n} runs" if not bad else f"{len(bad)} problems, e.g. {bad[0]}", "witness": {"part": "native", "cases": bad[:5]}}]
    return {"sid": s["sid"], "obligations": obs, "paths": 0, "queries": 0, "solver_time": 0.0, "engine_errors": [], "covers": {"native": 1}, "counts": {"bounded_standin_evaluations": n}}


def run_structure(s):
    return {"pattern": run_pattern, "refusal": run_refusal, "overlap": run_overlap, "lazy": run_lazy, "canary": run_canary, "native": run_native}[s["part"]](s)


REQUIRED_COVERS = ["pattern", "refusal", "overlap", "lazy", "refused", "native"]


def replay(ob):
    wit = ob.get("witness") or {}
    if wit.get("part") == "native":
        return {"confirmed": bool(wit.get("cases")), "text": "\n".join(wit.get("cases") or [])}
    if wit.get("part") == "refusal":
        return {"confirmed": True, "text": f"_check_if_length_would_change: {wit.get('cases')}"}
    if wit.get("part") == "lazy":
        return replay_lazy(wit)
    return {"confirmed": False, "text": f"{wit.get('clause')}: {wit.get('detail')} (symbolic run of the real code; structure {wit.get('s')})"}


def replay_lazy(wit):
    """real xarray + real dask: the structure's call on in-memory data and on the same data chunked as in the structure"""
    import warnings

    import numpy as np
    import xarray as xr
    import xgcm

    warnings.simplefilter("ignore")
    s = wit["s"]
    op, chunking = s["op"], s["chunking"]
    fc = op.startswith("fc")
    multi = op.startswith("multi")
    nx = 6
    ny = nx if fc else 4
    nt = 3
    coords = {"X": {"center": "x_c", "left": "x_l", "outer": "x_o", "inner": "x_i"}, "Y": {"center": "y_c", "left": "y_l"}}
    dd = {"x_c": nx, "x_l": nx, "x_o": nx + 1, "x_i": nx - 1, "y_c": ny, "y_l": ny, "t": nt}
    if multi:
        coords["Y"].update({"outer": "y_o", "inner": "y_i"})
        dd.update({"y_o": ny + 1, "y_i": ny - 1})
    ds = xr.Dataset(coords={d: np.arange(n) for d, n in dd.items()})
    rng = np.random.default_rng(1)
    ds["dx_c"] = ("x_c", rng.random(nx) + 1)
    ds["dx_l"] = ("x_l", rng.random(nx) + 1)
    ds["dy_c"] = ("y_c", rng.random(ny) + 1)
    kw = dict(periodic=False, metrics={("X",): ["dx_c", "dx_l"], ("Y",): ["dy_c"]}, autoparse_metadata=False)
    face, fshape = (), ()
    if fc:
        ds = ds.assign_coords(face=np.arange(2))
        kw["face_connections"] = {"face": {0: {"X": (None, (1, "X", False))}, 1: {"X": ((0, "X", False), None)}}}
        if "rot" in op:
            kw["face_connections"] = {"face": {0: {"X": (None, (1, "Y", False))}, 1: {"Y": ((0, "X", False), None)}}}
        face, fshape = ("face",), (2,)
    g = xgcm.Grid(ds, coords=coords, **kw)
    c0 = xr.DataArray(rng.random((nt,) + fshape + (ny, nx)), dims=("t",) + face + ("y_c", "x_c"), name="C")
    u0 = xr.DataArray(rng.random((nt,) + fshape + (ny, nx)), dims=("t",) + face + ("y_c", "x_l"), name="U")
    v0 = xr.DataArray(rng.random((nt,) + fshape + (ny, nx)), dims=("t",) + face + ("y_l", "x_c"), name="V")
    xch = {"non-core": (nx,), "core-2": (4, 2), "core-3": (1, 3, 2), "core-y2": (nx,)}[chunking]
    ych = (3, 1) if chunking == "core-y2" else (ny,)

    def lazy(a):
        ch = {"t": (2, 1)}
        for d in a.dims:
            if d in ("x_c", "x_l"):
                ch[d] = xch
            if d in ("y_c", "y_l"):
                ch[d] = ych
            if d == "face":
                ch[d] = (1, 1)
        return a.chunk(ch)

    def call(c, u, v):
        to = s.get("to", "left")
        if op in ("diff", "interp", "min", "max"):
            return getattr(g, op)(c, "X", to=to, boundary="extend")
        if op == "diff-multi":
            return g.diff(c, ["X", "Y"], boundary="extend")
        if op == "multi-diff-Youter-X":
            return g.diff(c, ["Y", "X"], to={"Y": "outer", "X": "left"}, boundary="extend")
        if op == "multi-interp-X-Yinner":
            return g.interp(c, ["X", "Y"], to={"X": "left", "Y": "inner"}, boundary="extend")
        if op == "multi-max-Xouter-chunkedY":
            return g.max(c, ["X", "Y"], to={"X": "outer", "Y": "left"}, boundary="extend")
        if op == "cumsum":
            return g.cumsum(c, "X", to="left", boundary="fill", fill_value=0.0)
        if op == "derivative":
            return g.derivative(c, "X", to="left", boundary="extend")
        if op == "integrate":
            return g.integrate(c, ["X", "Y"])
        if op == "average":
            return g.average(c, "X")
        if op == "cumint":
            return g.cumint(c, "X", to="left", boundary="fill", fill_value=0.0)
        if op in ("vector-simple", "fc-vector", "fc-rot-vector"):
            return g.diff({"X": u}, "X", to="center", other_component={"Y": v}, boundary="fill")
        if op == "vector-Y-not-last":
            return g.diff({"Y": v}, "Y", to="center", other_component={"X": u}, boundary="fill")
        if op in ("fc-scalar", "fc-rot-scalar"):
            return g.interp(c, "X", to="left", boundary="fill")
        return None
    if op == "apply_ufunc":
        return {"confirmed": False, "text": "no native replay for the uninterpreted user function"}
    res = {}
    from dask.callbacks import Callback

    class Count(Callback):
        n = 0

        def _start(self, dsk):
            Count.n += 1
    for kind, args in (("in-memory", (c0, u0, v0)), ("lazy", (lazy(c0), lazy(u0), lazy(v0)))):
        try:
            if kind == "lazy":
                with Count():
                    r = call(*args)
            else:
                r = call(*args)
            res[kind] = ("returned", r)
        except Exception as e:  # noqa
            res[kind] = ("raised", f"{type(e).__name__}: {e}"[:300])
    text = [f"operation {op}, chunks along x {xch}, along y {ych}, along t (2, 1)", f"in-memory: {res['in-memory'][0]} {res['in-memory'][1] if res['in-memory'][0] == 'raised' else ''}",
            f"lazy: {res['lazy'][0]} {res['lazy'][1] if res['lazy'][0] == 'raised' else ''}"]
    if s.get("expect"):
        conf = not (res["lazy"][0] == "raised" and res["lazy"][1].startswith(s["expect"]) and res["in-memory"][0] == "returned")
        return {"confirmed": conf, "text": "\n".join(text)}
    if Count.n:
        return {"confirmed": True, "text": "\n".join(text + [f"REAL CODE: {Count.n} computation(s) were triggered while the result for the lazy input was being built"])}
    if res["in-memory"][0] != res["lazy"][0]:
        return {"confirmed": True, "text": "\n".join(text + ["REAL CODE: lazy input is not accepted where the in-memory input is (or the reverse)"])}
    if res["lazy"][0] == "returned":
        e, l = res["in-memory"][1], res["lazy"][1]
        if not hasattr(l.data, "dask"):
            return {"confirmed": True, "text": "\n".join(text + ["REAL CODE: the result of the lazy call is not lazy"])}
        lv = l.compute()
        if e.dims != lv.dims or not np.allclose(e.values, lv.values, equal_nan=True):
            return {"confirmed": True, "text": "\n".join(text + [f"REAL CODE: lazy result differs from the in-memory result (dims {lv.dims} vs {e.dims})"])}
    return {"confirmed": False, "text": "\n".join(text + ["lazy and in-memory agree natively"])}
