"""C13 - axis, dimension and variable names are opaque labels.

The contracts of the other properties are written over *roles* (axis 1, its centre dimension, ...),
never over spellings.  This harness re-proves a cross-section of them (stencil operators, cumsum,
metric operations with the axis given as plain string or list, grid ufuncs with renamed dummy names,
transform, padding across an axis-swapping link, COMODO / SGRID parsing) under a FAMILY OF
ADVERSARIAL INJECTIVE RENAMINGS of axes, dimensions, variables and dummy names: single letters that
occur in the position words, names containing position words, prefix / substring pairs, case
variants, 12-character names.  For each renaming the same call must be accepted and satisfy the same
role-level postcondition (sizes, data, fill values symbolic) - i.e. renaming changes nothing but the
labels.  The family is finite: the renaming quantifier is BOUNDED (stated in the evidence); inside
each renaming everything numeric is universally quantified.
"""
from __future__ import annotations

import copy
import itertools
import json
import warnings

import z3

from vp import symx, util
from vp.symx import oblige, zint
from vp.mxr import MArr, NArr
from vp.world import SymWorld, NativeWorld, model_values
from contracts import spec
from harness import C01, C05, C09, C11, C14

PROPERTY = "C13"
META = {
    "level": "proof",
    "functions_under_contract": ["role-level contracts of C01/C05/C09/C10/C11/C14 and of transform's plumbing, re-proved under adversarial renamings: Grid.diff/interp/min/cumsum, Grid.integrate/average/derivative/cumint/get_metric (axis as str or list), "
                                 "apply_as_grid_ufunc (dummy names), transform (target / target_dim names), padding._pad_face_connections / _maybe_swap_dimension_names / _maybe_rename_grid_positions, comodo / sgrid parsers"],
    "trusted_base": ["xarray / numpy treat dimension, coordinate and variable names as opaque labels (library models of vp/mxr.py compare names only for equality)", "CPython executes the functions as written", "z3 5.1 is sound"],
    "assumptions": ["renamings are injective and avoid the five position words as whole names (as in the statement)",
                    "the family of renamings is finite (bounded quantifier over names): 14 axis-name families x dimension-name families; numeric content symbolic"],
    "bounded_standins": ["the quantifier over renamings is bounded to the adversarial family listed in coverage.renamings"],
}

# (axis names for roles A1, A2, A3), tag
AXIS_FAMILIES = [
    (("X", "Y", "Z"), "baseline"), (("t", "e", "r"), "letters-of-position-words-1"), (("n", "c", "l"), "letters-of-position-words-2"), (("i", "o", "u"), "letters-3"),
    (("g", "h", "f"), "letters-4"), (("center_x", "Xleft", "inner_axis"), "contain-position-words"), (("lon", "lon2", "lo"), "prefixes-of-each-other"),
    (("a", "aa", "aaa"), "substrings"), (("x", "X", "xX"), "case-variants"), (("longitudinal", "latitudinal_", "depth_levels"), "twelve-characters"),
    (("depth", "time", "temp"), "multi-letter-words"), (("__a", "__b", "A"), "like-internal-replacement-names"), (("outerX", "rightY", "leftZ"), "position-word-prefix"), (("Xx", "xx", "xX_"), "mixed"),
]
DIM_FAMILIES = [
    (lambda k, p: f"d{k}_{p[0]}", "plain"),
    (lambda k, p: ["x", "xx", "xxx", "xxxx", "x_"][["center", "left", "right", "inner", "outer"].index(p)] + "yz"[:k], "substrings-of-each-other"),
    (lambda k, p: f"{p}dim{k}", "start-with-position-word"),
    (lambda k, p: ["T", "t", "Tt", "tT", "TT"][["center", "left", "right", "inner", "outer"].index(p)] + str(k), "case-variants"),
    (lambda k, p: f"dimension_{k}{p[0]}"[:12].ljust(12, "q"), "twelve-characters"),
    # names that are keyword-argument names of the xarray methods xgcm calls (isel(drop=, indexers=, missing_dims=), rename(...), pad(mode=...))
    (lambda k, p: ["drop", "indexers", "missing_dims", "mode", "dim"][["center", "left", "right", "inner", "outer"].index(p)] + ("" if k == 0 else str(k)), "xarray-keyword-names"),
]
ROLES = ["X", "Y", "Z"]


def rename_struct(s, amap, dimf):
    """apply the axis renaming to every field of a C01-style structure and choose dimension names"""
    s = copy.deepcopy(s)

    def ren(v):
        if isinstance(v, dict):
            return {amap.get(k, k): x for k, x in v.items()}
        if isinstance(v, list):
            return [amap.get(k, k) for k in v]
        if isinstance(v, str):
            return amap.get(v, v)
        return v
    dimnames = {}
    for k, (role, poss) in enumerate(s["axes"].items()):
        for p in poss:
            dimnames[f"{amap[role]}|{p}"] = dimf(k, p)
    s["axes"] = ren(s["axes"])
    s["arr"] = ren(s["arr"])
    s["axis"] = ren(s["axis"])
    for f in ("cboundary", "cfill", "gboundary", "gfill", "dshifts", "metric_weighted"):
        if isinstance(s.get(f), dict):
            s[f] = ren(s[f])
    if isinstance(s.get("to"), dict):
        s["to"] = ren(s["to"])
    if isinstance(s.get("gperiodic"), (list, dict)):
        s["gperiodic"] = ren(s["gperiodic"])
    s["dimnames"] = dimnames
    s["extra_names"] = ["member", "run_id"]
    s["array_name"] = "field_" + "".join(amap[r] for r in list(amap)[:1])
    return s


BASE_OPS = [
    dict(op="diff", axes={"X": ("center", "left")}, arr={"X": "center"}, axis="X", to="left", cboundary="fill", cfill="S", extra=1),
    dict(op="interp", axes={"X": ("center", "outer", "inner")}, arr={"X": "inner"}, axis="X", to=None, gperiodic=False, gfill={"X": "S"}),
    dict(op="min", axes={"X": ("center", "left"), "Y": ("center", "right", "outer")}, arr={"X": "left", "Y": "center"}, axis=["Y", "X"], to={"X": "center", "Y": "outer"},
         cboundary={"X": "extend", "Y": "fill"}, cfill={"Y": "S"}, gperiodic=["X"], extra=1, order=(2, 0, 1)),
    dict(op="cumsum", axes={"X": ("center", "outer")}, arr={"X": "center"}, axis="X", to="outer", cboundary="fill", cfill="S", extra=1),
    dict(op="cumsum", axes={"X": ("center", "left", "inner")}, arr={"X": "center"}, axis="X", to="left", cboundary="fill", cfill="S", extra=1),
    dict(op="cumsum", axes={"X": ("center", "left", "inner")}, arr={"X": "center"}, axis="X", to="inner", cboundary="extend", extra=0),
    dict(op="diff", axes={"X": ("center", "left"), "Y": ("center", "left"), "Z": ("center", "outer")}, arr={"X": "center", "Y": "left", "Z": "outer"}, axis=["Z", "X"], to=None,
         gboundary={"X": "extend", "Z": "fill"}, gperiodic={"X": False, "Y": True, "Z": False}),
]


def structures(tier, seed):
    out = []
    fams = AXIS_FAMILIES if tier == "thorough" else AXIS_FAMILIES
    for (names, atag), (k, (dimf, dtag)) in itertools.product(fams, enumerate(DIM_FAMILIES)):
        if tier == "quick" and (AXIS_FAMILIES.index((names, atag)) + k) % 3 != 0 and atag != "baseline":
            continue
        out.append({"part": "ops", "sid": f"ops;axes={atag};dims={dtag}", "names": list(names), "dimfam": k})
    for names, atag in fams:
        out.append({"part": "metrics", "sid": f"metrics;axes={atag}", "names": list(names)})
        out.append({"part": "ufunc", "sid": f"ufunc;dummies={atag}", "names": list(names)})
        out.append({"part": "pad", "sid": f"pad-swap-link;axes={atag}", "names": list(names)})
    for k, (reg, arr) in enumerate([({("X", "Y"): ["a_cc"], ("Y", "Z"): ["yz_cc"], ("X",): ["dx_c"], ("Z",): ["dz_c"], ("Y",): ["dy_c"]}, "ccc"),
                                   ({("X", "Y"): ["a_lc"], ("Y", "Z"): ["yz_cc"], ("X",): ["dx_l"], ("Z",): ["dz_c"]}, "lcc"),
                                   ({("X",): ["dx_c"], ("Y",): ["dy_c"], ("Z",): ["dz_c"], ("Y", "Z"): ["yz_cc"]}, "ccc")]):
        out.append({"part": "metric-choice", "sid": f"metric-choice;{k}", "reg": reg, "array": arr})
    for k, (entry, rules) in enumerate([({"X1": ["same", False]}, {"X": "extend", "Y": "fill"}), ({"X1": ["swap", False], "Y0": ["swap", False]}, {"X": "extend", "Y": "extend"}),
                                        ({"X0": ["same", True], "Y1": ["same", False]}, {"X": "fill", "Y": "periodic"})]):
        out.append({"part": "pad-corners", "sid": f"pad-corners;{k}", "entry": entry, "rules": rules})
    for tdim in ("s", "sigma", "rho_levels_x", "left_sigma", "TRANSFORMED_DIMENSION"):
        out.append({"part": "transform", "sid": f"transform;target_dim={tdim}", "tdim": tdim})
    for k, names in enumerate((("xi_psi", "xi_rho"), ("xi", "xi_rho"), ("n", "cn"), ("node", "node_center"), ("Xn", "xn"))):
        out.append({"part": "sgrid", "sid": f"sgrid;node={names[0]};cell={names[1]}", "node": names[0], "cell": names[1]})
    for k, names in enumerate((("xc", "xg"), ("x", "xx"), ("left", "center_dim"), ("T", "t"))):
        out.append({"part": "comodo", "sid": f"comodo;dims={names[0]},{names[1]}", "dims": list(names)})
    for clash in ("pad-dummy", "transform-temp"):
        out.append({"part": "tempname", "sid": f"temporary-name-clash;{clash}", "clash": clash})
    return out


def guarded(fn):
    try:
        return fn(), None
    except (symx.EngineUnsupported, symx.InfeasiblePath, symx.PathAbort):
        raise
    except Exception as e:  # noqa
        import traceback
        return None, f"{type(e).__name__}: {e} @ {traceback.format_exc(limit=-2)[-250:]}"


def base_struct(b):
    d = dict(part="op", op="diff", axes={"X": ("center", "left")}, arr={"X": "center"}, axis="X", to=None, order=None, extra=0, gperiodic=True,
             gboundary=None, gfill=None, cboundary=None, cfill=None, dshifts=None, coords=True, canary=None)
    d.update(b)
    d["sid"] = "base"
    return d


def run_ops(s):
    mods = util.xgcm_modules()
    amap = dict(zip(ROLES, s["names"]))
    dimf = DIM_FAMILIES[s["dimfam"]][0]
    obs = []
    stats = dict(paths=0, queries=0, solver_time=0.0, engine_errors=[])
    covers = {}
    for bi, b in enumerate(BASE_OPS):
        st = rename_struct(base_struct(b), amap, dimf)
        tag = f"{b['op']}#{bi}"

        def body():
            w = SymWorld()
            r, err = guarded(lambda: C01.scenario(st, w))
            oblige(f"{tag}:accepted-like-the-baseline-naming", err is None, detail=err)
            if err is not None:
                return
            covers["accepted"] = covers.get("accepted", 0) + 1
            out, da = r["out"], r["da"]
            sp = C09.single_spec(st, r) if st["op"] == "cumsum" else C01.op_spec(st, r)
            oblige(f"{tag}:dims-are-the-renamed-dims", tuple(out.dims) == tuple(sp["dims"]), detail=f"{out.dims} vs {sp['dims']}")
            if set(out.dims) != set(sp["dims"]):
                return
            for d in sp["dims"]:
                oblige(f"{tag}:size:{sp['dims'].index(d)}", zint(out.sizes[d]) == sp["sizes"][d])
            for name, region, val in sp["cells"]:
                oblige(f"{tag}:same-numbers", z3.Implies(region, out.elem(sp["q"]) == val))
            oblige(f"{tag}:name-kept", out.name == da.name)
        with util.patched(*util.std_patches(mods)):
            rep = symx.explore(body, s["sid"] + tag)
        for k2 in ("paths", "queries", "solver_time"):
            stats[k2] += getattr(rep, k2)
        stats["engine_errors"] += rep.engine_errors
        for name, ob in rep.merged().items():
            rec = {"fn": f"grid.Grid.{b['op']}", "clause": name, "status": ob.status, "time": ob.time, "detail": ob.detail}
            if ob.status == "failed":
                rec["witness"] = {"part": "ops", "struct": st, "model": model_values(ob.model)}
            obs.append(rec)
    return {"sid": s["sid"], "obligations": obs, "covers": covers, **stats}


def metrics_scenario(w, names):
    A1, A2 = names[0], names[1]
    lay = {A1: {"center": f"{A1}_cc", "left": f"{A1}_ll"}, A2: {"center": f"c_{A2}", "outer": f"o_{A2}"}}
    n1, n2 = w.size("n_1", 2), w.size("n_2", 2)
    mk = (lambda e: e) if w.native else symx.mk_int
    dims = {lay[A1]["center"]: n1, lay[A1]["left"]: n1, lay[A2]["center"]: n2, lay[A2]["outer"]: (n2 + 1) if w.native else symx.mk_int(zint(n2) + 1), "member": w.size("n_m", 1)}
    mv = {f"len_{A1}": (lay[A1]["center"],), f"len_{A1}_at_left": (lay[A1]["left"],), f"len_{A2}": (lay[A2]["center"],), f"area_{A1}{A2}": (lay[A1]["center"], lay[A2]["center"])}
    ds = w.dataset(dims, coords={d: (d,) for d in dims}, data_vars=mv)
    g = w.grid(ds, lay, periodic=False, metrics={(A1,): [f"len_{A1}", f"len_{A1}_at_left"], (A2,): [f"len_{A2}"], (A1, A2): [f"area_{A1}{A2}"]})
    da = w.array("D", ["member", lay[A2]["center"], lay[A1]["center"]], ds, with_coords=True)
    return lay, dims, ds, g, da, mv


def run_metrics(s):
    mods = util.xgcm_modules()
    names = s["names"]
    A1, A2 = names[0], names[1]
    covers = {}

    def body():
        w = SymWorld()
        lay, dims, ds, g, da, mv = metrics_scenario(w, names)
        c1, c2 = lay[A1]["center"], lay[A2]["center"]
        dx = ds[f"len_{A1}"].reset_coords(drop=True)
        dxl = ds[f"len_{A1}_at_left"]
        area = ds[f"area_{A1}{A2}"].reset_coords(drop=True)
        for spelling, ax in (("plain-string", A1), ("list", [A1]), ("tuple", (A1,))):
            r, err = guarded(lambda: g.integrate(da, ax))
            oblige(f"integrate({spelling}):accepted", err is None, detail=err)
            if err is None:
                want = (da * dx).sum(c1)
                q = {d: z3.Int(f"q_{k}") for k, d in enumerate(r.dims)}
                oblige(f"integrate({spelling}):dims", set(r.dims) == {"member", c2})
                if set(r.dims) == {"member", c2}:
                    oblige(f"integrate({spelling}):same-numbers", r.elem(q) == want.elem(q))
            r, err = guarded(lambda: g.get_metric(da, ax))
            oblige(f"get_metric({spelling}):accepted", err is None, detail=err)
            if err is None:
                q1 = z3.Int("q1")
                oblige(f"get_metric({spelling}):is-the-registered-variable", tuple(r.dims) == (c1,) and z3.simplify(r.elem({c1: q1})).eq(z3.simplify(dx.elem({c1: q1}))), detail=str(r.dims))
            r, err = guarded(lambda: g.average(da, ax))
            oblige(f"average({spelling}):accepted", err is None, detail=err)
            r, err = guarded(lambda: g.cumint(da, ax, to="left", boundary="fill", fill_value=0.0))
            oblige(f"cumint({spelling}):accepted", err is None, detail=err)
        r, err = guarded(lambda: g.integrate(da, [A1, A2]))
        oblige("integrate(two-axes):accepted", err is None, detail=err)
        if err is None:
            want = (da * area).sum([c1, c2])
            qm = z3.Int("qm")
            oblige("integrate(two-axes):same-numbers", tuple(r.dims) == ("member",) and z3.simplify(r.elem({"member": qm})).eq(z3.simplify(want.elem({"member": qm}))))
        r, err = guarded(lambda: g.derivative(da, A1, to="left", boundary="extend"))
        oblige("derivative:accepted", err is None, detail=err)
        if err is None:
            s1 = dict(axes={A1: ("center", "left"), A2: ("center", "outer")}, arr={A1: "center"}, axis=A1, to="left", cboundary="extend", gboundary=None, gperiodic=False, op="diff", dshifts=None)
            rr = dict(da=da, layout=lay, ns={A1: w.consts["n_1"], A2: w.consts["n_2"]}, cfill=None, gfill=None)
            sp = C01.op_spec(s1, rr)
            oblige("derivative:dims", tuple(r.dims) == tuple(sp["dims"]), detail=f"{r.dims} {sp['dims']}")
            if tuple(r.dims) == tuple(sp["dims"]):
                for name, region, val in sp["cells"]:
                    oblige("derivative:same-numbers", z3.Implies(region, r.elem(sp["q"]) == val / dxl.elem({lay[A1]["left"]: sp["q"][lay[A1]["left"]]})))
        if len(A1) > 1:
            # canary: iterating the characters of the axis name must be noticed
            r, err = guarded(lambda: g._get_dims_from_axis(da, frozenset(A1)))
            oblige("canary:name-split-into-letters:accepted", err is None)
        covers["ran"] = 1
    with util.patched(*util.std_patches(mods)):
        rep = symx.explore(body, s["sid"])
    obs = []
    for name, ob in rep.merged().items():
        rec = {"fn": "grid.Grid.integrate/get_metric/average/cumint/derivative", "clause": name, "status": ob.status, "time": ob.time, "detail": ob.detail}
        if ob.status == "failed":
            rec["witness"] = {"part": "metrics", "names": names, "clause": name, "detail": ob.detail}
        if name.startswith("canary:"):
            rec["canary"] = True
        obs.append(rec)
    return {"sid": s["sid"], "obligations": obs, "paths": rep.paths, "queries": rep.queries, "solver_time": rep.solver_time, "engine_errors": rep.engine_errors, "covers": covers}


def run_metric_choice(s):
    """relational: which registered metrics get_metric multiplies for three axes (several admissible partitions) - and hence the
    numbers of integrate / average - is the same under every renaming of the axes, in particular under renamings whose
    alphabetical order differs from the order in which the axes are passed"""
    from harness import C10
    from harness.C10 import DemonicFrozenSet
    from vp.util import DemonicSet
    from vp.gridlib import make_layout as mk
    mods = util.xgcm_modules()
    covers = {}
    namings = [("X", "Y", "Z"), ("lon", "lat", "depth"), ("c", "b", "a"), ("zeta", "eta", "xi"), ("b", "a", "c"), ("Xx", "X", "x")]
    records = []
    rep_all = None
    reg = s["reg"]
    for nm in namings:
        ren = dict(zip(("X", "Y", "Z"), nm))

        def body():
            w = SymWorld()
            layout = mk(C10.LAY)
            ns = {a: w.size(f"n_{a}", 2) for a in C10.LAY}
            dims = {}
            for a in C10.LAY:
                for pos, d in layout[a].items():
                    dims[d] = symx.mk_int(spec.len_pos(pos, zint(ns[a])))
            dims["t"] = w.size("n_t", 1)
            ds = w.dataset(dims, coords={d: (d,) for d in dims}, data_vars={k: v[1] for k, v in C10.POOL.items()})
            lay2 = {ren[a]: layout[a] for a in C10.LAY}
            metrics = {tuple(ren[c] for c in k): list(v) for k, v in reg.items()}
            g = w.grid(ds, lay2, periodic=False, metrics=metrics)
            arr = w.array("A", list(C10.ARRAYS[s["array"]]), ds)
            out = {"order": nm, "flags": {}, "terms": {}}
            for tag, req in (("XYZ", ["X", "Y", "Z"]), ("ZXY", ["Z", "X", "Y"]), ("YZX", ["Y", "Z", "X"])):
                r, err = guarded(lambda: g.get_metric(arr, [ren[a] for a in req]))
                out["flags"][f"exit:{tag}"] = "return" if err is None else err.split(":")[0]
                if err is None:
                    out["flags"][f"dims:{tag}"] = tuple(sorted(r.dims))
                    q = {d: z3.Int(f"q_{d}") for d in r.dims}
                    out["terms"][f"metric:{tag}"] = r.elem(q)
            covers["ran"] = covers.get("ran", 0) + 1
            return out
        with util.patched(*util.std_patches(mods), (mods["metrics"], "frozenset", DemonicFrozenSet), (mods["grid"], "frozenset", DemonicFrozenSet), (mods["grid"], "set", DemonicSet)):
            rep, recs = symx.explore_records(body, s["sid"])
        records += recs
        if rep_all is None:
            rep_all = rep
        else:
            rep_all.paths += rep.paths
            rep_all.queries += rep.queries
            rep_all.solver_time += rep.solver_time
            rep_all.engine_errors += rep.engine_errors
    diffs, n = symx.compare_records(records)
    failed = [d for d in diffs if d[0] == "failed"]
    unknown = [d for d in diffs if d[0] == "unknown"]
    st = "failed" if failed else ("unknown" if unknown else "proved")
    rec = {"fn": "grid.Grid.get_metric", "clause": "metric-chosen-for-three-axes-independent-of-the-axis-names", "status": st, "time": 0,
           "detail": f"{n} jointly feasible pairs compared" if st == "proved" else f"{(failed or unknown)[0][1]} differs between namings {(failed or unknown)[0][2]['order']} and {(failed or unknown)[0][3]['order']}"}
    if failed:
        rec["witness"] = {"part": "metric-choice", "namings": [list(failed[0][2]["order"]), list(failed[0][3]["order"])], "reg": {"".join(k): v for k, v in reg.items()}, "array": s["array"]}
    return {"sid": s["sid"], "obligations": [rec], "paths": rep_all.paths, "queries": rep_all.queries, "solver_time": rep_all.solver_time, "engine_errors": rep_all.engine_errors, "covers": covers,
            "counts": {"naming_pairs_compared": n}}


def run_ufunc(s):
    """C11's contract with renamed dummy axis names (real axis names stay lon/lat/lev)"""
    import re as _re

    names = s["names"]
    obs = []
    covers = {}
    stats = dict(paths=0, queries=0, solver_time=0.0, engine_errors=[])
    saved = copy.deepcopy(C11.SIGS)
    try:
        dm = {"X": names[0], "Y": names[1], "A": names[0], "B": names[1], "Q": names[2]}
        for key, cfg in C11.SIGS.items():
            cfg["sig"] = _re.sub(r"(\w+):", lambda m: dm.get(m.group(1), m.group(1)) + ":", saved[key]["sig"])
            cfg["bw"] = None if saved[key]["bw"] is None else {dm.get(k, k): v for k, v in saved[key]["bw"].items()}
        for sig in ("1in1out", "2ax", "2ax-swapped", "2in", "3in", "rebind"):
            for way in ("apply", "decorator-def", "hints"):
                st = dict(sig=sig, way=way, rule="fill", fillmode="scalar", pad_before=True, extra=1, canary=None)
                st["sid"] = f"{sig};{way}"
                r = C11.run_structure(st)
                for k2 in ("paths", "queries", "solver_time"):
                    stats[k2] += r[k2]
                stats["engine_errors"] += r["engine_errors"]
                covers["ran"] = covers.get("ran", 0) + 1
                for o in r["obligations"]:
                    o = dict(o, clause=f"{sig};{way}:{o['clause']}")
                    if o["status"] == "failed":
                        o["witness"] = {"part": "ufunc", "names": names, "sig": C11.SIGS[sig]["sig"], "way": way, "clause": o["clause"], "detail": o.get("detail")}
                    obs.append(o)
    finally:
        C11.SIGS.clear()
        C11.SIGS.update(saved)
    return {"sid": s["sid"], "obligations": obs, "covers": covers, **stats}


def run_pad(s):
    """C05's contract for an axis-swapping link (uses the temporary-name machinery) under renamed axes / dims"""
    names = s["names"]
    A1, A2 = names[0], names[1]
    mods = util.xgcm_modules()
    P = mods["padding"]
    covers = {}
    obs = []
    stats = dict(paths=0, queries=0, solver_time=0.0, engine_errors=[])
    import xgcm.axis as AXM
    dn = {"x": f"{A1}_c", "xl": f"{A1}_g", "y": f"c{A2}", "yl": f"g{A2}", "face": "tile"}
    for kind, link in ((None, ("swap", False)), ("X", ("swap", True)), ("Y", ("swap", False)), (None, ("same", True))):
        s5 = C05.mk(kind, {("X", 1): link}, ("X",), {"X": "fill", "Y": "extend"})

        def body():
            b = C05.build(s5)
            # rename: axes and dims of the ghost grid and of the data
            ren = lambda d: dn.get(d, d)  # noqa
            g = b["grid"]
            ds2 = None
            from vp.mxr import MDataset
            dsz = {ren(d): v for d, v in {"x": b["N"], "xl": b["N"], "y": b["N"], "yl": b["N"], "face": b["F"]}.items()}
            ds2 = MDataset(dsz)
            g.axes = {A1: AXM.Axis(ds2, A1, {"center": dn["x"], "left": dn["xl"]}), A2: AXM.Axis(ds2, A2, {"center": dn["y"], "left": dn["yl"]})}
            g._facedim = "tile"
            tab = g._face_connections["face"]
            amap = {"X": A1, "Y": A2}
            tab.entry = {amap[a]: tuple(None if l is None else (l[0], amap[l[1]], l[2]) for l in lr) for a, lr in tab.entry.items()}
            tab.conn_axes = [amap[a] for a in tab.conn_axes]
            g._face_connections = {"tile": tab}
            da = b["da"].rename({d: ren(d) for d in b["da"].dims})
            pa = None if b["partner"] is None else b["partner"].rename({d: ren(d) for d in b["partner"].dims})
            arg = da if kind is None else {amap[kind]: da}
            oc = None if kind is None else {amap[C05.OTHER[kind]]: pa}
            W = {A1: b["W"]["X"]}
            out, err = guarded(lambda: P._pad_face_connections(arg, g, W, {A1: "fill", A2: "extend"}, {A1: symx.SymFloat(b["fills"]["X"]), A2: symx.SymFloat(b["fills"]["Y"])}, other_component=oc))
            oblige("accepted-like-the-baseline-naming", err is None, detail=err)
            if err is None:
                covers["padded"] = covers.get("padded", 0) + 1
                back = out.rename({ren(d): d for d in ("x", "xl", "y", "yl", "face") if ren(d) in out.dims})
                for name, goal in C05.expected(s5, b, back, None):
                    oblige(name, goal)
        with util.patched(*util.std_patches(mods, sets=True)):
            rep = symx.explore(body, s["sid"])
        for k2 in ("paths", "queries", "solver_time"):
            stats[k2] += getattr(rep, k2)
        stats["engine_errors"] += rep.engine_errors
        for name, ob in rep.merged().items():
            rec = {"fn": "padding._pad_face_connections", "clause": f"kind={kind};link={link[0]}{'-rev' if link[1] else ''}:{name}", "status": ob.status, "time": ob.time, "detail": ob.detail}
            if ob.status == "failed":
                rec["witness"] = {"part": "pad", "names": names, "detail": ob.detail}
            obs.append(rec)
    return {"sid": s["sid"], "obligations": obs, "covers": covers, **stats}


def run_pad_corners(s):
    """relational: the FULL padded array (corner cells included) of a two-axis halo on a face-connected grid is the same
    under every renaming of the axes - in particular under renamings that change the alphabetical order of the names"""
    mods = util.xgcm_modules()
    P = mods["padding"]
    import xgcm.axis as AXM
    from vp.mxr import MDataset
    covers = {}
    namings = [("X", "Y"), ("lon", "lat"), ("x", "Y"), ("b", "a"), ("outerX", "cent"), ("Y", "X")]
    records = []
    rep_all = None
    entry = {(k[0], int(k[1])): tuple(v) for k, v in s["entry"].items()}
    s5 = C05.mk(None, entry, ("X", "Y"), dict(s["rules"]))
    for (A1, A2) in namings:
        dn = {"x": f"{A1}_c", "xl": f"{A1}_g", "y": f"c{A2}", "yl": f"g{A2}", "face": "tile"}

        def body():
            b = C05.build(s5)
            ren = lambda d: dn.get(d, d)  # noqa
            g = b["grid"]
            ds2 = MDataset({ren(d): v for d, v in {"x": b["N"], "xl": b["N"], "y": b["N"], "yl": b["N"], "face": b["F"]}.items()})
            # the grid lists its axes in the order (role X, role Y) whatever they are called
            g.axes = {A1: AXM.Axis(ds2, A1, {"center": dn["x"], "left": dn["xl"]}), A2: AXM.Axis(ds2, A2, {"center": dn["y"], "left": dn["yl"]})}
            g._facedim = "tile"
            tab = g._face_connections["face"]
            amap = {"X": A1, "Y": A2}
            tab.entry = {amap[a]: tuple(None if l is None else (l[0], amap[l[1]], l[2]) for l in lr) for a, lr in tab.entry.items()}
            tab.conn_axes = [amap[a] for a in tab.conn_axes]
            g._face_connections = {"tile": tab}
            da = b["da"].rename({d: ren(d) for d in b["da"].dims})
            W = {A1: b["W"]["X"], A2: b["W"]["Y"]}
            out, err = guarded(lambda: P._pad_face_connections(da, g, W, {A1: s5["rules"]["X"], A2: s5["rules"]["Y"]},
                                                                {A1: symx.SymFloat(b["fills"]["X"]), A2: symx.SymFloat(b["fills"]["Y"])}))
            if err is not None:
                return {"order": (A1, A2), "flags": {"exit": err.split(":")[0]}, "terms": {}}
            covers["padded"] = covers.get("padded", 0) + 1
            back = out.rename({ren(d): d for d in ("x", "xl", "y", "yl", "face") if ren(d) in out.dims})
            gen = symx.ctx().ghost.get("generic")
            q = {d: z3.Int(f"q_{d}") for d in back.dims}
            q["face"] = gen[0]
            rng = z3.And(*[z3.And(q[d] >= 0, q[d] < zint(back.sizes[d])) for d in back.dims if d != "face"])
            return {"order": (A1, A2), "flags": {"exit": "return", "dims": tuple(sorted(back.dims))},
                    "terms": {"value(every cell incl. corners)": z3.If(rng, back.elem(q), z3.RealVal(0)), **{f"size:{d}": zint(back.sizes[d]) for d in back.dims}}}
        with util.patched(*util.std_patches(mods, sets=True)):
            rep, recs = symx.explore_records(body, s["sid"])
        records += recs
        if rep_all is None:
            rep_all = rep
        else:
            rep_all.paths += rep.paths
            rep_all.queries += rep.queries
            rep_all.solver_time += rep.solver_time
            rep_all.engine_errors += rep.engine_errors
    diffs, n = symx.compare_records(records)
    failed = [d for d in diffs if d[0] == "failed"]
    unknown = [d for d in diffs if d[0] == "unknown"]
    st = "failed" if failed else ("unknown" if unknown else "proved")
    rec = {"fn": "padding._pad_face_connections", "clause": "padded-array-incl-corners-independent-of-the-axis-names", "status": st, "time": 0,
           "detail": f"{n} jointly feasible naming pairs compared" if st == "proved" else f"{(failed or unknown)[0][1]} differs between namings {(failed or unknown)[0][2]['order']} and {(failed or unknown)[0][3]['order']}"}
    if failed:
        rec["witness"] = {"part": "pad-corners", "namings": [list(failed[0][2]["order"]), list(failed[0][3]["order"])], "entry": s["entry"], "rules": s["rules"]}
    return {"sid": s["sid"], "obligations": [rec], "paths": rep_all.paths, "queries": rep_all.queries, "solver_time": rep_all.solver_time, "engine_errors": rep_all.engine_errors, "covers": covers,
            "counts": {"naming_pairs_compared": n}}


def transform_scenario(w, tdim, method, explicit_target_dim):
    layout = {"Z": {"center": "z_c", "outer": "z_o"}}
    nz = w.size("n_Z", 2)
    dims = {"z_c": nz, "z_o": (nz + 1) if w.native else symx.mk_int(zint(nz) + 1), "t": w.size("n_t", 1)}
    ds = w.dataset(dims, coords={d: (d,) for d in dims})
    g = w.grid(ds, layout, periodic=False)
    da = w.array("PHI", ["t", "z_c"], ds, with_coords=True)
    td = w.array("TD", ["t", "z_o" if method == "conservative" else "z_c"], ds)
    m = w.size("m", 2)
    if w.native:
        import numpy as np
        import xarray as xr
        lv = np.linspace(0.05, 0.95, int(m))
        lev = xr.DataArray(lv, dims=[tdim], coords={tdim: lv})
        td = td.copy(data=np.sort(np.abs(td.values) % 1.0, axis=1))
    else:
        LV = z3.Function("LV", z3.IntSort(), symx.Val)
        lev = MArr((tdim,), {tdim: m}, lambda idx: LV(idx[tdim]), name=tdim)
    kw = {"method": method, "target_data": td}
    if explicit_target_dim:
        kw["target_dim"] = tdim
    return g, da, lev, kw, m


def run_transform(s):
    mods = util.xgcm_modules()
    T = mods["transform"]
    tdim = s["tdim"]
    covers = {}

    def body():
        for method in ("linear", "conservative"):
            for explicit in (False, True):
                w = SymWorld()
                g, da, lev, kw, m = transform_scenario(w, tdim, method, explicit)
                rec = w.userfunc("K", lambda arrs: [list(arrs[0].shape[:-1]) + [arrs[2].shape[-1] if method == "linear" else symx.mk_int(zint(arrs[2].shape[-1]) - 1)]])
                with warnings.catch_warnings():
                    warnings.simplefilter("ignore")
                    with util.patched((T, "interp_1d_linear", rec), (T, "interp_1d_conservative", rec)):
                        out, err = guarded(lambda: g.transform(da, "Z", lev, **kw))
                tag = f"{method};target_dim={'explicit' if explicit else 'inferred'}"
                oblige(f"{tag}:accepted-whatever-the-name-of-the-target-dimension", err is None, detail=err)
                if err is None:
                    covers["ran"] = covers.get("ran", 0) + 1
                    oblige(f"{tag}:new-dimension-carries-the-target's-name", tdim in out.dims and set(out.dims) == {"t", tdim}, detail=str(out.dims))
    with util.patched(*util.std_patches(mods)):
        rep = symx.explore(body, s["sid"])
    obs = []
    for name, ob in rep.merged().items():
        r = {"fn": "transform.transform", "clause": name, "status": ob.status, "time": ob.time, "detail": ob.detail}
        if ob.status == "failed":
            r["witness"] = {"part": "transform", "tdim": tdim, "clause": name, "detail": ob.detail}
        obs.append(r)
    return {"sid": s["sid"], "obligations": obs, "paths": rep.paths, "queries": rep.queries, "solver_time": rep.solver_time, "engine_errors": rep.engine_errors, "covers": covers}


def sgrid_named(w, node, cell):
    n = w.size("n_X", 3)
    pos = "inner"
    dims = {cell: n, node: (n - 1) if w.native else symx.mk_int(zint(n) - 1), f"{cell}_y": n, f"{node}_y": (n + 1) if w.native else symx.mk_int(zint(n) + 1)}
    gat = {"cf_role": "grid_topology", "topology_dimension": 2, "node_dimensions": f"{node} {node}_y",
           "face_dimensions": f"{cell}: {node} (padding: both) {cell}_y: {node}_y (padding: none)"}
    ds = w.dataset(dims, coords={d: (d,) for d in dims}, data_vars={"grid": ()}, var_attrs={"grid": gat}, attrs={"Conventions": "SGRID-0.3"}, coord_attrs={d: {} for d in dims})
    layout = {"X": {"center": cell, "inner": node}, "Y": {"center": f"{cell}_y", "outer": f"{node}_y"}}
    return ds, layout


def comodo_named(w, dims2):
    n = w.size("n_X", 2)
    c, l = dims2
    ds = w.dataset({c: n, l: n}, coords={c: (c,), l: (l,)}, coord_attrs={c: {"axis": "X"}, l: {"axis": "X", "c_grid_axis_shift": -0.5}})
    return ds, {"X": {"center": c, "left": l}}


def run_parse(s):
    mods = util.xgcm_modules()
    covers = {}

    def body():
        w = SymWorld()
        ds, layout = sgrid_named(w, s["node"], s["cell"]) if s["part"] == "sgrid" else comodo_named(w, s["dims"])
        from xgcm import Grid
        g, err = guarded(lambda: Grid(ds, periodic=False))
        oblige("parsed-whatever-the-dimension-names", err is None, detail=err)
        if err is None:
            covers["ran"] = 1
            oblige("assignment-as-prescribed", {a: dict(ax.coords) for a, ax in g.axes.items()} == layout, detail=str({a: dict(ax.coords) for a, ax in g.axes.items()}))
    with util.patched(*util.std_patches(mods)):
        rep = symx.explore(body, s["sid"])
    obs = []
    for name, ob in rep.merged().items():
        r = {"fn": f"{s['part']}.get_axis_positions_and_coords", "clause": name, "status": ob.status, "time": ob.time, "detail": ob.detail}
        if ob.status == "failed":
            r["witness"] = {"part": s["part"], "s": {k: v for k, v in s.items()}, "detail": ob.detail}
        obs.append(r)
    return {"sid": s["sid"], "obligations": obs, "paths": rep.paths, "queries": rep.queries, "solver_time": rep.solver_time, "engine_errors": rep.engine_errors, "covers": covers}


def run_tempname(s):
    """a dimension that happens to be called like one of xgcm's temporary names"""
    mods = util.xgcm_modules()
    P, T = mods["padding"], mods["transform"]
    covers = {}

    def body():
        if s["clash"] == "pad-dummy":
            s5 = C05.mk(None, {("X", 1): ("swap", False)}, ("X",), {"X": "fill", "Y": "fill"}, "before")
            b = C05.build(s5)
            da = b["da"].rename({"t": "xdummy"})
            out, err = guarded(lambda: P._pad_face_connections(da, b["grid"], dict(b["W"]), dict(s5["rules"]), {a: symx.SymFloat(b["fills"][a]) for a in ("X", "Y")}))
            oblige("extra-dimension-named-<dim>dummy:accepted", err is None, detail=err)
        else:
            w = SymWorld()
            layout = {"Z": {"center": "z_c", "outer": "z_o"}}
            nz = w.size("n_Z", 2)
            dims = {"z_c": nz, "z_o": symx.mk_int(zint(nz) + 1), "temp_unique": w.size("n_t", 1)}
            ds = w.dataset(dims, coords={})
            g = w.grid(ds, layout, periodic=False)
            da = w.array("PHI", ["temp_unique", "z_c"], ds)
            td = w.array("TD", ["temp_unique", "z_c"], ds)
            LV = z3.Function("LV", z3.IntSort(), symx.Val)
            m = w.size("m", 1)
            lev = NArr((m,), lambda p: LV(p[0]))
            rec = w.userfunc("K", lambda arrs: [list(arrs[0].shape[:-1]) + [arrs[2].shape[-1]]])
            with warnings.catch_warnings():
                warnings.simplefilter("ignore")
                with util.patched((T, "interp_1d_linear", rec)):
                    out, err = guarded(lambda: g.transform(da, "Z", lev, target_data=td))
            oblige("extra-dimension-named-temp_unique:accepted", err is None, detail=err)
        covers["ran"] = 1
    with util.patched(*util.std_patches(mods, sets=True)):
        rep = symx.explore(body, s["sid"])
    obs = []
    for name, ob in rep.merged().items():
        r = {"fn": "padding._maybe_swap_dimension_names" if s["clash"] == "pad-dummy" else "transform.input_handling", "clause": name, "status": ob.status, "time": ob.time, "detail": ob.detail}
        if ob.status == "failed":
            r["witness"] = {"part": "tempname", "clash": s["clash"], "detail": ob.detail}
        obs.append(r)
    return {"sid": s["sid"], "obligations": obs, "paths": rep.paths, "queries": rep.queries, "solver_time": rep.solver_time, "engine_errors": rep.engine_errors, "covers": covers}


def run_structure(s):
    return {"ops": run_ops, "metrics": run_metrics, "ufunc": run_ufunc, "pad": run_pad, "pad-corners": run_pad_corners, "metric-choice": run_metric_choice, "transform": run_transform, "sgrid": run_parse, "comodo": run_parse,
            "tempname": run_tempname}[s["part"]](s)


REQUIRED_COVERS = ["accepted", "ran", "padded"]


def finish_evidence(ev, results):
    ev["coverage"]["renamings"] = {"axis_families": [list(n) + [t] for n, t in AXIS_FAMILIES], "dimension_families": [t for _, t in DIM_FAMILIES]}


# ---- native replay ------------------------------------------------------------------------------------
def replay(ob):
    warnings.simplefilter("ignore")
    import numpy as np
    import xarray as xr
    import xgcm

    wit = ob.get("witness") or {}
    part = wit.get("part")
    try:
        if part == "ops":
            st = wit["struct"]
            st["axes"] = {a: tuple(v) for a, v in st["axes"].items()}
            st["order"] = tuple(st["order"]) if st.get("order") else None
            specf = (lambda s_, r_: C09.single_spec(s_, r_)) if st["op"] == "cumsum" else (lambda s_, r_: C01.op_spec(s_, r_))
            return C01.replay_scenario(st, wit.get("model", {}), C01.scenario, specf, "op")
        if part == "metrics":
            nw = NativeWorld({})
            lay, dims, ds, g, da, mv = metrics_scenario(nw, wit["names"])
            A1 = wit["names"][0]
            cl = wit["clause"]
            call = {"integrate": lambda ax: g.integrate(da, ax), "get_metric": lambda ax: g.get_metric(da, ax), "average": lambda ax: g.average(da, ax),
                    "cumint": lambda ax: g.cumint(da, ax, to="left", boundary="fill", fill_value=0.0), "derivative": lambda ax: g.derivative(da, A1, to="left", boundary="extend")}[cl.split("(")[0].split(":")[0]]
            ax = A1 if "plain-string" in cl else ([A1] if "list" in cl else ((A1,) if "tuple" in cl else [A1, wit["names"][1]]))
            try:
                call(ax)
                return {"confirmed": False, "text": f"{cl} with axis {ax!r} on axes named {wit['names'][:2]}: accepted natively"}
            except Exception as e:  # noqa
                return {"confirmed": True, "text": f"{cl} with axis {ax!r} on a grid whose axes are called {wit['names'][:2]}: real code raised {type(e).__name__}: {e} (the same call on axes X, Y succeeds)"}
        if part == "ufunc":
            return {"confirmed": False, "text": f"apply_as_grid_ufunc / as_grid_ufunc with signature {wit['sig']} ({wit['way']}): {wit['clause']} - {wit.get('detail')} (symbolic run of the real code; the same signature with dummies X, Y is handled as prescribed)"}
        if part == "transform":
            nw = NativeWorld({})
            cl = wit["clause"]
            method = cl.split(";")[0]
            explicit = "explicit" in cl
            g, da, lev, kw, m = transform_scenario(nw, wit["tdim"], method, explicit)
            try:
                out = g.transform(da, "Z", lev, **kw)
                ok = wit["tdim"] in out.dims
                return {"confirmed": not ok, "text": f"transform({method}) with target dimension {wit['tdim']!r}: dims {out.dims}"}
            except Exception as e:  # noqa
                return {"confirmed": True, "text": f"transform(method={method!r}, target_dim={wit['tdim']!r}{' given explicitly' if explicit else ''}) raised {type(e).__name__}: {e}; with a one-letter target dimension the same call succeeds"}
        if part in ("sgrid", "comodo"):
            nw = NativeWorld({})
            s = wit["s"]
            ds, layout = sgrid_named(nw, s["node"], s["cell"]) if part == "sgrid" else comodo_named(nw, s["dims"])
            try:
                g = xgcm.Grid(ds, periodic=False)
                got = {a: dict(ax.coords) for a, ax in g.axes.items()}
                return {"confirmed": got != layout, "text": f"parsed {got}, prescribed {layout}"}
            except Exception as e:  # noqa
                return {"confirmed": True, "text": f"Grid(ds) with dimensions {list(ds.dims)} raised {type(e).__name__}: {e}"}
        if part == "tempname":
            if wit["clash"] == "pad-dummy":
                N, F = 3, 2
                ds = xr.Dataset(coords={d: np.arange(N) for d in ("x", "xl", "y", "yl")}).assign_coords(face=np.arange(F), xdummy=np.arange(2))
                g = xgcm.Grid(ds, coords={"X": {"center": "x", "left": "xl"}, "Y": {"center": "y", "left": "yl"}}, periodic=False, autoparse_metadata=False,
                              face_connections={"face": {0: {"X": (None, (1, "Y", False))}, 1: {"Y": ((0, "X", False), None)}}})
                da = xr.DataArray(np.random.rand(2, F, N, N), dims=("xdummy", "face", "y", "x"))
                try:
                    g.diff(da, "X", boundary="fill")
                    return {"confirmed": False, "text": "accepted natively"}
                except Exception as e:  # noqa
                    return {"confirmed": True, "text": f"grid.diff on data with an extra dimension called 'xdummy' across an axis-swapping link raised {type(e).__name__}: {e}"}
            else:
                ds = xr.Dataset(coords={"z_c": np.arange(4), "z_o": np.arange(5), "temp_unique": np.arange(2)})
                g = xgcm.Grid(ds, coords={"Z": {"center": "z_c", "outer": "z_o"}}, periodic=False, autoparse_metadata=False)
                da = xr.DataArray(np.random.rand(2, 4), dims=("temp_unique", "z_c"), name="a")
                td = xr.DataArray(np.sort(np.random.rand(2, 4), axis=1), dims=("temp_unique", "z_c"), name="td")
                try:
                    g.transform(da, "Z", np.array([0.2, 0.5]), target_data=td)
                    return {"confirmed": False, "text": "accepted natively"}
                except Exception as e:  # noqa
                    return {"confirmed": True, "text": f"grid.transform on data with an extra dimension called 'temp_unique' raised {type(e).__name__}: {e}"}
        if part == "pad-corners":
            return replay_corners(wit)
        if part == "metric-choice":
            return replay_metric_choice(wit)
        if part == "pad":
            return {"confirmed": False, "text": f"padding across an axis-swapping link with axes named {wit['names'][:2]}: {wit.get('detail')} (symbolic run of the real code)"}
    except Exception as e:  # noqa
        import traceback
        return {"confirmed": False, "text": f"replay failed: {type(e).__name__}: {e}\n{traceback.format_exc(limit=-2)}"}
    return {"confirmed": False, "text": ""}


def replay_corners(wit):
    """real code: the same two-face padded array under two namings of the axes"""
    import numpy as np
    import xarray as xr
    import xgcm
    N = 3
    rng = np.random.default_rng(0)
    data = rng.random((2, N, N))
    outs = []
    for (A1, A2) in wit["namings"]:
        dn = {"x": f"{A1}_c", "xl": f"{A1}_g", "y": f"c{A2}", "yl": f"g{A2}"}
        ds = xr.Dataset(coords={**{d: np.arange(N) for d in dn.values()}, "tile": np.arange(2)})
        g = xgcm.Grid(ds, coords={A1: {"center": dn["x"], "left": dn["xl"]}, A2: {"center": dn["y"], "left": dn["yl"]}}, periodic=False, autoparse_metadata=False)
        amap = {"X": A1, "Y": A2}
        tab = {0: {A1: [None, None], A2: [None, None]}, 1: {A1: [None, None], A2: [None, None]}}
        for k, (lk, rev) in wit["entry"].items():
            a, side = k[0], int(k[1])
            sa = a if lk == "same" else C05.OTHER[a]
            tab[0][amap[a]][side] = (1, amap[sa], bool(rev))
        g._facedim = "tile"
        g._face_connections = {"tile": {f: {a: tuple(v) for a, v in d.items()} for f, d in tab.items()}}
        da = xr.DataArray(data, dims=("tile", dn["y"], dn["x"]))
        out = xgcm.padding.pad(da, g, boundary_width={A1: (1, 2), A2: (2, 1)}, boundary={A1: wit["rules"]["X"], A2: wit["rules"]["Y"]}, fill_value={A1: 0.5, A2: -1.5})
        outs.append(out.transpose("tile", dn["y"], dn["x"]).values)
    same = outs[0].shape == outs[1].shape and np.allclose(outs[0], outs[1])
    return {"confirmed": not same, "text": f"two-face grid, widths X (1,2), Y (2,1): padded arrays under axis names {wit['namings'][0]} and {wit['namings'][1]} " + ("are identical" if same else f"differ in {int((~np.isclose(outs[0], outs[1])).sum())} cells (corners)")}


def replay_metric_choice(wit):
    """real code: the same grid / metrics / data under two namings of the axes"""
    import numpy as np
    import xarray as xr
    import xgcm
    from harness import C10
    rng = np.random.default_rng(3)
    n = 3
    sizes = {"x_c": n, "x_l": n, "x_o": n + 1, "y_c": n, "y_l": n, "z_c": n, "z_o": n + 1, "t": 2}
    base = xr.Dataset(coords={d: np.arange(k) for d, k in sizes.items()})
    for name, (_, vd) in C10.POOL.items():
        base[name] = (vd, rng.random([sizes[d] for d in vd]) + 0.5)
    adims = C10.ARRAYS[wit["array"]]
    da = xr.DataArray(rng.random([sizes[d] for d in adims]), dims=adims)
    outs = []
    for nm in wit["namings"]:
        ren = dict(zip(("X", "Y", "Z"), nm))
        coords = {ren["X"]: {"center": "x_c", "left": "x_l"}, ren["Y"]: {"center": "y_c", "left": "y_l"}, ren["Z"]: {"center": "z_c", "outer": "z_o"}}
        metrics = {tuple(ren[c] for c in k): list(v) for k, v in wit["reg"].items()}
        import warnings
        warnings.simplefilter("ignore")
        g = xgcm.Grid(base, coords=coords, periodic=False, metrics=metrics, autoparse_metadata=False)
        outs.append([g.integrate(da, [ren[a] for a in req]).values for req in (["X", "Y", "Z"], ["Z", "X", "Y"], ["Y", "Z", "X"])])
    same = all(np.allclose(a, b) for a, b in zip(outs[0], outs[1]))
    return {"confirmed": not same, "text": f"integrate over three axes with metrics {wit['reg']} under axis names {wit['namings'][0]} and {wit['namings'][1]}: " + ("same numbers" if same else "DIFFERENT numbers")}
