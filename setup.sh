#!/bin/bash
# Offline setup: install the SMT solver wheels into /verif/.deps for /venv/bin/python (3.12).
set -e
cd "$(dirname "$0")"
export PIP_NO_INDEX=1
if ! PYTHONPATH=.deps /venv/bin/python -c "import z3, cvc5" 2>/dev/null; then
  rm -rf .deps
  /venv/bin/python -m pip install --quiet --no-index --find-links /opt/veriftools/wheels --target .deps z3-solver cvc5
fi
PYTHONPATH=.deps /venv/bin/python -c "import z3, cvc5; print('z3', z3.get_version_string(), 'cvc5 ok')"
