"""Specification vocabulary, written from the property statements (DESIGN.md section 3).

Pure functions over z3 terms.  Nothing here is derived from xgcm's code.
"""
from __future__ import annotations

import z3

POSITIONS = ("center", "left", "right", "inner", "outer")

# ---- axis geometry ------------------------------------------------------------------------
# An axis with n cells.  Twice the coordinate of point i of each position (to stay integral):
#   center: 2i+1   left: 2i   right: 2i+2   outer: 2i   inner: 2i+2


def len_pos(pos, n):
    return {"center": n, "left": n, "right": n, "outer": n + 1, "inner": n - 1}[pos]


def x2(pos, i):
    return {"center": 2 * i + 1, "left": 2 * i, "right": 2 * i + 2, "outer": 2 * i, "inner": 2 * i + 2}[pos]


def idx_of_x2(pos, xx2):
    """index of the point of `pos` whose doubled coordinate is xx2 (may be out of range)"""
    off = {"center": 1, "left": 0, "right": 2, "outer": 0, "inner": 2}[pos]
    # xx2 - off is even whenever the point exists; integer division by 2 written linearly:
    return (xx2 - off) / 2


def neighbours(pos_from, pos_to, j):
    """indices (lo, hi) into the pos_from array of the two input points adjacent to target
    point j of pos_to (at x -/+ 1/2).  With doubled coordinates x2 = 2*i + off(pos): the lower
    neighbour has 2*lo + off_from = 2*j + off_to - 1, a linear relation (off_to - 1 - off_from is even
    for every centre<->face shift)."""
    off = {"center": 1, "left": 0, "right": 2, "outer": 0, "inner": 2}
    dlo = off[pos_to] - 1 - off[pos_from]
    dhi = off[pos_to] + 1 - off[pos_from]
    if dlo % 2 or dhi % 2:
        raise ValueError(f"{pos_from}->{pos_to} is not a shift between adjacent staggered positions")
    return j + dlo // 2, j + dhi // 2


# ---- boundary extension -------------------------------------------------------------------

def ext(rule, get, L, k, fill):
    """value at (possibly out-of-range) index k of an array of length L given by get(index)"""
    if rule == "periodic":
        return get(k % L)
    if rule == "fill":
        return z3.If(z3.And(k >= 0, k < L), get(k), fill)
    if rule == "extend":
        return get(z3.If(k < 0, 0, z3.If(k >= L, L - 1, k)))
    raise ValueError(rule)


def rule_in_force(per_call, grid_level, periodic, ax, all_axes):
    """C02: per-call value (scalar or mapping entry) else grid-level (same spellings) else
    periodic/fill by the periodic flag.  Returns a concrete rule word (inputs are concrete
    structure)."""
    def pick(v):
        if isinstance(v, dict):
            return v.get(ax)
        return v
    r = pick(per_call)
    if r is not None:
        return r
    r = pick(grid_level)
    if r is not None:
        return r
    return "periodic" if is_periodic(periodic, ax) else "fill"


def is_periodic(periodic, ax):
    if isinstance(periodic, bool):
        return periodic
    if isinstance(periodic, (list, tuple)):
        return ax in periodic
    if isinstance(periodic, dict):
        # an axis is periodic iff the mapping gives it True
        return periodic.get(ax) is True
    raise ValueError(periodic)


def value_in_force(per_call, grid_level, ax, default):
    def pick(v):
        if isinstance(v, dict):
            return v.get(ax)
        return v
    r = pick(per_call)
    if r is not None:
        return r
    r = pick(grid_level)
    if r is not None:
        return r
    return default


# ---- link semantics (C05) -------------------------------------------------------------------

def link_source(N, side_right, same_axis, reverse, k, t):
    """For a link on side `side_right` of an axis, halo depth k>=1, along-edge position t:
    returns (c, tt): position of the source cell along the *source axis* (c, counted from the
    low end) and along the source's other axis (tt)."""
    low_edge = bool(side_right) != bool(reverse)  # linked edge of the source is its low edge
    c = (k - 1) if low_edge else (N - k)
    tt = (N - 1 - t) if ((not same_axis) and (not reverse)) else t
    return c, tt


def link_sign(kind, axis, same_axis, reverse):
    """kind: None (scalar) or the axis the component is parallel to; axis: the padded axis"""
    if kind is None:
        return 1
    along = kind == axis
    if along and reverse:
        return -1
    if (not along) and (not same_axis) and (not reverse):
        return -1
    return 1


# ---- stencil operators (C01) as getter transformers ------------------------------------------------

def opterm(op, lo, hi):
    if op == "diff":
        return hi - lo
    if op == "interp":
        return (lo + hi) / 2
    if op == "min":
        return z3.If(lo <= hi, lo, hi)
    if op == "max":
        return z3.If(lo >= hi, lo, hi)
    raise ValueError(op)


def stencil(get, op, dfrom, dto, pf, pt, rule, fill, n):
    """get: idx-dict -> term for an array having dimension dfrom (position pf, n cells);
    returns the getter of op applied along that axis to position pt (dimension dto)"""
    L = len_pos(pf, n)

    def g2(idx):
        j = idx[dto]
        lo, hi = neighbours(pf, pt, j)
        base = {k: v for k, v in idx.items() if k != dto}
        vlo = ext(rule, lambda k: get({**base, dfrom: k}), L, lo, fill)
        vhi = ext(rule, lambda k: get({**base, dfrom: k}), L, hi, fill)
        return opterm(op, vlo, vhi)
    return g2
