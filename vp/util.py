"""shared helpers for harnesses: namespace patching, ghost grids, demonic sets, mutation tracking"""
from __future__ import annotations

import contextlib
import importlib
import itertools
import sys

import z3

from . import symx
from .mxr import MArr, MDataset, XRModel, NPModel, symlen, generic_range, Coords

_MISSING = object()


@contextlib.contextmanager
def patched(*triples):
    """patched((module, name, value), ...): bind names in module namespaces for the duration of
    a harness; restores (or deletes) afterwards.  No file under /repo is touched."""
    saved = []
    try:
        for mod, name, val in triples:
            saved.append((mod, name, mod.__dict__.get(name, _MISSING)))
            setattr(mod, name, val)
        yield
    finally:
        for mod, name, old in reversed(saved):
            if old is _MISSING:
                try:
                    delattr(mod, name)
                except AttributeError:
                    pass
            else:
                setattr(mod, name, old)


def xgcm_modules():
    import xgcm  # noqa
    import xgcm.axis, xgcm.grid, xgcm.grid_ufunc, xgcm.gridops, xgcm.padding, xgcm.metrics  # noqa
    import xgcm.comodo, xgcm.sgrid, xgcm.metadata_parsers  # noqa
    import xgcm.transform  # noqa  (needs the numba stand-in of /verif/stubs on sys.path)

    return {n: sys.modules["xgcm." + n] for n in
            ("axis", "grid", "grid_ufunc", "gridops", "padding", "metrics", "comodo", "sgrid",
             "metadata_parsers", "transform")}


def std_patches(mods=None, sets=False):
    """the standard model injection: xr -> XRModel in every xgcm module that names it, np ->
    NPModel in gridops, len/range in padding (generic face), optionally demonic set()."""
    m = mods or xgcm_modules()
    tr = [
        (m["padding"], "xr", XRModel),
        (m["padding"], "len", symlen),
        (m["padding"], "range", generic_range),
        (m["padding"], "np", NPModel),
        (m["padding"], "max", symmax),
        (m["axis"], "xr", XRModel),
        (m["grid"], "xr", XRModel),
        (m["grid_ufunc"], "xr", XRModel),
        (m["grid_ufunc"], "np", NPModel),
        (m["gridops"], "np", NPModel),
        (m["grid"], "Dask_Array", _DaskTokenType()),
        (m["transform"], "xr", XRModel),
        (m["transform"], "np", NPModel),
        (m["transform"], "len", symlen),
        (m["comodo"], "len", symlen),
    ]
    if sets:
        for k in ("padding",):
            tr.append((m[k], "set", DemonicSet))
    return tr


def _DaskTokenType():
    from .mxr import DaskToken

    return DaskToken


class DemonicSet(set):
    """set whose iteration order is chosen demonically (all permutations are explored).
    Models hash-seed dependent iteration order of sets of str (C12)."""

    def _order(self):
        items = sorted(set.__iter__(self), key=repr)
        n = len(items)
        if n <= 1:
            return items
        # one demonic choice per *content* and path: sets with equal elements iterate alike
        memo = symx.ctx().ghost.setdefault("set-order", {})
        key = tuple(items)
        if key not in memo:
            perms = list(itertools.permutations(items))
            memo[key] = list(perms[symx.ctx().choose(len(perms), "set-order")])
        return list(memo[key])

    def __iter__(self):
        return iter(self._order())

    def __or__(self, o):
        return DemonicSet(set.__or__(self, o))

    def __and__(self, o):
        return DemonicSet(set.__and__(self, o))

    def __sub__(self, o):
        return DemonicSet(set.__sub__(self, o))

    def intersection(self, *o):
        return DemonicSet(set.intersection(self, *o))

    def union(self, *o):
        return DemonicSet(set.union(self, *o))


class TrackedDict(dict):
    """dict that logs every mutation (frame conditions, C18)"""

    def __init__(self, *a, **k):
        super().__init__(*a, **k)
        self.log = []

    def _m(name):
        def f(self, *a, **k):
            self.log.append(name)
            return getattr(dict, name)(self, *a, **k)
        f.__name__ = name
        return f

    __setitem__ = _m("__setitem__")
    __delitem__ = _m("__delitem__")
    pop = _m("pop")
    popitem = _m("popitem")
    update = _m("update")
    setdefault = _m("setdefault")
    clear = _m("clear")
    __ior__ = _m("__ior__")
    del _m


def field(name, dims, sizes, nargs=None):
    """a fully symbolic data array: element (dims...) -> uninterpreted D_name(indices)"""
    fn = z3.Function(name, *([z3.IntSort()] * len(dims)), symx.Val)
    arr = MArr(dims, sizes, lambda idx, fn=fn, dims=tuple(dims): fn(*[idx[d] for d in dims]), name=name)
    arr.fn = fn
    return arr


def idx_vars(arr, prefix="q"):
    """skolem index constants for every dim of arr, with their range constraint"""
    idx = {}
    rng = []
    for d in arr.dims:
        v = z3.Int(f"{prefix}_{d}")
        idx[d] = v
        rng.append(z3.And(v >= 0, v < symx.zint(arr.sizes[d])))
    return idx, z3.And(*rng) if rng else z3.BoolVal(True)


def conc(model, term):
    return symx.model_eval(model, term)


def symmax(*args):
    """model of builtin max over (possibly symbolic) integers: no forking, an If-term"""
    xs = list(args[0]) if len(args) == 1 else list(args)
    if not xs:
        raise ValueError("max() arg is an empty sequence")
    if all(isinstance(x, int) for x in xs):
        return max(xs)
    e = symx.zint(xs[0])
    for x in xs[1:]:
        xe = symx.zint(x)
        e = z3.If(xe > e, xe, e)
    return symx.mk_int(e)
