"""proxies for the numeric kernels of xgcm.transform (real function objects, undecorated):
NVal   a float that may be NaN: (nan flag, real value) with IEEE comparison semantics for NaN
KArr   1-D input array indexed by (symbolic) integers
OutArr 1-D output array recording stores
KNP    the numpy functions the kernels use
"""
from __future__ import annotations

import ast
import inspect
import textwrap

import z3

from . import symx
from .mxr import _ModelNamespace  # noqa: E402
from .symx import EngineUnsupported, SymBool, SymInt, mk_int, zint


class NVal:
    __slots__ = ("nan", "v")

    def __init__(self, nan, v):
        self.nan = nan if z3.is_expr(nan) else z3.BoolVal(bool(nan))
        self.v = v if z3.is_expr(v) else symx.RV(v)

    @staticmethod
    def lift(x):
        if isinstance(x, NVal):
            return x
        if isinstance(x, bool):
            raise EngineUnsupported("bool as float")
        if isinstance(x, (int, float)):
            if x != x:
                return NVal(True, 0)
            return NVal(False, x)
        if isinstance(x, symx.SymVal):
            return NVal(False, x.e)
        raise TypeError(type(x))

    def _ar(self, o, f, refl=False):
        try:
            o = NVal.lift(o)
        except TypeError:
            return NotImplemented
        a, b = (o, self) if refl else (self, o)
        return NVal(z3.Or(a.nan, b.nan), f(a.v, b.v))

    def __add__(s, o):
        return s._ar(o, lambda x, y: x + y)

    def __radd__(s, o):
        return s._ar(o, lambda x, y: x + y, True)

    def __sub__(s, o):
        return s._ar(o, lambda x, y: x - y)

    def __rsub__(s, o):
        return s._ar(o, lambda x, y: x - y, True)

    def __mul__(s, o):
        return s._ar(o, lambda x, y: x * y)

    def __rmul__(s, o):
        return s._ar(o, lambda x, y: x * y, True)

    def __truediv__(s, o):
        return s._ar(o, lambda x, y: x / y)

    def __rtruediv__(s, o):
        return s._ar(o, lambda x, y: x / y, True)

    def __neg__(s):
        return NVal(s.nan, -s.v)

    def _cmp(self, o, f, ne=False):
        try:
            o = NVal.lift(o)
        except TypeError:
            return NotImplemented
        ok = z3.And(z3.Not(self.nan), z3.Not(o.nan), f(self.v, o.v))
        if ne:
            ok = z3.Or(self.nan, o.nan, f(self.v, o.v))
        return SymBool(ok)

    def __lt__(s, o):
        return s._cmp(o, lambda x, y: x < y)

    def __le__(s, o):
        return s._cmp(o, lambda x, y: x <= y)

    def __gt__(s, o):
        return s._cmp(o, lambda x, y: x > y)

    def __ge__(s, o):
        return s._cmp(o, lambda x, y: x >= y)

    def __eq__(s, o):
        r = s._cmp(o, lambda x, y: x == y)
        return False if r is NotImplemented else r

    def __ne__(s, o):
        r = s._cmp(o, lambda x, y: x != y, ne=True)
        return True if r is NotImplemented else r

    def __hash__(self):
        raise EngineUnsupported("hash of a symbolic float")

    def __bool__(self):
        raise EngineUnsupported("truth value of a symbolic float")

    def __repr__(self):
        return f"NVal(nan={self.nan}, v={self.v})"


class KArr:
    def __init__(self, name, n, nanfree=True, fn=None, nanfn=None, rev=False, on_read=None):
        self.name = name
        self.on_read = on_read
        self.n = n
        self.fn = fn if fn is not None else z3.Function(name, z3.IntSort(), symx.Val)
        self.nanfn = nanfn if nanfn is not None else (None if nanfree else z3.Function(name + "_isnan", z3.IntSort(), z3.BoolSort()))
        self.rev = rev
        self.reads = []

    def __symlen__(self):
        return self.n

    def __len__(self):
        if isinstance(self.n, int):
            return self.n
        raise EngineUnsupported("builtin len of symbolic kernel array")

    def _ix(self, i):
        i = zint(i)
        n = zint(self.n)
        i = z3.If(i < 0, i + n, i)
        return (n - 1 - i) if self.rev else i

    def at(self, i):
        k = z3.simplify(self._ix(i))
        return NVal(self.nanfn(k) if self.nanfn is not None else z3.BoolVal(False), self.fn(k))

    def __getitem__(self, i):
        if isinstance(i, slice):
            if i.start is None and i.stop is None and i.step == -1:
                return KArr(self.name, self.n, fn=self.fn, nanfn=self.nanfn, rev=not self.rev, on_read=self.on_read)
            raise EngineUnsupported(f"kernel array slice {i}")
        if isinstance(i, MaskAll):
            return self
        if isinstance(i, (int, SymInt)):
            iz = zint(i)
            symx.oblige(f"index-in-bounds:{self.name}", z3.And(iz >= -zint(self.n), iz < zint(self.n)))
            self.reads.append(iz)
            if self.on_read is not None:
                self.on_read(z3.simplify(self._ix(i)))
            return self.at(i)
        raise EngineUnsupported(f"kernel array index {type(i)}")

    def __setitem__(self, i, v):
        raise EngineUnsupported(f"store into input array {self.name}")


class MaskAll:
    """~np.isnan(a) for an array known to be NaN-free: selects everything"""

    def __invert__(self):
        return self


class MaskNone:
    def __invert__(self):
        return MaskAll()


class OutArr:
    def __init__(self, name, n):
        self.name = name
        self.n = n
        self.base = z3.Function(name + "_before", z3.IntSort(), symx.Val)
        self.base_nan = z3.Function(name + "_before_isnan", z3.IntSort(), z3.BoolSort())
        self.stores = []  # (index term, NVal, path-order)
        self.filled = None
        self.whole = None

    def __symlen__(self):
        return self.n

    def cur(self, k):
        v = NVal(self.base_nan(k), self.base(k)) if self.filled is None else NVal.lift(self.filled)
        if self.whole is not None:
            v = self.whole(k)
        nan, val = v.nan, v.v
        for idx, sv in self.stores:
            nan = z3.If(k == idx, sv.nan, nan)
            val = z3.If(k == idx, sv.v, val)
        return NVal(z3.simplify(nan), z3.simplify(val))

    def __getitem__(self, i):
        if isinstance(i, (int, SymInt)):
            iz = zint(i)
            symx.oblige(f"index-in-bounds:{self.name}", z3.And(iz >= 0, iz < zint(self.n)))
            return self.cur(iz)
        raise EngineUnsupported(f"output index {i!r}")

    def __setitem__(self, i, v):
        if isinstance(i, slice) and i.start is None and i.stop is None and i.step is None:
            if isinstance(v, (int, float, NVal)):
                self.filled = v
                self.stores = []
                self.whole = None
                return
            if isinstance(v, ElemWise):
                self.whole = v.at
                self.filled = 0
                self.stores = []
                return
            raise EngineUnsupported(f"output[:] = {type(v)}")
        if isinstance(i, (int, SymInt)):
            iz = zint(i)
            symx.oblige(f"index-in-bounds:{self.name}", z3.And(iz >= 0, iz < zint(self.n)))
            self.stores.append((iz, NVal.lift(v)))
            return
        raise EngineUnsupported(f"output store index {i!r}")


class ElemWise:
    """result of an elementwise library call (np.interp): element k given by at(k)"""

    def __init__(self, n, at):
        self.n = n
        self.at = at


class KNP(metaclass=_ModelNamespace):
    nan = NVal(True, 0)

    @staticmethod
    def isnan(x):
        if isinstance(x, NVal):
            return SymBool(x.nan)
        if isinstance(x, KArr):
            if x.nanfn is None:
                return MaskNone()
            raise EngineUnsupported("np.isnan of an array that may hold NaN")
        raise EngineUnsupported(f"np.isnan({type(x)})")


# ---- syntactic side condition: accumulate-loop shape ---------------------------------------------
def check_accumulate_kernel(func, out_name):
    """The generic-iteration rule for `for i: for j: out[j] += c(i, j)` needs: `out` is written only by
    `out[:] = 0` before the loops and by `out[j] += e` (j the innermost loop variable), never read
    otherwise, and neither loop carries other state.  Conservative AST check on the real source."""
    src = textwrap.dedent(inspect.getsource(func))
    tree = ast.parse(src)
    fdef = tree.body[0]
    problems = []
    loops = [n for n in ast.walk(fdef) if isinstance(n, ast.For)]
    info = {"loops": [ast.unparse(l.target) + " in " + ast.unparse(l.iter) for l in loops]}
    for l in loops:
        if not (isinstance(l.iter, ast.Call) and getattr(l.iter.func, "id", "") == "range" and len(l.iter.args) == 1):
            problems.append(f"line {l.lineno}: loop is not `for v in range(n)`")
    inner_vars = {}

    def is_out_sub(x):
        return isinstance(x, ast.Subscript) and isinstance(x.value, ast.Name) and x.value.id == out_name

    def mentions_out(x):
        return any(isinstance(y, ast.Name) and y.id == out_name for y in ast.walk(x))

    def spelled_out_accumulate(p):
        """`out[j] = out[j] + e` or `out[j] = e + out[j]` (same index text, e free of out): returns the out[j] operand or None"""
        if not (isinstance(p, ast.Assign) and len(p.targets) == 1 and is_out_sub(p.targets[0]) and isinstance(p.value, ast.BinOp) and isinstance(p.value.op, ast.Add)):
            return None
        for me, other in ((p.value.left, p.value.right), (p.value.right, p.value.left)):
            if is_out_sub(me) and ast.dump(me.slice) == ast.dump(p.targets[0].slice) and not mentions_out(other):
                return me
        return None
    allowed_reads = set()
    for l in loops:
        for n in ast.walk(l):
            target = None
            if isinstance(n, ast.AugAssign) and is_out_sub(n.target):
                target, is_add = n.target, isinstance(n.op, ast.Add)
            elif isinstance(n, ast.Assign) and any(is_out_sub(t) for t in n.targets):
                operand = spelled_out_accumulate(n)
                target, is_add = n.targets[0], operand is not None
                if operand is not None:
                    allowed_reads.add(id(operand.value))
            if target is not None:
                # innermost enclosing loop variable
                encl = [x for x in loops if any(y is n for y in ast.walk(x))]
                innermost = max(encl, key=lambda x: x.lineno)
                if not (is_add and isinstance(target.slice, ast.Name) and isinstance(innermost.target, ast.Name)
                        and target.slice.id == innermost.target.id):
                    problems.append(f"line {n.lineno}: store into {out_name} is not `{out_name}[<innermost loop variable>] += e`")
                inner_vars[n.lineno] = True
    for n in ast.walk(fdef):
        if isinstance(n, ast.Name) and n.id == out_name and isinstance(n.ctx, ast.Load):
            par_ok = id(n) in allowed_reads
            for p in ast.walk(fdef):
                if isinstance(p, ast.AugAssign) and isinstance(p.target, ast.Subscript) and p.target.value is n:
                    par_ok = True
                if isinstance(p, ast.Assign) and any(isinstance(t, ast.Subscript) and t.value is n for t in p.targets):
                    par_ok = True
            if not par_ok:
                problems.append(f"line {n.lineno}: `{out_name}` is read outside an accumulate store")
    # loop-carried scalars: a name assigned in a loop body must be assigned before it is read in that iteration
    from .loopcheck import _Walker, _stores

    for l in loops:
        tracked = _stores(ast.Module(body=l.body, type_ignores=[])) | _stores(l.target)
        w = _Walker(tracked, set())

        class W2(_Walker):
            pass
        w.block([s for s in l.body], _stores(l.target))
        for p in w.problems:
            if "store into an object that outlives" in p or "not analysed" in p and "AugAssign" in p:
                continue
            problems.append(p)
    return (not problems), problems, info


# ---- numpy functions of the linear kernel (assumed contracts) ---------------------------------------
def _knp_interp(x, xp, fp):
    """np.interp(x, xp, fp) for strictly increasing xp: piecewise-linear interpolant, clamped to the end
    values outside.  The result is an uninterpreted function NPI(k); the harness instantiates the
    contract at the segments it needs (see interp_axioms)."""
    c = symx.ctx()
    fn = z3.Function(f"NPI!{next(c.fresh)}", z3.IntSort(), symx.Val)
    c.ghost.setdefault("interp-calls", []).append({"x": x, "xp": xp, "fp": fp, "fn": fn})
    # precondition of the contract: xp strictly increasing - emitted at a skolem index
    a = c.fresh_int("ia")
    n = zint(xp.n)
    symx.oblige("lib-pre/np.interp-xp-strictly-increasing", z3.Implies(z3.And(a >= 0, a < n - 1), xp.at(a).v < xp.at(a + 1).v))
    return ElemWise(x.n, lambda k: NVal(False, fn(k)))


def interp_axioms(call, k, s):
    """instances of the np.interp contract for element k and segment s"""
    x, xp, fp, fn = call["x"], call["xp"], call["fp"], call["fn"]
    n = zint(xp.n)
    xk = x.at(k).v
    a0, a1 = xp.at(s).v, xp.at(s + 1).v
    f0, f1 = fp.at(s).v, fp.at(s + 1).v
    first, last = xp.at(0).v, xp.at(n - 1).v
    return [
        z3.Implies(z3.And(s >= 0, s < n - 1, a0 <= xk, xk <= a1), fn(k) == f0 + (xk - a0) * (f1 - f0) / (a1 - a0)),
        z3.Implies(xk < first, fn(k) == fp.at(0).v),
        z3.Implies(xk > last, fn(k) == fp.at(n - 1).v),
    ]


def _knp_nanext(a, kind):
    """np.nanmax / np.nanmin of a NaN-free array: a value M with  all a[k] <= M  and  M == a[kw]  for a
    witness index kw (>= resp. for nanmin); instances are added for the two ends and the witness"""
    c = symx.ctx()
    M = c.fresh_real(f"nan{kind}")
    kw = c.fresh_int(f"kw_{kind}")
    n = zint(a.n)
    c.assume(kw >= 0, kw < n, M == a.at(kw).v)
    le = (lambda u, v: u <= v) if kind == "max" else (lambda u, v: u >= v)
    c.assume(le(a.at(0).v, M), le(a.at(n - 1).v, M))
    c.ghost.setdefault("nanext", []).append({"kind": kind, "M": M, "kw": kw, "arr": a})
    return NVal(False, M)


KNP.interp = staticmethod(_knp_interp)
KNP.nanmax = staticmethod(lambda a: _knp_nanext(a, "max"))
KNP.nanmin = staticmethod(lambda a: _knp_nanext(a, "min"))
