"""Syntactic side condition for the generic-iteration rule (DESIGN 2.4).

generic_range() replaces `for i in range(n)` (n symbolic) by ONE execution of the body for a
fresh index 0 <= i < n.  That is sound iff no iteration can observe an earlier one: the loop has
no loop-carried state other than appending the iteration's result to a list.  This module checks
that on the AST of the real source, conservatively; a failure makes the check UNDECIDED (exit 2),
never a violation and never a pass.
"""
from __future__ import annotations

import ast
import inspect

MUTATORS = {"append", "extend", "pop", "popitem", "update", "clear", "setdefault", "insert", "remove",
            "add", "discard", "sort", "reverse"}


def _stores(node):
    out = set()
    for n in ast.walk(node):
        if isinstance(n, ast.Name) and isinstance(n.ctx, (ast.Store, ast.Del)):
            out.add(n.id)
    return out


class _Walker:
    def __init__(self, tracked, allowed_append):
        self.tracked = tracked  # names stored somewhere in the loop body
        self.allowed_append = allowed_append
        self.problems = []

    def reads(self, expr, defined):
        if expr is None:
            return
        if isinstance(expr, (ast.ListComp, ast.SetComp, ast.GeneratorExp, ast.DictComp)):
            local = set(defined)
            for g in expr.generators:
                self.reads(g.iter, local)
                local |= _stores(g.target)
                for c in g.ifs:
                    self.reads(c, local)
            if isinstance(expr, ast.DictComp):
                self.reads(expr.key, local)
                self.reads(expr.value, local)
            else:
                self.reads(expr.elt, local)
            return
        if isinstance(expr, ast.Lambda):
            self.problems.append(f"line {expr.lineno}: lambda inside the loop")
            return
        if isinstance(expr, ast.Name):
            if isinstance(expr.ctx, ast.Load) and expr.id in self.tracked and expr.id not in defined:
                self.problems.append(f"line {expr.lineno}: `{expr.id}` may be read before it is assigned in this iteration (loop-carried)")
            return
        if isinstance(expr, ast.Call) and isinstance(expr.func, ast.Attribute) and expr.func.attr in MUTATORS:
            tgt = expr.func.value
            ok = isinstance(tgt, ast.Name) and (tgt.id in defined or (tgt.id, expr.func.attr) in self.allowed_append)
            if not ok:
                self.problems.append(f"line {expr.lineno}: mutating call .{expr.func.attr}() on an object that outlives the iteration")
        for ch in ast.iter_child_nodes(expr):
            self.reads(ch, defined)

    def block(self, stmts, defined):
        """returns the names definitely assigned after the block, or None if the block never falls
        through (ends in continue / break / raise / return)"""
        defined = set(defined)
        for st in stmts:
            defined = self.stmt(st, defined)
            if defined is None:
                return None
        return defined

    def stmt(self, st, defined):
        if isinstance(st, ast.Assign):
            self.reads(st.value, defined)
            for t in st.targets:
                if isinstance(t, (ast.Subscript, ast.Attribute)):
                    base = t.value
                    if not (isinstance(base, ast.Name) and base.id in defined):
                        self.problems.append(f"line {st.lineno}: store into an object that outlives the iteration")
                    self.reads(t, defined)
            return defined | _stores(ast.Module(body=[ast.Assign(targets=st.targets, value=ast.Constant(0))], type_ignores=[]))
        if isinstance(st, ast.AugAssign):
            self.reads(st.value, defined)
            self.reads(ast.Name(id=st.target.id, ctx=ast.Load(), lineno=st.lineno) if isinstance(st.target, ast.Name) else st.target, defined)
            return defined
        if isinstance(st, ast.Expr):
            self.reads(st.value, defined)
            return defined
        if isinstance(st, ast.If):
            self.reads(st.test, defined)
            d1 = self.block(st.body, defined)
            d2 = self.block(st.orelse, defined)
            if d1 is None:
                return d2
            if d2 is None:
                return d1
            return d1 & d2
        if isinstance(st, ast.For):
            self.reads(st.iter, defined)
            inner = defined | _stores(st.target)
            self.block(st.body, inner)
            self.block(st.orelse, defined)
            return defined
        if isinstance(st, ast.Pass):
            return defined
        if isinstance(st, (ast.Continue, ast.Break)):
            return None
        if isinstance(st, ast.Raise):
            self.reads(st.exc, defined)
            return None
        self.problems.append(f"line {st.lineno}: statement kind {type(st).__name__} not analysed")
        return defined


def check_independent_loop(func, loop_var_iter_src, allowed_append):
    """func: real function object.  The loop is the first `for <v> in range(<loop_var_iter_src>)`."""
    src = inspect.getsource(func)
    import textwrap

    tree = ast.parse(textwrap.dedent(src))
    fdef = tree.body[0]
    loop = None
    for n in ast.walk(fdef):
        if isinstance(n, ast.For) and isinstance(n.iter, ast.Call) and getattr(n.iter.func, "id", None) == "range" \
                and len(n.iter.args) == 1 and ast.unparse(n.iter.args[0]) == loop_var_iter_src:
            loop = n
            break
    if loop is None:
        # the bound may have been renamed or bound to a temporary: fall back to checking EVERY `for .. in range(<one argument>)`
        # loop of the function (conservative: each of them must be free of loop-carried state)
        cands = [n for n in ast.walk(fdef) if isinstance(n, ast.For) and isinstance(n.iter, ast.Call) and getattr(n.iter.func, "id", None) == "range"
                 and len(n.iter.args) == 1 and not isinstance(n.iter.args[0], ast.Constant)]
        if not cands:
            return False, [f"loop `for .. in range({loop_var_iter_src})` not found"], {}
        problems, infos = [], []
        for cand in cands:
            ok1, p1, i1 = _check_loop(fdef, cand, allowed_append)
            problems += p1
            infos.append(i1)
        return (not problems), problems, {"loops": infos, "note": f"range({loop_var_iter_src}) not found by text; all range loops checked"}
    return _check_loop(fdef, loop, allowed_append)


def _check_loop(fdef, loop, allowed_append):
    tracked = _stores(ast.Module(body=loop.body, type_ignores=[])) | _stores(loop.target)
    w = _Walker(tracked, set(allowed_append))
    w.block(loop.body, _stores(loop.target))
    # uses after the loop of names assigned in it
    # uses, anywhere after the loop in the function text, of names assigned in it (the loop may be nested in an if/with)
    end = loop.end_lineno
    for st in ast.walk(fdef):
        if isinstance(st, ast.FunctionDef) and st is not fdef and st.lineno > end:
            params = {a.arg for a in st.args.args + st.args.kwonlyargs}
            local = _stores(st) | params
            for n in ast.walk(st):
                if isinstance(n, ast.Name) and isinstance(n.ctx, ast.Load) and n.id in tracked and n.id not in local:
                    w.problems.append(f"line {n.lineno}: nested function reads loop variable `{n.id}`")
    nested_fn_nodes = {id(n) for st in ast.walk(fdef) if isinstance(st, ast.FunctionDef) and st is not fdef for n in ast.walk(st)}
    for n in ast.walk(fdef):
        if isinstance(n, ast.Name) and isinstance(n.ctx, ast.Load) and n.id in tracked and n.lineno > end and id(n) not in nested_fn_nodes:
            # a later statement that first re-assigns the name on every path is not recognised: conservative
            w.problems.append(f"line {n.lineno}: `{n.id}` assigned in the loop is read after it")
    info = {"loop_line": loop.lineno, "names_assigned_in_loop": sorted(tracked), "allowed": sorted(map(str, allowed_append))}
    return (not w.problems), w.problems, info
