"""Conformance sampling of the assumed library contracts (vp/mxr.py) against the real xarray / numpy:
each model operation is executed on small concrete arrays (concrete sizes, data through an
uninterpreted function interpreted by the real numbers) and compared element by element with the real
library.  This VALIDATES the trusted base, it does not prove it.  A mismatch makes the check exit 3
(checker broken), never a violation.
"""
from __future__ import annotations

import itertools
import random

import numpy as np
import z3

from . import symx
from .mxr import MArr, NArr, XRModel, apply_ufunc_model
from .zeval import pyeval


def _model_array(name, dims, shape):
    fn = z3.Function(name, *([z3.IntSort()] * len(dims)), symx.Val)
    return MArr(dims, dict(zip(dims, shape)), lambda idx, fn=fn, dims=tuple(dims): fn(*[idx[d] for d in dims]), name=name), fn


def _values(marr, funs):
    shape = tuple(int(marr.sizes[d]) if isinstance(marr.sizes[d], int) else int(z3.simplify(symx.zint(marr.sizes[d])).as_long()) for d in marr.dims)
    out = np.zeros(shape)
    for pos in itertools.product(*[range(n) for n in shape]):
        t = marr.elem({d: z3.IntVal(p) for d, p in zip(marr.dims, pos)})
        out[pos] = float(pyeval(t, {}, funs))
    return out


def _funs(fn, data):
    return {fn.name(): (lambda *a, data=data: float(data[tuple(int(x) for x in a)]))}


def run(seed=0, n_rounds=2):
    """returns (n_samples, list of mismatch descriptions)"""
    import warnings

    import xarray as xr

    warnings.simplefilter("ignore")
    rng = random.Random(seed)
    nrng = np.random.default_rng(seed)
    bad = []
    n = 0
    symx.CUR = symx.Ctx([])
    try:
        for _ in range(n_rounds):
            shape = (rng.randint(1, 3), rng.randint(2, 4), rng.randint(2, 5))
            dims = ("a", "b", "c")
            data = nrng.random(shape)
            real = xr.DataArray(data, dims=dims)
            m, fn = _model_array("CD", dims, shape)
            F = _funs(fn, data)

            def cmp(label, mres, rres):
                nonlocal n
                n += 1
                try:
                    if tuple(mres.dims) != tuple(rres.dims):
                        bad.append(f"{label}: dims {mres.dims} vs real {rres.dims}")
                        return
                    mv = _values(mres, F)
                    if mv.shape != rres.values.shape or not np.allclose(mv, rres.values, equal_nan=True):
                        bad.append(f"{label}: values differ (shape {mv.shape} vs {rres.values.shape})")
                except Exception as e:  # noqa
                    bad.append(f"{label}: {type(e).__name__}: {e}")
            nc = shape[2]
            for sl in (slice(1, None), slice(None, -1), slice(0, -1), slice(-2, -1), slice(1, 3), slice(None, None, -1), slice(2, 1), slice(-9, 9),
                       slice(-2, None, -1), slice(None, 0, -1), slice(-1, -3, -1), slice(3, 0, -1), slice(0, 3, -1), slice(-1, -9, -1)):
                cmp(f"isel {sl}", m.isel({"c": sl}), real.isel({"c": sl}))
            i = rng.randrange(shape[1])
            cmp("isel int", m.isel(b=i), real.isel(b=i))
            cmp("isel negative int", m.isel(b=-1), real.isel(b=-1))
            for mode, kw in (("wrap", {}), ("edge", {}), ("constant", {"constant_values": 2.5})):
                for w in ((1, 0), (0, 2), (nc, nc), (2, 1), (nc + 2, 1)):
                    try:
                        rres = real.pad({"c": w}, mode, **kw)
                    except Exception:  # noqa
                        continue
                    cmp(f"pad {mode} {w}", m.pad({"c": w}, mode, **kw), rres)
            cmp("rename", m.rename({"c": "z"}), real.rename({"c": "z"}))
            cmp("transpose ...", m.transpose(..., "a"), real.transpose(..., "a"))
            cmp("transpose full", m.transpose("c", "a", "b"), real.transpose("c", "a", "b"))
            cmp("squeeze", m.isel(c=slice(0, 1)).squeeze(), real.isel(c=slice(0, 1)).squeeze())
            cmp("expand_dims", m.isel(c=0).expand_dims(["c"]), real.isel(c=0).expand_dims(["c"]))
            cmp("neg", -m, -real)
            # concat along an existing dim, one operand squeezed (ensure_common_dims re-broadcast)
            s1m, s1r = m.isel(c=slice(0, 1)).squeeze(), real.isel(c=slice(0, 1)).squeeze()
            if "c" not in s1r.dims and s1r.ndim == 2:
                cmp("concat squeezed+full", XRModel.concat([s1m, m], dim="c"), xr.concat([s1r, real], dim="c", coords="minimal", compat="override", join="override"))
                cmp("concat full+squeezed", XRModel.concat([m, s1m], dim="c"), xr.concat([real, s1r], dim="c", coords="minimal", compat="override", join="override"))
            cmp("concat transposed operand", XRModel.concat([m.transpose("c", "b", "a").isel(c=slice(0, 2)), m], dim="c"),
                xr.concat([real.transpose("c", "b", "a").isel(c=slice(0, 2)), real], dim="c", coords="minimal", compat="override", join="override"))
            cmp("concat new dim", XRModel.concat([m.isel(a=0), m.isel(a=0)], dim="f"), xr.concat([real.isel(a=0), real.isel(a=0)], dim="f"))
            # arithmetic broadcasting
            d2 = nrng.random((shape[2], shape[0])) + 0.5
            r2 = xr.DataArray(d2, dims=("c", "a"))
            m2, fn2 = _model_array("CE", ("c", "a"), d2.shape)
            F.update(_funs(fn2, d2))
            cmp("mul broadcast", m * m2, real * r2)
            cmp("div broadcast", m2 / m, r2 / real)
            cmp("scalar ops", (m + 1.5) / 2.0, (real + 1.5) / 2.0)
            # cumsum / sum
            symx.CUR.ghost["expand-sums"] = True
            cmp("cumsum", m.cumsum(dim="c"), real.cumsum(dim="c"))
            cmp("sum 1", m.sum("b"), real.sum("b"))
            cmp("sum 2", m.sum(["c", "a"]), real.sum(["c", "a"]))
            symx.CUR.ghost.pop("expand-sums", None)
            # apply_ufunc: what the function receives / how the outputs are labelled
            got = {}

            def rec_model(x, y):
                got["m"] = (x, y)
                return NArr(x.shape[:-1] + (x.shape[-1],), lambda p: x.elem(p) + y.elem(p[-1:] if y.ndim == 1 else p))

            def rec_real(x, y):
                got["r"] = (x, y)
                return x + y
            yv = nrng.random((shape[2],))
            ry = xr.DataArray(yv, dims=("c",))
            my, fny = _model_array("CY", ("c",), yv.shape)
            F.update(_funs(fny, yv))
            mo = apply_ufunc_model(rec_model, [m.transpose("c", "a", "b"), my], [["c"], ["c"]], [["c"]], {"c"}, "forbidden", {}, {}, None)
            ro = xr.apply_ufunc(rec_real, real.transpose("c", "a", "b"), ry, input_core_dims=[["c"], ["c"]], output_core_dims=[["c"]], exclude_dims={"c"})
            n += 1
            mx, mym = got["m"]
            rx, ryr = got["r"]
            if tuple(int(v) for v in mx.shape) != tuple(rx.shape) or tuple(int(v) for v in mym.shape) != tuple(ryr.shape):
                bad.append(f"apply_ufunc: received shapes {mx.shape},{mym.shape} vs real {rx.shape},{ryr.shape}")
            cmp("apply_ufunc result", mo, ro)
    finally:
        symx.CUR = None
    return n, bad


if __name__ == "__main__":
    import sys

    n, bad = run(int(sys.argv[1]) if len(sys.argv) > 1 else 0)
    print(n, "samples;", len(bad), "mismatches")
    for b in bad:
        print("  ", b)
