"""Evaluate z3 terms on concrete numbers in Python (used only by native replays: the specification
term is evaluated on the counterexample's numbers and compared with the real code's output)."""
from __future__ import annotations

from fractions import Fraction

import z3


class NotConcrete(Exception):
    pass


def pyeval(t, consts, funs, cache=None):
    """consts: {z3 const name: number}; funs: {decl name: python callable(*numbers)->number}"""
    if isinstance(t, (int, float, bool, Fraction)):
        return t
    if cache is None:
        cache = {}
    key = t.get_id()
    if key in cache:
        return cache[key]
    r = _ev(t, consts, funs, cache)
    cache[key] = r
    return r


def _ev(t, C, F, cache):
    if z3.is_int_value(t):
        return t.as_long()
    if z3.is_rational_value(t):
        return Fraction(t.numerator_as_long(), t.denominator_as_long())
    if z3.is_true(t):
        return True
    if z3.is_false(t):
        return False
    if not z3.is_app(t):
        raise NotConcrete(f"cannot evaluate {t.sexpr()[:80]}")
    d = t.decl()
    k = d.kind()
    ch = t.children()
    ev = lambda x: pyeval(x, C, F, cache)  # noqa
    if k == z3.Z3_OP_UNINTERPRETED:
        name = d.name()
        if len(ch) == 0:
            if name in C:
                v = C[name]
                return Fraction(v).limit_denominator(10**12) if isinstance(v, float) else v
            raise NotConcrete(f"no value for constant {name}")
        if name in F:
            return F[name](*[ev(c) for c in ch])
        raise NotConcrete(f"no interpretation for function {name}")
    if k == z3.Z3_OP_ITE:
        return ev(ch[1]) if ev(ch[0]) else ev(ch[2])
    if k == z3.Z3_OP_ADD:
        return sum(ev(c) for c in ch)
    if k == z3.Z3_OP_SUB:
        r = ev(ch[0])
        for c in ch[1:]:
            r = r - ev(c)
        return r
    if k == z3.Z3_OP_UMINUS:
        return -ev(ch[0])
    if k == z3.Z3_OP_MUL:
        r = 1
        for c in ch:
            r = r * ev(c)
        return r
    if k == z3.Z3_OP_DIV:
        a, b = ev(ch[0]), ev(ch[1])
        if b == 0:
            raise NotConcrete("division by zero")
        return Fraction(a) / Fraction(b)
    if k == z3.Z3_OP_IDIV:
        a, b = ev(ch[0]), ev(ch[1])
        if b == 0:
            raise NotConcrete("division by zero")
        q = a // b if b > 0 else -(a // -b)
        return q
    if k == z3.Z3_OP_MOD:
        a, b = ev(ch[0]), ev(ch[1])
        if b == 0:
            raise NotConcrete("mod by zero")
        return a % abs(b)
    if k == z3.Z3_OP_TO_REAL:
        return ev(ch[0])
    if k == z3.Z3_OP_TO_INT:
        v = ev(ch[0])
        return int(v // 1)
    if k == z3.Z3_OP_LE:
        return ev(ch[0]) <= ev(ch[1])
    if k == z3.Z3_OP_LT:
        return ev(ch[0]) < ev(ch[1])
    if k == z3.Z3_OP_GE:
        return ev(ch[0]) >= ev(ch[1])
    if k == z3.Z3_OP_GT:
        return ev(ch[0]) > ev(ch[1])
    if k == z3.Z3_OP_EQ:
        return ev(ch[0]) == ev(ch[1])
    if k == z3.Z3_OP_DISTINCT:
        vs = [ev(c) for c in ch]
        return len(set(vs)) == len(vs)
    if k == z3.Z3_OP_AND:
        return all(ev(c) for c in ch)
    if k == z3.Z3_OP_OR:
        return any(ev(c) for c in ch)
    if k == z3.Z3_OP_NOT:
        return not ev(ch[0])
    if k == z3.Z3_OP_IMPLIES:
        return (not ev(ch[0])) or ev(ch[1])
    if k == z3.Z3_OP_XOR:
        return bool(ev(ch[0])) != bool(ev(ch[1]))
    raise NotConcrete(f"operator {d.name()} not supported by the replay evaluator")
