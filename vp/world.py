"""Two implementations of the input-construction API used by harness scenarios:

SymWorld    - symbols, contract models (MArr/MDataset), REAL xgcm objects built under patched names
NativeWorld - concrete numbers from a solver model, REAL xarray objects, REAL xgcm, no patching

A harness scenario written against this API is executed symbolically to generate and discharge
the verification conditions and natively to replay a counterexample on the real code.
"""
from __future__ import annotations

import numpy as np
import z3

from . import symx
from .symx import SymInt, mk_int
from .mxr import MArr, MDataset, Coords

B = 64  # base of the injective index encoding used for native data


class SymWorld:
    native = False

    def __init__(self):
        self.fields = {}
        self.consts = {}

    def size(self, name, lo=1, hi=None):
        v = z3.Int(name)
        symx.ctx().assume(v >= lo)
        if hi is not None:
            symx.ctx().assume(v <= symx.zint(hi))
        self.consts[name] = v
        return mk_int(v)

    def real(self, name):
        v = z3.Real(name)
        self.consts[name] = v
        return symx.SymFloat(v)

    def dataset(self, dims, coords=None, data_vars=None, attrs=None, coord_attrs=None, var_attrs=None):
        cs = {}
        for name, cd in (coords or {}).items():
            cs[name] = self._var(f"coord_{name}", cd, dims, tok=("ds", name),
                                 attrs=(coord_attrs or {}).get(name, {"tokattr": ("ds-attrs", name)}))
        dv = {}
        for name, vd in (data_vars or {}).items():
            dv[name] = self._var(f"var_{name}", vd, dims, tok=("ds", name), attrs=(var_attrs or {}).get(name))
        return MDataset(dims, coords=cs, data_vars=dv, attrs=attrs)

    def _var(self, fname, vd, dims, tok=None, attrs=None, name=None):
        vd = tuple(vd)
        if vd:
            fn = z3.Function(fname, *([z3.IntSort()] * len(vd)), symx.Val)
            el = (lambda fn, vd: lambda idx: fn(*[idx[k] for k in vd]))(fn, vd)
        else:
            fn = z3.Real(fname)
            el = (lambda fn: lambda idx: fn)(fn)
        a = MArr(vd, {d: dims[d] for d in vd}, el, name=name or fname.split("_", 1)[-1], attrs=attrs, tok=tok)
        a.fn = fn
        self.fields[fname] = (fn, vd)
        return a

    def array(self, name, dims, ds, with_coords=False, dask=None):
        a = self._var(name, dims, ds.dims, name=name)
        if with_coords:
            cc = Coords()
            for k, cv in ds.coords.items():
                if all(d in dims for d in cv.dims):
                    cc._d[k] = cv
            a.coords = cc
        a.dask = dask
        return a

    def grid(self, ds, layout, **kw):
        from xgcm import Grid

        kw.setdefault("autoparse_metadata", False)
        return Grid(ds, coords={ax: dict(pm) for ax, pm in layout.items()}, **kw)


def _np_field(shape, offset, sign=1):
    if len(shape) == 0:
        return np.array(sign * offset)
    idx = np.indices(shape)
    e = np.zeros(shape)
    for k in range(len(shape)):
        e = e * B + idx[k]
    return sign * (e + offset)


class NativeWorld:
    native = True

    def __init__(self, model_vals, defaults=None):
        self.m = dict(model_vals or {})
        self.defaults = defaults or {}
        self.fields = {}  # fname -> (offset, sign, ndim)
        self.consts = {}
        self._k = 0

    def _num(self, name, dflt):
        v = self.m.get(name, self.defaults.get(name, dflt))
        if isinstance(v, str):
            v = v.replace("?", "")
            if "/" in v:
                a, b = v.split("/")
                return float(a) / float(b)
            return float(v) if "." in v else int(v)
        return v

    def size(self, name, lo=1, hi=None):
        v = int(self._num(name, max(lo, 3)))
        v = max(lo, v)
        if hi is not None:
            v = min(v, int(hi))
        self.consts[name] = v
        return v

    def real(self, name):
        v = float(self._num(name, 0.5 + len(self.consts)))
        self.consts[name] = v
        return v

    def _tofloat(self, v):
        if isinstance(v, str):
            v = v.replace("?", "")
            if "/" in v:
                a, b = v.split("/")
                return float(a) / float(b)
            return float(v)
        return float(v)

    def _table(self, fname):
        return (self.m.get("__funcs__") or {}).get(fname)

    def _data(self, fname, shape):
        """numpy data for a field: the solver model's interpretation when there is one (the
        counterexample itself), else an injective index encoding"""
        t = self._table(fname)
        off, sg = self._off(fname)
        if t is None or len(shape) == 0:
            return _np_field(shape, off, sg)
        a = np.full(shape, self._tofloat(t["else"]))
        for row in t["entries"]:
            pos = tuple(int(x) for x in row[:-1])
            if len(pos) == len(shape) and all(0 <= p < n for p, n in zip(pos, shape)):
                a[pos] = self._tofloat(row[-1])
        return a

    def _off(self, fname):
        if fname not in self.fields:
            self._k += 1
            self.fields[fname] = (0.03125 * self._k, 1 if self._k % 2 else -1)
        return self.fields[fname]

    def dataset(self, dims, coords=None, data_vars=None, attrs=None, coord_attrs=None, var_attrs=None):
        import xarray as xr

        cs = {}
        for name, cd in (coords or {}).items():
            off, sg = self._off(f"coord_{name}")
            a = self._data(f"coord_{name}", tuple(dims[d] for d in cd))
            cs[name] = xr.Variable(tuple(cd), a, attrs=(coord_attrs or {}).get(name, {"tokattr": f"ds-attrs-{name}"}))
        dv = {}
        for name, vd in (data_vars or {}).items():
            off, sg = self._off(f"var_{name}")
            dv[name] = xr.Variable(tuple(vd), self._data(f"var_{name}", tuple(dims[d] for d in vd)), attrs=(var_attrs or {}).get(name))
        ds = xr.Dataset(dv, coords=cs, attrs=attrs)
        # dimensions without coordinate still need to exist
        for d, n in dims.items():
            if d not in ds.dims:
                ds = ds.assign({f"__dimholder_{d}": xr.Variable((d,), np.zeros(n))})
        return ds

    def array(self, name, dims, ds, with_coords=False, dask=None):
        import xarray as xr

        off, sg = self._off(name)
        shape = tuple(ds.sizes[d] for d in dims)
        a = xr.DataArray(self._data(name, shape), dims=tuple(dims), name=name)
        if with_coords:
            a = a.assign_coords({k: v for k, v in ds.coords.items() if all(d in dims for d in v.dims)})
        if dask is not None:
            a = a.chunk(dask)
        return a

    def grid(self, ds, layout, **kw):
        from xgcm import Grid

        kw.setdefault("autoparse_metadata", False)
        return Grid(ds, coords={ax: dict(pm) for ax, pm in layout.items()}, **kw)

    # ---- evaluation of symbolic spec terms on this world's numbers -------------------------------
    def numfuns(self, symworld):
        funs = []
        for fname, (fn, vd) in symworld.fields.items():
            off, sg = self._off(fname)
            if len(vd) == 0:
                continue
            t = self._table(fname)
            if t is not None:
                body = z3.RealVal(str(t["else"]).replace("?", ""))
                for row in reversed(t["entries"]):
                    cond = z3.And(*[z3.Var(k, z3.IntSort()) == int(x) for k, x in enumerate(row[:-1])])
                    body = z3.If(cond, z3.RealVal(str(row[-1]).replace("?", "")), body)
                funs.append((fn, body))
                continue
            e = z3.IntVal(0)
            for k in range(len(vd)):
                e = e * B + z3.Var(k, z3.IntSort())
            funs.append((fn, sg * (z3.ToReal(e) + z3.RealVal(str(off)))))
        return funs

    def numconsts(self, symworld):
        subs = []
        for name, v in symworld.consts.items():
            if name in self.consts:
                val = self.consts[name]
                subs.append((v, z3.IntVal(val) if z3.is_int(v) else z3.RealVal(repr(float(val)))))
        for fname, (fn, vd) in symworld.fields.items():
            if len(vd) == 0:
                off, sg = self._off(fname)
                subs.append((fn, z3.RealVal(str(sg * off))))
        return subs


def make_evaluator(sw, nw, ghost=None):
    """python evaluator of specification terms on the native world's numbers"""
    from .zeval import pyeval
    from fractions import Fraction

    consts = {}
    for name, v in sw.consts.items():
        if name in nw.consts:
            consts[name] = nw.consts[name]
    funs = {}
    for fname, (fn, vd) in sw.fields.items():
        t = nw._table(fname)
        off, sg = nw._off(fname)
        if len(vd) == 0:
            consts[fn.decl().name()] = sg * off if t is None else nw._tofloat(t["else"])
            continue
        if t is not None:
            tab = {tuple(int(x) for x in row[:-1]): nw._tofloat(row[-1]) for row in t["entries"]}
            els = nw._tofloat(t["else"])
            funs[fn.name()] = (lambda tab, els: lambda *a: tab.get(tuple(int(x) for x in a), els))(tab, els)
        else:
            def enc(*a, off=off, sg=sg):
                e = 0
                for x in a:
                    e = e * B + int(x)
                return sg * (e + Fraction(off))
            funs[fn.name()] = enc
    cache_shared = {}
    for key, (fn, term, a, dim, others) in ((ghost or {}).get("prefix-registry") or {}).items():
        def psum(*args, a=a, dim=dim, others=others):
            k = int(args[-1])
            tot = 0
            for i in range(0, k + 1):
                idx = {d: z3.IntVal(int(x)) for d, x in zip(others, args[:-1])}
                idx[dim] = z3.IntVal(i)
                tot = tot + pyeval(a._elem(idx), consts, funs)
            return tot
        funs[fn.name()] = psum

    def ev(t, extra=None):
        c = dict(consts)
        if extra:
            c.update(extra)
        return pyeval(t, c, funs)
    return ev


class Twin:
    """context for building the symbolic twin of a native scenario (specification terms only)"""

    def __enter__(self):
        self.ctx = symx.Ctx([])
        symx.CUR = self.ctx
        return self

    def __exit__(self, *a):
        symx.CUR = None
        return False

    @property
    def ghost(self):
        return self.ctx.ghost


def evalnum(t, subs, funs):
    if isinstance(t, (int, float, bool)):
        return t
    t = z3.substitute(t, *subs) if subs else t
    t = z3.substitute_funs(t, *funs) if funs else t
    t = z3.simplify(t)
    if z3.is_true(t):
        return True
    if z3.is_false(t):
        return False
    if z3.is_int_value(t):
        return t.as_long()
    if z3.is_rational_value(t):
        return t.numerator_as_long() / t.denominator_as_long()
    raise ValueError(f"term did not evaluate to a number: {t}")


def _numstr(v):
    if z3.is_int_value(v):
        return v.as_long()
    if z3.is_rational_value(v):
        return str(v)
    if z3.is_true(v):
        return True
    if z3.is_false(v):
        return False
    return None


def model_values(model):
    """constants and (finite) function interpretations of a z3 model, JSON-able"""
    vals = {}
    if model is None:
        return vals
    funcs = {}
    for d in model.decls():
        if d.arity() == 0:
            x = _numstr(model[d])
            if x is not None:
                vals[d.name()] = x
        else:
            try:
                fi = model[d]
                lst = fi.as_list()
                ent = []
                ok = True
                for e in lst[:-1]:
                    row = [_numstr(x) for x in e]
                    if any(x is None for x in row):
                        ok = False
                        break
                    ent.append(row)
                els = _numstr(lst[-1]) if z3.is_expr(lst[-1]) else None
                if ok and els is not None and len(ent) <= 400:
                    funcs[d.name()] = {"entries": ent, "else": els}
            except Exception:  # noqa
                pass
    if funcs:
        vals["__funcs__"] = funcs
    return vals


def native_compare(sw, nw, cells, q, out_real, ghost=None, tol=1e-9, max_report=8):
    """compare a real xarray result with specification clauses (name, region, value) cell by cell.
    q: {dim: z3 index variable}.  Returns list of mismatch strings."""
    import itertools

    mism = []
    ev = make_evaluator(sw, nw, ghost)
    dims = list(out_real.dims)
    for d in dims:
        if d not in q:
            return [f"result has unexpected dimension {d!r} (dims {tuple(dims)})"]
    vals = out_real.values
    if vals.size > 20000:
        return [f"result too large to compare natively ({vals.size} cells)"]
    for pos in itertools.product(*[range(n) for n in vals.shape]):
        extra = {q[d].decl().name(): p for d, p in zip(dims, pos)}
        for d in q:
            if d not in dims:
                extra[q[d].decl().name()] = 0
        for name, region, valt in cells:
            if ev(region, extra):
                want = float(ev(valt, extra))
                got = float(vals[pos])
                if not (abs(got - want) <= tol * max(1.0, abs(want))):
                    mism.append(f"{name}: cell {dict(zip(dims, pos))} got {got!r} expected {want!r}")
                break
        if len(mism) >= max_report:
            break
    return mism


# ---- recording user functions (C11: the user program is uninterpreted) ----------------------------
def _sym_userfunc(self, name, out_shapes_cb, annotations=None):
    from .mxr import NArr

    calls = []

    def f(*arrs, **kw):
        calls.append((arrs, kw))
        shapes = out_shapes_cb(arrs)
        outs = []
        for k, shp in enumerate(shapes):
            fname = f"{name}{k}"
            if fname not in self.fields:
                fn = z3.Function(fname, *([z3.IntSort()] * len(shp)), symx.Val) if shp else z3.Real(fname)
                self.fields[fname] = (fn, tuple(range(len(shp))))
            fn = self.fields[fname][0]
            outs.append(NArr(tuple(shp), (lambda fn: lambda p: fn(*p) if len(p) else fn)(fn)))
        return outs[0] if len(outs) == 1 else tuple(outs)
    if annotations:
        f.__annotations__ = dict(annotations)
    f.calls = calls
    return f


def _nat_userfunc(self, name, out_shapes_cb, annotations=None):
    calls = []

    def f(*arrs, **kw):
        calls.append((arrs, kw))
        shapes = out_shapes_cb(arrs)
        outs = []
        for k, shp in enumerate(shapes):
            outs.append(self._data(f"{name}{k}", tuple(int(x) for x in shp)))
        return outs[0] if len(outs) == 1 else tuple(outs)
    if annotations:
        f.__annotations__ = dict(annotations)
    f.calls = calls
    return f


SymWorld.userfunc = _sym_userfunc
NativeWorld.userfunc = _nat_userfunc


def raised_in_harness(e):
    """True iff the exception was raised by a line of /verif itself (harness, worlds, models) rather than by the code under
    proof or a library it calls: such an exception is a defect of the replay, never a confirmation of a violation"""
    tb = e.__traceback__
    last = None
    while tb is not None:
        last = tb
        tb = tb.tb_next
    if last is None:
        return True
    fn = last.tb_frame.f_code.co_filename
    return "/harness/" in fn or "/vp/" in fn or "/contracts/" in fn
