"""Two implementations of the input-construction API used by harness scenarios:

SymWorld    - symbols, contract models (MArr/MDataset), REAL xgcm objects built under patched names
NativeWorld - concrete numbers from a solver model, REAL xarray objects, REAL xgcm, no patching

A harness scenario written against this API is executed symbolically to generate and discharge
the verification conditions and natively to replay a counterexample on the real code.
"""
from __future__ import annotations

import numpy as np
import z3

from . import symx
from .symx import SymInt, mk_int
from .mxr import MArr, MDataset, Coords

B = 64  # base of the injective index encoding used for native data


class SymWorld:
    native = False

    def __init__(self):
        self.fields = {}
        self.consts = {}

    def size(self, name, lo=1, hi=None):
        v = z3.Int(name)
        symx.ctx().assume(v >= lo)
        if hi is not None:
            symx.ctx().assume(v <= symx.zint(hi))
        self.consts[name] = v
        return mk_int(v)

    def real(self, name):
        v = z3.Real(name)
        self.consts[name] = v
        return symx.SymFloat(v)

    def dataset(self, dims, coords=None, data_vars=None, attrs=None, coord_attrs=None):
        cs = {}
        for name, cd in (coords or {}).items():
            cs[name] = self._var(f"coord_{name}", cd, dims, tok=("ds", name),
                                 attrs=(coord_attrs or {}).get(name, {"tokattr": ("ds-attrs", name)}))
        dv = {}
        for name, vd in (data_vars or {}).items():
            dv[name] = self._var(f"var_{name}", vd, dims, tok=("ds", name))
        return MDataset(dims, coords=cs, data_vars=dv, attrs=attrs)

    def _var(self, fname, vd, dims, tok=None, attrs=None, name=None):
        vd = tuple(vd)
        if vd:
            fn = z3.Function(fname, *([z3.IntSort()] * len(vd)), symx.Val)
            el = (lambda fn, vd: lambda idx: fn(*[idx[k] for k in vd]))(fn, vd)
        else:
            fn = z3.Real(fname)
            el = (lambda fn: lambda idx: fn)(fn)
        a = MArr(vd, {d: dims[d] for d in vd}, el, name=name or fname.split("_", 1)[-1], attrs=attrs, tok=tok)
        a.fn = fn
        self.fields[fname] = (fn, vd)
        return a

    def array(self, name, dims, ds, with_coords=False, dask=None):
        a = self._var(name, dims, ds.dims, name=name)
        if with_coords:
            cc = Coords()
            for k, cv in ds.coords.items():
                if all(d in dims for d in cv.dims):
                    cc._d[k] = cv
            a.coords = cc
        a.dask = dask
        return a

    def grid(self, ds, layout, **kw):
        from xgcm import Grid

        kw.setdefault("autoparse_metadata", False)
        return Grid(ds, coords={ax: dict(pm) for ax, pm in layout.items()}, **kw)


def _np_field(shape, offset, sign=1):
    if len(shape) == 0:
        return np.array(sign * offset)
    idx = np.indices(shape)
    e = np.zeros(shape)
    for k in range(len(shape)):
        e = e * B + idx[k]
    return sign * (e + offset)


class NativeWorld:
    native = True

    def __init__(self, model_vals, defaults=None):
        self.m = dict(model_vals or {})
        self.defaults = defaults or {}
        self.fields = {}  # fname -> (offset, sign, ndim)
        self.consts = {}
        self._k = 0

    def _num(self, name, dflt):
        v = self.m.get(name, self.defaults.get(name, dflt))
        if isinstance(v, str):
            v = v.replace("?", "")
            if "/" in v:
                a, b = v.split("/")
                return float(a) / float(b)
            return float(v) if "." in v else int(v)
        return v

    def size(self, name, lo=1, hi=None):
        v = int(self._num(name, max(lo, 3)))
        v = max(lo, v)
        if hi is not None:
            v = min(v, int(hi))
        self.consts[name] = v
        return v

    def real(self, name):
        v = float(self._num(name, 0.5 + len(self.consts)))
        self.consts[name] = v
        return v

    def _tofloat(self, v):
        if isinstance(v, str):
            v = v.replace("?", "")
            if "/" in v:
                a, b = v.split("/")
                return float(a) / float(b)
            return float(v)
        return float(v)

    def _table(self, fname):
        return (self.m.get("__funcs__") or {}).get(fname)

    def _data(self, fname, shape):
        """numpy data for a field: the solver model's interpretation when there is one (the
        counterexample itself), else an injective index encoding"""
        t = self._table(fname)
        off, sg = self._off(fname)
        if t is None or len(shape) == 0:
            return _np_field(shape, off, sg)
        a = np.full(shape, self._tofloat(t["else"]))
        for row in t["entries"]:
            pos = tuple(int(x) for x in row[:-1])
            if len(pos) == len(shape) and all(0 <= p < n for p, n in zip(pos, shape)):
                a[pos] = self._tofloat(row[-1])
        return a

    def _off(self, fname):
        if fname not in self.fields:
            self._k += 1
            self.fields[fname] = (0.03125 * self._k, 1 if self._k % 2 else -1)
        return self.fields[fname]

    def dataset(self, dims, coords=None, data_vars=None, attrs=None, coord_attrs=None):
        import xarray as xr

        cs = {}
        for name, cd in (coords or {}).items():
            off, sg = self._off(f"coord_{name}")
            a = self._data(f"coord_{name}", tuple(dims[d] for d in cd))
            cs[name] = xr.Variable(tuple(cd), a, attrs=(coord_attrs or {}).get(name, {"tokattr": f"ds-attrs-{name}"}))
        dv = {}
        for name, vd in (data_vars or {}).items():
            off, sg = self._off(f"var_{name}")
            dv[name] = xr.Variable(tuple(vd), self._data(f"var_{name}", tuple(dims[d] for d in vd)))
        ds = xr.Dataset(dv, coords=cs, attrs=attrs)
        # dimensions without coordinate still need to exist
        for d, n in dims.items():
            if d not in ds.dims:
                ds = ds.assign({f"__dimholder_{d}": xr.Variable((d,), np.zeros(n))})
        return ds

    def array(self, name, dims, ds, with_coords=False, dask=None):
        import xarray as xr

        off, sg = self._off(name)
        shape = tuple(ds.sizes[d] for d in dims)
        a = xr.DataArray(self._data(name, shape), dims=tuple(dims), name=name)
        if with_coords:
            a = a.assign_coords({k: v for k, v in ds.coords.items() if all(d in dims for d in v.dims)})
        if dask is not None:
            a = a.chunk(dask)
        return a

    def grid(self, ds, layout, **kw):
        from xgcm import Grid

        kw.setdefault("autoparse_metadata", False)
        return Grid(ds, coords={ax: dict(pm) for ax, pm in layout.items()}, **kw)

    # ---- evaluation of symbolic spec terms on this world's numbers -------------------------------
    def numfuns(self, symworld):
        funs = []
        for fname, (fn, vd) in symworld.fields.items():
            off, sg = self._off(fname)
            if len(vd) == 0:
                continue
            t = self._table(fname)
            if t is not None:
                body = z3.RealVal(str(t["else"]).replace("?", ""))
                for row in reversed(t["entries"]):
                    cond = z3.And(*[z3.Var(k, z3.IntSort()) == int(x) for k, x in enumerate(row[:-1])])
                    body = z3.If(cond, z3.RealVal(str(row[-1]).replace("?", "")), body)
                funs.append((fn, body))
                continue
            e = z3.IntVal(0)
            for k in range(len(vd)):
                e = e * B + z3.Var(k, z3.IntSort())
            funs.append((fn, sg * (z3.ToReal(e) + z3.RealVal(str(off)))))
        return funs

    def numconsts(self, symworld):
        subs = []
        for name, v in symworld.consts.items():
            if name in self.consts:
                val = self.consts[name]
                subs.append((v, z3.IntVal(val) if z3.is_int(v) else z3.RealVal(repr(float(val)))))
        for fname, (fn, vd) in symworld.fields.items():
            if len(vd) == 0:
                off, sg = self._off(fname)
                subs.append((fn, z3.RealVal(str(sg * off))))
        return subs


def evalnum(t, subs, funs):
    if isinstance(t, (int, float, bool)):
        return t
    t = z3.substitute(t, *subs) if subs else t
    t = z3.substitute_funs(t, *funs) if funs else t
    t = z3.simplify(t)
    if z3.is_true(t):
        return True
    if z3.is_false(t):
        return False
    if z3.is_int_value(t):
        return t.as_long()
    if z3.is_rational_value(t):
        return t.numerator_as_long() / t.denominator_as_long()
    raise ValueError(f"term did not evaluate to a number: {t}")


def _numstr(v):
    if z3.is_int_value(v):
        return v.as_long()
    if z3.is_rational_value(v):
        return str(v)
    return None


def model_values(model):
    """constants and (finite) function interpretations of a z3 model, JSON-able"""
    vals = {}
    if model is None:
        return vals
    funcs = {}
    for d in model.decls():
        if d.arity() == 0:
            x = _numstr(model[d])
            if x is not None:
                vals[d.name()] = x
        else:
            try:
                fi = model[d]
                lst = fi.as_list()
                ent = []
                ok = True
                for e in lst[:-1]:
                    row = [_numstr(x) for x in e]
                    if any(x is None for x in row):
                        ok = False
                        break
                    ent.append(row)
                els = _numstr(lst[-1]) if z3.is_expr(lst[-1]) else None
                if ok and els is not None and len(ent) <= 400:
                    funcs[d.name()] = {"entries": ent, "else": els}
            except Exception:  # noqa
                pass
    if funcs:
        vals["__funcs__"] = funcs
    return vals


def native_compare(sw, nw, cells, q, out_real, extra_subs=(), tol=1e-9, max_report=8):
    """compare a real xarray result with specification clauses (name, region, value) cell by cell.
    q: {dim: z3 index variable}.  Returns list of mismatch strings."""
    import itertools

    mism = []
    subs0 = nw.numconsts(sw) + list(extra_subs)
    funs = nw.numfuns(sw)
    dims = list(out_real.dims)
    for d in dims:
        if d not in q:
            return [f"result has unexpected dimension {d!r} (dims {tuple(dims)})"]
    vals = out_real.values
    if vals.size > 20000:
        return [f"result too large to compare natively ({vals.size} cells)"]
    for pos in itertools.product(*[range(n) for n in vals.shape]):
        subs = subs0 + [(q[d], z3.IntVal(p)) for d, p in zip(dims, pos)]
        for d in q:
            if d not in dims:
                subs.append((q[d], z3.IntVal(0)))
        hit = False
        for name, region, valt in cells:
            if evalnum(region, subs, funs):
                hit = True
                want = evalnum(valt, subs, funs)
                got = float(vals[pos])
                if not (abs(got - want) <= tol * max(1.0, abs(want))):
                    mism.append(f"{name}: cell {dict(zip(dims, pos))} got {got!r} expected {want!r}")
                break
        if len(mism) >= max_report:
            break
    return mism
