"""symx core: exhaustive symbolic execution of real Python function objects with z3.

Proxies (SymInt, SymBool) carry z3 terms; every value-dependent branch goes through
SymBool.__bool__, which asks the path solver and forks.  Paths are enumerated exhaustively by
deterministic re-execution with a decision prefix.  Obligations are discharged for all values
of the symbols under the path condition.

Verdict discipline: an obligation is 'proved' (unsat of the negation), 'failed' (sat, with a
model) or 'unknown' (solver gave up).  Nothing else is ever mapped to proved.
"""
from __future__ import annotations

import itertools
import time

import z3

QUERY_TIMEOUT_MS = 60000
INCREMENTAL_TIMEOUT_MS = 15000


import re as _re

# exception texts that can only come from the proxies / library models themselves
MODEL_LIMIT_RE = _re.compile(
    r"EngineUnsupported|the library model \w+ does not cover|"
    r"(AttributeError|TypeError|NotImplementedError|NameError)[^\n]*\b(NPModel|XRModel|KNP|MArr|NArr|BArr|MDataset|DataArrayModel|KArr|OutArr|ElemWise|NVal|"
    r"SymInt|SymFloat|SymVal|SymBool|RangeValues|DemonicSet|DemonicFrozenSet|TrackedDict|PrefixSum)\b")


_MSG_LINES = {}


def _only_for_a_message():
    """True iff the proxy is being converted to a number inside a `raise` statement or a `warnings.warn(...)` call of the
    code under proof (i.e. only to be formatted into a message): the text of a message is not an observable of any
    contract here, so a placeholder number is sound.  Anywhere else the conversion would concretise a symbol."""
    import ast
    import sys as _sys
    f = _sys._getframe(2)
    while f is not None and ("/vp/" in f.f_code.co_filename):
        f = f.f_back
    if f is None:
        return False
    fn, ln = f.f_code.co_filename, f.f_lineno
    if fn not in _MSG_LINES:
        s = set()
        try:
            with open(fn) as fh:
                tree = ast.parse(fh.read())
            for n in ast.walk(tree):
                if isinstance(n, ast.Raise) or (isinstance(n, ast.Call) and isinstance(n.func, ast.Attribute) and n.func.attr == "warn"):
                    s.update(range(n.lineno, (n.end_lineno or n.lineno) + 1))
        except (OSError, SyntaxError):
            pass
        _MSG_LINES[fn] = s
    return ln in _MSG_LINES[fn]


class EngineUnsupported(Exception):
    """The engine met an operation it cannot model soundly (would concretise a symbol)."""


class InfeasiblePath(Exception):
    pass


class PathAbort(Exception):
    """Raised by harness code to stop the current path (e.g. precondition unsatisfiable)."""


Val = z3.RealSort()


def RV(x):
    """python number -> z3 Real value"""
    if isinstance(x, SymVal):
        return x.e
    if z3.is_expr(x):
        return x
    if isinstance(x, bool):
        raise TypeError("bool as value")
    if isinstance(x, int):
        return z3.RealVal(x)
    if isinstance(x, float):
        if x != x:
            raise EngineUnsupported("NaN as a plain real value")
        return z3.RealVal(repr(x))
    raise TypeError(f"cannot lift {type(x)} to a value")


class Oblig:
    __slots__ = ("name", "status", "model", "path", "time", "detail")

    def __init__(self, name, status, model=None, path=None, t=0.0, detail=None):
        self.name = name
        self.status = status  # proved | failed | unknown
        self.model = model
        self.path = path
        self.time = t
        self.detail = detail

    def __repr__(self):
        return f"Oblig({self.name}, {self.status})"


class Ctx:
    def __init__(self, prefix):
        self.solver = z3.Solver()
        self.solver.set("timeout", INCREMENTAL_TIMEOUT_MS)
        self.prefix = list(prefix)
        self.trace = []
        self.pending = []
        self.nq = 0
        self.obligs = []
        self.solver_time = 0.0
        self.fresh = itertools.count()
        self.notes = []
        self.ghost = {}  # free-form ghost state for models (generic loop index, ...)

    # ---- symbols -------------------------------------------------------------------------
    def fresh_int(self, base):
        return z3.Int(f"{base}!{next(self.fresh)}")

    def fresh_real(self, base):
        return z3.Real(f"{base}!{next(self.fresh)}")

    def assume(self, *es):
        for e in es:
            self.solver.add(e)

    # ---- branching -----------------------------------------------------------------------
    def _sat(self, cond):
        self.nq += 1
        t = time.time()
        self.solver.push()
        self.solver.add(cond)
        r = self.solver.check()
        self.solver.pop()
        self.solver_time += time.time() - t
        if r == z3.unknown:
            raise EngineUnsupported(f"path solver returned unknown on branch condition {cond}")
        return r == z3.sat

    def decide(self, cond):
        k = len(self.trace)
        if k < len(self.prefix):
            b = self.prefix[k]
        else:
            can_t = self._sat(cond)
            can_f = self._sat(z3.Not(cond))
            if can_t and can_f:
                self.pending.append(list(self.trace) + [False])
                b = True
            elif can_t:
                b = True
            elif can_f:
                b = False
            else:
                raise InfeasiblePath()
        self.trace.append(b)
        self.solver.add(cond if b else z3.Not(cond))
        return b

    def choose(self, n, tag="choice"):
        """demonic n-ary choice: every alternative 0..n-1 is explored"""
        if n <= 0:
            raise ValueError("choose from nothing")
        if n == 1:
            return 0
        k = len(self.trace)
        if k < len(self.prefix):
            c = self.prefix[k]
        else:
            for alt in range(n - 1, 0, -1):
                self.pending.append(list(self.trace) + [alt])
            c = 0
        self.trace.append(c)
        return c

    # ---- obligations ---------------------------------------------------------------------
    def oblige(self, name, goal, detail=None):
        if isinstance(goal, SymBool):
            goal = goal.e
        if isinstance(goal, bool):
            if not goal and detail is not None and MODEL_LIMIT_RE.search(str(detail)):
                # the exception behind this obligation was raised BY the library models (an operation they do not
                # cover), not by the code under proof: undecided, never a refutation
                raise EngineUnsupported(f"model limit behind obligation {name}: {str(detail)[:300]}")
            ob = Oblig(name, "proved" if goal else "failed", None, list(self.trace), 0.0, detail)
            if not goal:
                ob.model = self._any_model()
            self.obligs.append(ob)
            return ob
        t = time.time()
        status, model = self.check_valid(goal)
        if status == "unknown":
            detail = (detail or "") + " reason=" + self.solver.reason_unknown()
        dt = time.time() - t
        ob = Oblig(name, status, model, list(self.trace), dt, detail)
        self.obligs.append(ob)
        return ob

    def quick_valid(self, goal, assumptions=(), timeout_ms=2000):
        """cheap attempt: syntactic identity after simplification, then a short solver call.
        returns 'proved' | 'failed' | 'unknown' (no second opinion)"""
        g = z3.simplify(goal)
        if z3.is_true(g):
            return "proved", None
        if z3.is_eq(g) and g.arg(0).eq(g.arg(1)):
            return "proved", None
        self.nq += 1
        t = time.time()
        self.solver.push()
        self.solver.set("timeout", timeout_ms)
        for a in assumptions:
            self.solver.add(a)
        self.solver.add(z3.Not(goal))
        r = self.solver.check()
        model = self.solver.model() if r == z3.sat else None
        self.solver.set("timeout", INCREMENTAL_TIMEOUT_MS)
        self.solver.pop()
        self.solver_time += time.time() - t
        return ("proved" if r == z3.unsat else ("failed" if r == z3.sat else "unknown")), model

    def check_valid(self, goal, assumptions=()):
        """validity of `goal` under the path condition (+ extra assumptions): 'proved' | 'failed' |
        'unknown'.  z3 incremental first; on unknown a fresh z3 solver, then cvc5 on the SMT-LIB dump."""
        self.nq += 1
        t = time.time()
        self.solver.push()
        for a in assumptions:
            self.solver.add(a)
        self.solver.add(z3.Not(goal))
        r = self.solver.check()
        model = self.solver.model() if r == z3.sat else None
        status = "proved" if r == z3.unsat else ("failed" if r == z3.sat else "unknown")
        if status == "unknown":
            status, model = second_opinion(self.solver)
        self.solver.pop()
        self.solver_time += time.time() - t
        return status, model

    def _any_model(self):
        self.nq += 1
        if self.solver.check() == z3.sat:
            return self.solver.model()
        return None

    def feasible(self):
        self.nq += 1
        return self.solver.check() == z3.sat


BACKEND_STATS = {"z3-incremental-unknown": 0, "z3-fresh": 0, "cvc5": 0}


def second_opinion(solver):
    """called with the query asserted in `solver`: try a fresh z3 solver, then the cvc5 CLI"""
    import os
    import subprocess
    import tempfile

    BACKEND_STATS["z3-incremental-unknown"] += 1
    s2 = z3.Solver()
    s2.set("timeout", QUERY_TIMEOUT_MS)
    s2.add(*solver.assertions())
    r = s2.check()
    if r == z3.unsat:
        BACKEND_STATS["z3-fresh"] += 1
        return "proved", None
    if r == z3.sat:
        BACKEND_STATS["z3-fresh"] += 1
        return "failed", s2.model()
    try:
        smt = "(set-logic ALL)\n" + s2.to_smt2()
        with tempfile.NamedTemporaryFile("w", suffix=".smt2", delete=False) as f:
            f.write(smt)
            path = f.name
        out = subprocess.run(["/usr/bin/cvc5", "--tlimit=60000", path], capture_output=True, text=True, timeout=90).stdout.strip()
        os.unlink(path)
        if out.startswith("unsat"):
            BACKEND_STATS["cvc5"] += 1
            return "proved", None
    except Exception:  # noqa
        pass
    return "unknown", None


CUR: Ctx = None  # type: ignore


def ctx() -> Ctx:
    if CUR is None:
        raise RuntimeError("no symbolic context active")
    return CUR


class SymBool:
    __slots__ = ("e",)

    def __init__(self, e):
        self.e = z3.simplify(e) if z3.is_expr(e) else z3.BoolVal(bool(e))

    def __bool__(self):
        if z3.is_true(self.e):
            return True
        if z3.is_false(self.e):
            return False
        return ctx().decide(self.e)

    def __and__(self, o):
        return SymBool(z3.And(self.e, bz(o)))

    __rand__ = __and__

    def __or__(self, o):
        return SymBool(z3.Or(self.e, bz(o)))

    __ror__ = __or__

    def __invert__(self):
        return SymBool(z3.Not(self.e))

    def __eq__(self, o):
        if isinstance(o, (bool, SymBool)):
            return SymBool(self.e == bz(o))
        return NotImplemented

    def __hash__(self):
        raise EngineUnsupported("hash of a symbolic bool")

    def __repr__(self):
        return f"SymBool({self.e})"


def bz(x):
    if isinstance(x, SymBool):
        return x.e
    if isinstance(x, bool):
        return z3.BoolVal(x)
    if z3.is_expr(x):
        return x
    raise TypeError(type(x))


def _is_int(o):
    return isinstance(o, (int, SymInt)) and not isinstance(o, bool)


class SymInt:
    __slots__ = ("e",)

    def __init__(self, e):
        self.e = z3.IntVal(e) if isinstance(e, int) else z3.simplify(e)

    def _b(self, o, f):
        if _is_int(o):
            return mk_int(f(self.e, zint(o)))
        return NotImplemented

    def __add__(s, o):
        return s._b(o, lambda a, b: a + b)

    def __radd__(s, o):
        return s._b(o, lambda a, b: b + a)

    def __sub__(s, o):
        return s._b(o, lambda a, b: a - b)

    def __rsub__(s, o):
        return s._b(o, lambda a, b: b - a)

    def __mul__(s, o):
        return s._b(o, lambda a, b: a * b)

    def __rmul__(s, o):
        return s._b(o, lambda a, b: b * a)

    def __neg__(s):
        return mk_int(-s.e)

    def __pos__(s):
        return s

    def _c(s, o, f):
        if _is_int(o):
            return SymBool(f(s.e, zint(o)))
        return NotImplemented

    def __lt__(s, o):
        return s._c(o, lambda a, b: a < b)

    def __le__(s, o):
        return s._c(o, lambda a, b: a <= b)

    def __gt__(s, o):
        return s._c(o, lambda a, b: a > b)

    def __ge__(s, o):
        return s._c(o, lambda a, b: a >= b)

    def __eq__(s, o):
        r = s._c(o, lambda a, b: a == b)
        return False if r is NotImplemented else r

    def __ne__(s, o):
        r = s._c(o, lambda a, b: a != b)
        return True if r is NotImplemented else r

    def __bool__(s):
        return bool(SymBool(s.e != 0))

    def __hash__(s):
        raise EngineUnsupported("symbolic int is unhashable (would concretise)")

    def __index__(s):
        if _only_for_a_message():
            return 0
        raise EngineUnsupported("symbolic int used as concrete index")

    def __int__(s):
        if _only_for_a_message():
            return 0
        raise EngineUnsupported("int() of symbolic int")

    def __float__(s):
        if _only_for_a_message():
            return 0.0
        raise EngineUnsupported("float() of symbolic int")

    def __repr__(s):
        return f"SymInt({s.e})"


def mk_int(e):
    """z3 int term -> python int if it simplifies to a numeral, else SymInt"""
    e = z3.simplify(e)
    if z3.is_int_value(e):
        return e.as_long()
    s = SymInt.__new__(SymInt)
    s.e = e
    return s


def zint(x):
    if isinstance(x, SymInt):
        return x.e
    if isinstance(x, bool):
        raise TypeError("bool used as int")
    if isinstance(x, int):
        return z3.IntVal(x)
    if z3.is_expr(x):
        return x
    raise TypeError(f"not an integer: {type(x)} {x!r}")


class SymVal:
    """A symbolic real data value (array element, fill value)."""

    __slots__ = ("e",)

    def __init__(self, e):
        self.e = e if z3.is_expr(e) else RV(e)

    def _b(self, o, f):
        if isinstance(o, (int, float, SymVal)) and not isinstance(o, bool):
            return SymVal(f(self.e, RV(o)))
        return NotImplemented

    def __add__(s, o):
        return s._b(o, lambda a, b: a + b)

    def __radd__(s, o):
        return s._b(o, lambda a, b: b + a)

    def __sub__(s, o):
        return s._b(o, lambda a, b: a - b)

    def __rsub__(s, o):
        return s._b(o, lambda a, b: b - a)

    def __mul__(s, o):
        return s._b(o, lambda a, b: a * b)

    def __rmul__(s, o):
        return s._b(o, lambda a, b: b * a)

    def __truediv__(s, o):
        return s._b(o, lambda a, b: a / b)

    def __rtruediv__(s, o):
        return s._b(o, lambda a, b: b / a)

    def __neg__(s):
        return SymVal(-s.e)

    def _c(s, o, f):
        if isinstance(o, (int, float, SymVal)) and not isinstance(o, bool):
            return SymBool(f(s.e, RV(o)))
        return NotImplemented

    def __lt__(s, o):
        return s._c(o, lambda a, b: a < b)

    def __le__(s, o):
        return s._c(o, lambda a, b: a <= b)

    def __gt__(s, o):
        return s._c(o, lambda a, b: a > b)

    def __ge__(s, o):
        return s._c(o, lambda a, b: a >= b)

    def __eq__(s, o):
        r = s._c(o, lambda a, b: a == b)
        return False if r is NotImplemented else r

    def __ne__(s, o):
        r = s._c(o, lambda a, b: a != b)
        return True if r is NotImplemented else r

    def __hash__(s):
        raise EngineUnsupported("symbolic value is unhashable")

    def __float__(s):
        if _only_for_a_message():
            return 0.0
        raise EngineUnsupported("float() of a symbolic value")

    def __repr__(s):
        return f"SymVal({s.e})"


class SymFloat(float):
    """A float subclass carrying a z3 Real term: passes isinstance(x, (int, float)) checks in the
    real code (Axis.__init__), is only ever *used* by the library models via RV()."""

    def __new__(cls, e):
        o = float.__new__(cls, 0.0)
        o.e = e
        return o

    def _refuse(self, *a, **k):
        raise EngineUnsupported("arithmetic/comparison on SymFloat outside the models")

    __add__ = __radd__ = __sub__ = __rsub__ = __mul__ = __rmul__ = _refuse
    __truediv__ = __rtruediv__ = __lt__ = __le__ = __gt__ = __ge__ = _refuse
    __float__ = __int__ = _refuse

    def __eq__(self, o):
        if isinstance(o, SymFloat):
            return SymBool(self.e == o.e)
        if isinstance(o, (int, float)):
            return SymBool(self.e == RV(o))
        return False

    def __ne__(self, o):
        r = self.__eq__(o)
        return (~r) if isinstance(r, SymBool) else (not r)

    def __bool__(self):
        # `if fill_value:` in Grid.__init__ only controls a warning
        return bool(SymBool(self.e != 0))

    def __hash__(self):
        raise EngineUnsupported("hash of symbolic float")

    def __repr__(self):
        return f"SymFloat({self.e})"


def RVx(x):
    if isinstance(x, SymFloat):
        return x.e
    return RV(x)


# ---------------------------------------------------------------------------------------------
class Report:
    def __init__(self, name):
        self.name = name
        self.paths = 0
        self.queries = 0
        self.solver_time = 0.0
        self.wall = 0.0
        self.obligs = []  # all Oblig of all paths
        self.exits = []  # per path: ('return', info) | ('raise', exc type name, msg)
        self.engine_errors = []

    def merged(self):
        """obligation name -> merged status over paths, with first failing/unknown instance"""
        out = {}
        for ob in self.obligs:
            cur = out.get(ob.name)
            if cur is None:
                out[ob.name] = ob
            else:
                rank = {"proved": 0, "unknown": 1, "failed": 2}
                if rank[ob.status] > rank[cur.status]:
                    out[ob.name] = ob
        return out


def explore(fn, name="", max_paths=20000):
    """Run fn() on every feasible path.  fn() performs its own oblige() calls and returns an
    exit description (any picklable object) or raises.  Exceptions other than engine ones are
    recorded as the path's exit - the harness decides whether they are allowed."""
    global CUR
    rep = Report(name)
    pending = [[]]
    t0 = time.time()
    while pending:
        prefix = pending.pop()
        c = Ctx(prefix)
        CUR = c
        try:
            try:
                ret = fn()
                rep.exits.append(("return", ret, list(c.trace)))
            except InfeasiblePath:
                rep.exits.append(("infeasible", None, list(c.trace)))
            except PathAbort as e:
                rep.exits.append(("abort", str(e), list(c.trace)))
            except EngineUnsupported as e:
                import traceback

                rep.engine_errors.append((str(e), traceback.format_exc(limit=8)))
                rep.exits.append(("engine", str(e), list(c.trace)))
        finally:
            CUR = None
        rep.paths += 1
        rep.queries += c.nq
        rep.solver_time += c.solver_time
        rep.obligs.extend(c.obligs)
        pending.extend(c.pending)
        if rep.paths > max_paths:
            rep.engine_errors.append(("path explosion", f"> {max_paths} paths"))
            break
    rep.wall = time.time() - t0
    return rep


def oblige(name, goal, detail=None):
    return ctx().oblige(name, goal, detail)


def assume(*es):
    ctx().assume(*[bz(e) if isinstance(e, (SymBool, bool)) else e for e in es])


def model_eval(model, term, default=None):
    if model is None:
        return default
    v = model.eval(term, model_completion=True)
    if z3.is_int_value(v):
        return v.as_long()
    if z3.is_rational_value(v):
        return float(v.numerator_as_long()) / float(v.denominator_as_long())
    if z3.is_true(v):
        return True
    if z3.is_false(v):
        return False
    return str(v)


def explore_records(fn, name="", max_paths=20000):
    """like explore(), but fn() returns a record {'order': hashable, 'terms': {name: z3 term}, 'flags': {...}}
    per path; the path condition is attached.  Used for relational obligations across demonic choices."""
    global CUR
    rep = Report(name)
    records = []
    pending = [[]]
    t0 = time.time()
    while pending:
        prefix = pending.pop()
        c = Ctx(prefix)
        CUR = c
        try:
            try:
                rec = fn()
                if rec is not None:
                    rec = dict(rec)
                    rec["pc"] = list(c.solver.assertions())
                    rec["trace"] = list(c.trace)
                    records.append(rec)
                rep.exits.append(("return", None, list(c.trace)))
            except InfeasiblePath:
                rep.exits.append(("infeasible", None, list(c.trace)))
            except PathAbort as e:
                rep.exits.append(("abort", str(e), list(c.trace)))
            except EngineUnsupported as e:
                import traceback

                rep.engine_errors.append((str(e), traceback.format_exc(limit=8)))
        finally:
            CUR = None
        rep.paths += 1
        rep.queries += c.nq
        rep.solver_time += c.solver_time
        rep.obligs.extend(c.obligs)
        pending.extend(c.pending)
        if rep.paths > max_paths:
            rep.engine_errors.append(("path explosion", f"> {max_paths} paths"))
            break
    rep.wall = time.time() - t0
    return rep, records


def compare_records(records, same_group=lambda a, b: a["order"] != b["order"], timeout_ms=60000):
    """relational obligation: any two records (from different demonic orders) whose path conditions can
    hold together agree on every flag and every term.  Returns list of (status, what, rec_a, rec_b, model)"""
    out = []
    n_checked = 0
    for i in range(len(records)):
        for j in range(i + 1, len(records)):
            a, b = records[i], records[j]
            if not same_group(a, b):
                continue
            s = z3.Solver()
            s.set("timeout", timeout_ms)
            s.add(*a["pc"])
            s.add(*b["pc"])
            if s.check() == z3.unsat:
                continue
            n_checked += 1
            for k in set(a.get("flags", {})) | set(b.get("flags", {})):
                if a.get("flags", {}).get(k) != b.get("flags", {}).get(k):
                    out.append(("failed", f"flag:{k}", a, b, s.model() if s.check() == z3.sat else None))
            for k in set(a.get("terms", {})) & set(b.get("terms", {})):
                ta, tb = a["terms"][k], b["terms"][k]
                if ta is None or tb is None:
                    continue
                if z3.simplify(ta).eq(z3.simplify(tb)):
                    continue
                s.push()
                s.add(ta != tb)
                r = s.check()
                if r == z3.sat:
                    out.append(("failed", f"term:{k}", a, b, s.model()))
                elif r != z3.unsat:
                    out.append(("unknown", f"term:{k}", a, b, None))
                s.pop()
    return out, n_checked
