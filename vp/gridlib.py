"""helpers to build symbolic datasets and REAL xgcm.Grid objects (through the real constructor,
with xr bound to the contract model) for harnesses on simple (no face connection) grids."""
from __future__ import annotations

import z3

from . import symx
from .symx import SymInt, mk_int
from .mxr import MArr, MDataset, Coords
from contracts import spec


def dimname(ax, pos):
    return f"{ax.lower()}_{pos[0]}"  # x_c, x_l, x_r, x_i, x_o


def make_layout(axes, dimnames=None):
    """axes: {axname: tuple of positions} -> layout {axname: {pos: dim}}; dimnames optionally overrides
    the dimension name of (axis, position) - key "axis|position" (used by the renaming harness C13)"""
    dimnames = dimnames or {}
    return {ax: {p: dimnames.get(f"{ax}|{p}", dimname(ax, p)) for p in poss} for ax, poss in axes.items()}


def axis_sizes(layout, nmin=2):
    c = symx.ctx()
    ns = {}
    for ax in layout:
        n = z3.Int(f"n_{ax}")
        c.assume(n >= nmin)
        ns[ax] = n
    return ns


def make_ds(layout, ns, extra=None, dim_coords=True, other_coords=None, data_vars=None):
    """dataset with one dimension per (axis, position) + extra dims; optional dimension coordinates
    (content token ('ds', dim)); other_coords: {name: dims}"""
    dims = {}
    for ax, pm in layout.items():
        for pos, d in pm.items():
            dims[d] = mk_int(spec.len_pos(pos, ns[ax]))
    for d, n in (extra or {}).items():
        dims[d] = n
    coords = {}
    if dim_coords:
        for d, n in dims.items():
            if dim_coords is True or d in dim_coords:
                fn = z3.Function(f"coord_{d}", z3.IntSort(), symx.Val)
                coords[d] = MArr((d,), {d: n}, (lambda fn, d: lambda idx: fn(idx[d]))(fn, d), name=d,
                                 attrs={"tokattr": ("ds-attrs", d)}, tok=("ds", d))
    for name, cd in (other_coords or {}).items():
        fn = z3.Function(f"coord_{name}", *([z3.IntSort()] * len(cd)), symx.Val) if cd else None
        if cd:
            el = (lambda fn, cd: lambda idx: fn(*[idx[k] for k in cd]))(fn, cd)
        else:
            v = z3.Real(f"coord_{name}")
            el = (lambda v: lambda idx: v)(v)
        coords[name] = MArr(tuple(cd), {d: dims[d] for d in cd}, el, name=name,
                            attrs={"tokattr": ("ds-attrs", name)}, tok=("ds", name))
    dv = {}
    for name, vd in (data_vars or {}).items():
        fn = z3.Function(f"var_{name}", *([z3.IntSort()] * len(vd)), symx.Val)
        dv[name] = MArr(tuple(vd), {d: dims[d] for d in vd},
                        (lambda fn, vd: lambda idx: fn(*[idx[k] for k in vd]))(fn, vd), name=name, tok=("ds", name))
        dv[name].fn = fn
    return MDataset(dims, coords=coords, data_vars=dv)


def make_grid(ds, layout, **kw):
    from xgcm import Grid

    kw.setdefault("autoparse_metadata", False)
    return Grid(ds, coords={ax: dict(pm) for ax, pm in layout.items()}, **kw)


def data_on(ds, name, dims, with_coords=False, dask=None):
    """fully symbolic data array on the given dataset dims"""
    fn = z3.Function(name, *([z3.IntSort()] * len(dims)), symx.Val)
    coords = Coords()
    if with_coords:
        for k, cv in ds.coords.items():
            if all(d in dims for d in cv.dims):
                coords._d[k] = cv
    arr = MArr(tuple(dims), {d: ds.dims[d] for d in dims},
               (lambda fn, dims: lambda idx: fn(*[idx[d] for d in dims]))(fn, tuple(dims)),
               name=name, coords=coords, dask=dask)
    arr.fn = fn
    return arr
