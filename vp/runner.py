"""Check driver: runs a property harness over its structures on a process pool, aggregates the
obligations, replays counterexamples on the real code, matches known findings, writes evidence.

exit 0  every obligation discharged (known findings are printed as KNOWN-FINDING lines)
exit 1  VIOLATION property=<id> replay=<path> for each failed obligation not listed as known
exit 2  UNDECIDED (solver unknown / engine unsupported / side condition failed)
exit 3  checker broken (vacuity, canary proved, conformance failure, crash)
"""
from __future__ import annotations

import importlib
import json
import multiprocessing as mp
import os
import re
import sys
import time
import traceback

ROOT = os.path.dirname(os.path.dirname(os.path.abspath(__file__)))


class StructureTimeout(BaseException):
    pass


def _worker(args):
    modname, s = args
    import signal
    budget = int(os.environ.get("VERIF_STRUCT_TIMEOUT", "1500"))

    def on_alarm(signum, frame):
        raise StructureTimeout()
    try:
        signal.signal(signal.SIGALRM, on_alarm)
        signal.alarm(budget)
    except (ValueError, OSError):
        pass
    try:
        mod = importlib.import_module(modname)
        t = time.time()
        r = mod.run_structure(s)
        r.setdefault("sid", s.get("sid"))
        r["wall"] = time.time() - t
        return r
    except StructureTimeout:
        # the code under proof (or the engine) did not come back within the budget: termination is not a claim of any
        # contract here - the structure is undecided, the check must not hang
        return {"sid": s.get("sid"), "obligations": [], "paths": 0, "queries": 0, "solver_time": 0.0,
                "engine_errors": [f"structure did not finish within {budget} s (possible non-termination of the code under proof)"]}
    except BaseException as e:  # noqa
        return {"sid": s.get("sid"), "crash": f"{type(e).__name__}: {e}", "tb": traceback.format_exc(limit=12),
                "obligations": [], "paths": 0, "queries": 0, "solver_time": 0.0}
    finally:
        try:
            signal.alarm(0)
        except (ValueError, OSError):
            pass


def load_known(pid):
    p = os.path.join(ROOT, "known_findings.json")
    if not os.path.exists(p):
        return []
    with open(p) as f:
        data = json.load(f)
    return [e for e in data.get("findings", []) if e.get("property") == pid]


def load_baseline(pid):
    p = os.path.join(ROOT, "baseline_obligations.json")
    if not os.path.exists(p):
        return None
    with open(p) as f:
        return json.load(f).get(pid)


def safe(s):
    return re.sub(r"[^A-Za-z0-9_.=+-]+", "_", s)[:180]


def main(pid, tier="quick", seed=0, jobs=None, only=None, write_baseline=False):
    t0 = time.time()
    modname = f"harness.{pid}"
    mod = importlib.import_module(modname)
    side = []
    if hasattr(mod, "side_conditions"):
        side = mod.side_conditions()
    conf_n, conf_bad = 0, []
    if getattr(mod, "USES_LIBRARY_MODELS", True):
        try:
            from . import conformance
            conf_n, conf_bad = conformance.run(seed, n_rounds=1)
        except Exception as e:  # noqa
            conf_bad = [f"conformance harness crashed: {type(e).__name__}: {e}"]
    structs = mod.structures(tier, seed)
    if only:
        structs = [s for s in structs if re.search(only, s["sid"])]
    jobs = jobs or int(os.environ.get("VERIF_JOBS", "0")) or min(16, os.cpu_count() or 4)
    results = []
    if jobs > 1 and len(structs) > 1:
        # ProcessPoolExecutor (not mp.Pool): the death of a worker (OOM kill, solver crash) surfaces as BrokenProcessPool
        # instead of blocking the parent forever
        from concurrent.futures import ProcessPoolExecutor, as_completed
        ctxm = mp.get_context("fork")
        with ProcessPoolExecutor(max_workers=min(jobs, len(structs)), mp_context=ctxm) as ex:
            futs = {ex.submit(_worker, (modname, s)): s for s in structs}
            for f in as_completed(futs):
                try:
                    results.append(f.result())
                except BaseException as e:  # noqa
                    results.append({"sid": futs[f].get("sid"), "crash": f"worker lost: {type(e).__name__}: {e}", "tb": "", "obligations": [], "paths": 0,
                                    "queries": 0, "solver_time": 0.0})
    else:
        for s in structs:
            results.append(_worker((modname, s)))
    results.sort(key=lambda r: str(r.get("sid")))

    obligations = {}
    crashes, engine_errors = [], []
    paths = queries = 0
    solver_time = 0.0
    canary_total = canary_refuted = 0
    canary_bad = []
    covers = {}
    extra_counts = {}
    for r in results:
        if r.get("crash"):
            crashes.append((r["sid"], r["crash"], r.get("tb", "")))
        for e in r.get("engine_errors", []):
            engine_errors.append((r["sid"], e))
        paths += r.get("paths", 0)
        queries += r.get("queries", 0)
        solver_time += r.get("solver_time", 0.0)
        for k, v in r.get("covers", {}).items():
            covers[k] = covers.get(k, 0) + v
        for k, v in r.get("counts", {}).items():
            extra_counts[k] = extra_counts.get(k, 0) + v
        for ob in r.get("obligations", []):
            oid = f"{pid}/{ob['fn']}/{r['sid']}/{ob['clause']}"
            ob = dict(ob, id=oid, sid=r["sid"])
            if ob.get("canary"):
                canary_total += 1
                if ob["status"] == "failed":
                    canary_refuted += 1
                else:
                    canary_bad.append(oid + " -> " + ob["status"])
                continue
            prev = obligations.get(oid)
            rank = {"proved": 0, "unknown": 1, "failed": 2}
            if prev is None or rank[ob["status"]] > rank[prev["status"]]:
                obligations[oid] = ob

    n_ob = len(obligations)
    proved = [o for o in obligations.values() if o["status"] == "proved"]
    failed = [o for o in obligations.values() if o["status"] == "failed"]
    unknown = [o for o in obligations.values() if o["status"] == "unknown"]

    known = load_known(pid)
    known_hits, violations = [], []
    for ob in sorted(failed, key=lambda o: o["id"]):
        hit = None
        for k in known:
            if k.get("status") == "known" and re.search(k["obligation_pattern"], ob["id"]) and \
                    (not k.get("detail_pattern") or re.search(k["detail_pattern"], str(ob.get("detail") or ""))):
                hit = k
                break
        if hit is not None:
            known_hits.append((hit, ob))
        else:
            violations.append(ob)

    lines = []
    exit_code = 0
    # replays for violations
    rdir = os.path.join(ROOT, "replays", pid)
    viol_records = []
    if violations:
        os.makedirs(rdir, exist_ok=True)
    baseline = load_baseline(pid) or {}
    base_ids = set(baseline.get(tier, []) or []) | set(baseline.get("quick", []) or []) | set(baseline.get("thorough", []) or [])
    seen_groups = set()
    for ob in violations:
        grp = ob.get("group") or ob["id"]
        path = os.path.join(rdir, safe(ob["id"]) + ".py")
        rep = {"confirmed": False, "text": "no replay available"}
        try:
            if hasattr(mod, "replay"):
                rep = mod.replay(ob)
        except Exception as e:  # noqa
            rep = {"confirmed": False, "text": f"replay crashed: {type(e).__name__}: {e}\n{traceback.format_exc(limit=6)}"}
        with open(path, "w") as f:
            f.write(rep.get("script") or _default_script(pid, ob, rep))
        if rep.get("confirmed"):
            lines.append(f"VIOLATION property={pid} replay={path}")
            kind = "confirmed"
        elif rep.get("spurious"):
            # the model does not replay and the harness says the abstraction is responsible
            unknown.append(ob)
            kind = "spurious"
            continue
        elif ob["id"] in base_ids or not base_ids:
            lines.append(f"VIOLATION property={pid} replay={path} no-failing-input-found")
            kind = "baseline-obligation-failed"
        elif any(("/" + ob["sid"] + "/") in b and b not in obligations for b in base_ids):
            # the failing obligation itself is new (e.g. `returns-normally`, only emitted when the call raises), but it
            # displaced obligations of the same structure that were discharged on the unchanged tree
            lines.append(f"VIOLATION property={pid} replay={path} no-failing-input-found")
            kind = "baseline-obligations-displaced"
        else:
            unknown.append(ob)
            kind = "new-obligation-undecided"
            continue
        viol_records.append({"id": ob["id"], "witness": ob.get("witness"), "kind": kind,
                             "replay": path, "replay_text": rep.get("text", "")[:2000]})
    if viol_records:
        exit_code = 1

    for hit, ob in known_hits:
        key = hit.get("id", hit["obligation_pattern"])
        if key in seen_groups:
            continue
        seen_groups.add(key)
        lines.append(f"KNOWN-FINDING: property={pid} {hit['what_fails']}")

    # vacuity / self-validation
    broken = []
    if n_ob == 0:
        broken.append("zero obligations generated")
    if crashes:
        broken.append(f"{len(crashes)} structure(s) crashed: " + "; ".join(f"{s}: {c}" for s, c, _ in crashes[:3]))
    if canary_bad:
        broken.append("canary not refuted: " + "; ".join(canary_bad[:3]))
    if conf_bad:
        broken.append("library model does not conform to the real library: " + "; ".join(conf_bad[:3]))
    need_cov = getattr(mod, "REQUIRED_COVERS", [])
    for cv in need_cov:
        if covers.get(cv, 0) == 0:
            broken.append(f"cover never reached: {cv}")
    if base_ids and exit_code == 0 and not only:
        stat = [i for i in baseline.get(tier, []) if "/lib-pre/" not in i and "/rnd:" not in i]
        missing = [i for i in stat if i not in obligations]
        if missing and engine_errors:
            # paths abandoned at a limit of the engine / library models never reach their obligations: undecided, not broken
            lines.append(f"UNDECIDED {len(missing)} baseline obligation(s) not reached because of engine limits, e.g. {missing[0]}")
        elif missing:
            # an obligation that existed on the baseline tree was not generated at all
            broken.append(f"{len(missing)} baseline obligation(s) not generated, e.g. {missing[0]}")
    if broken and exit_code == 0:
        exit_code = 3
    side_failed = [sc for sc in side if not sc[1]]
    if exit_code == 0 and (unknown or engine_errors or side_failed):
        exit_code = 2

    wall = time.time() - t0
    meta = getattr(mod, "META", {})
    samples = []
    for o in list(obligations.values())[:: max(1, n_ob // 6 or 1)][:6]:
        samples.append({"obligation": o["id"], "status": o["status"], "solver_s": round(o.get("time", 0.0), 4)})
    ev = {
        "property_id": pid,
        "tier": tier,
        "seed": int(seed),
        "level": meta.get("level", "proof"),
        "coverage": {
            "obligations": n_ob - len(known_hits),
            "discharged": len(proved),
            "obligations_failing_as_listed_known_findings": len(known_hits),
            "checker_cmd": f"./check {pid} --tier {tier}",
            "trusted_base": meta.get("trusted_base", []),
            "functions_under_contract": meta.get("functions_under_contract", []),
            "structures": len(structs),
            "paths": paths,
            "solver_queries": queries,
            "solver_time_s": round(solver_time, 3),
            "backends": meta.get("backends", ["z3 5.1 (python API, incremental)"]),
            "failed": [o["id"] for o in failed][:50],
            "unknown": [o["id"] for o in unknown][:50],
            "known_findings_matched": [h.get("id", h["obligation_pattern"]) for h, _ in known_hits][:50],
            "conformance_samples": conf_n,
            "canaries_total": canary_total,
            "canaries_refuted": canary_refuted,
            "covers": covers,
            "bounded_standins": meta.get("bounded_standins", []),
            "lemmas": meta.get("lemmas", []),
            "engine_errors": [f"{s}: {e[0] if isinstance(e, (list, tuple)) else e}" for s, e in engine_errors][:20],
            "checker_broken": broken,
            "side_conditions": [{"name": sc[0], "holds": bool(sc[1]), "problems": sc[2], "info": sc[3]} for sc in side],
            "samples": samples,
            "explanation": meta.get("explanation", ""),
            "exhaustive": bool(meta.get("exhaustive", False)),
            **extra_counts,
        },
        "assumptions": meta.get("assumptions", []),
        "wall_s": round(wall, 2),
        "violations": len(viol_records),
    }
    if hasattr(mod, "finish_evidence"):
        mod.finish_evidence(ev, results)
    # tools that run the checks against a deliberately changed /repo (tools/mut.sh, seed_eval.sh, refactor_eval.sh) redirect
    # the evidence so that the committed files always describe the unchanged tree
    evdir = os.environ.get("VERIF_EVIDENCE_DIR") or os.path.join(ROOT, "evidence")
    os.makedirs(evdir, exist_ok=True)
    with open(os.path.join(evdir, f"{pid}.json"), "w") as f:
        json.dump(ev, f, indent=1, default=str)
    if viol_records:
        with open(os.path.join(rdir, "violations.json"), "w") as f:
            json.dump(viol_records, f, indent=1, default=str)

    if write_baseline and exit_code == 0:
        p = os.path.join(ROOT, "baseline_obligations.json")
        data = {}
        if os.path.exists(p):
            with open(p) as f:
                data = json.load(f)
        data.setdefault(pid, {})[tier] = sorted(o for o, r in obligations.items() if r["status"] == "proved" and "/lib-pre/" not in o and "/rnd:" not in o)
        with open(p, "w") as f:
            json.dump(data, f, indent=0, sort_keys=True)

    for ln in lines:
        print(ln)
    print(f"[{pid} {tier}] structures={len(structs)} paths={paths} obligations={n_ob} discharged={len(proved)} "
          f"failed={len(failed)} (known={len(known_hits)}) unknown={len(unknown)} canaries={canary_refuted}/{canary_total} "
          f"solver={solver_time:.1f}s wall={wall:.1f}s exit={exit_code}")
    if os.environ.get("VERIF_DEBUG"):
        for r in sorted(results, key=lambda r: -r.get("wall", 0))[:12]:
            print("SLOW %.1fs paths=%d %s" % (r.get("wall", 0), r.get("paths", 0), r.get("sid")))
    if exit_code in (2, 3):
        for o in unknown[:10]:
            print("UNDECIDED", o["id"], o.get("detail", ""))
        for sc in side_failed:
            print("UNDECIDED side-condition", sc[0], sc[2][:3])
        for s, e in engine_errors[:10]:
            print("ENGINE", s, e[0] if isinstance(e, (list, tuple)) else e)
            if isinstance(e, (list, tuple)) and len(e) > 1 and os.environ.get("VERIF_DEBUG"):
                print(e[1])
        for b in broken:
            print("CHECKER-BROKEN", b)
        for s, c, tb in crashes[:5]:
            print("CRASH", s, c)
            print(tb)
    if exit_code == 1 and os.environ.get("VERIF_DEBUG"):
        for v in viol_records[:10]:
            print(json.dumps(v, indent=1, default=str)[:1500])
    return exit_code


def _default_script(pid, ob, rep):
    return (
        f'"""replay for failed obligation {ob["id"]}\n\nwitness: {json.dumps(ob.get("witness"), default=str)}\n\n'
        f'{rep.get("text", "")}\n"""\n'
        "import json, subprocess, sys\n"
        f"OB = {json.dumps(ob, default=str)!r}\n"
        f"sys.exit(subprocess.call(['/verif/check', {pid!r}, '--replay', __file__]))\n"
    )


if __name__ == "__main__":
    import argparse

    ap = argparse.ArgumentParser()
    ap.add_argument("pid")
    ap.add_argument("--tier", default=os.environ.get("VERIF_TIER", "quick"))
    ap.add_argument("--seed", type=int, default=int(os.environ.get("VERIF_SEED", "0")))
    ap.add_argument("--jobs", type=int, default=None)
    ap.add_argument("--only", default=None)
    ap.add_argument("--write-baseline", action="store_true")
    ap.add_argument("--replay", default=None)
    a = ap.parse_args()
    if a.replay:
        mod = importlib.import_module(f"harness.{a.pid}")
        src = open(a.replay).read()
        m = re.search(r"^OB = (.*)$", src, re.M)
        ob = json.loads(eval(m.group(1)))
        rep = mod.replay(ob)
        print(rep.get("text", ""))
        sys.exit(1 if rep.get("confirmed") else 0)
    sys.exit(main(a.pid, a.tier, a.seed, a.jobs, a.only, a.write_baseline))
