"""Assumed contracts of the libraries, as executable specification models.

MArr     models xarray.DataArray   (ordered dims, symbolic sizes, element function, coords)
MDataset models xarray.Dataset
NArr     models the plain array a ufunc receives from xarray.apply_ufunc
XR / NP  module-level stand-ins bound to the names `xr` / `np` in the xgcm module under
         verification for the duration of a harness.

Each model method carries the *precondition* of the library operation; it is emitted as an
obligation of the calling xgcm code (`lib-pre/...`).  These models are the trusted base of the
proofs (validated against the real libraries by vp/conformance.py, not proved).
"""
from __future__ import annotations

import itertools
from collections import OrderedDict

import z3

from . import symx
from .symx import EngineUnsupported, SymBool, SymInt, mk_int, oblige, zint, RVx

_uid = itertools.count()


def _sz(x):
    return zint(x)


def size_eq(a, b):
    if isinstance(a, int) and isinstance(b, int):
        return a == b
    return SymBool(_sz(a) == _sz(b))


def norm_slice(sl, n):
    """Python slice semantics (slice.indices) on a dimension of (symbolic) length n, for step 1 and step -1.
    returns ('rev', n) for the full reversal [::-1]; ('neg', start, size) for other step -1 slices (element k of the
    result is element start - k of the source); otherwise (start, size) for step 1, all as z3 terms."""
    nz = _sz(n)
    step = sl.step
    if step is None or (isinstance(step, int) and step == 1):
        def clamp(v, dflt):
            if v is None:
                return dflt
            v = _sz(v)
            return z3.If(v < 0, z3.If(v + nz < 0, z3.IntVal(0), v + nz), z3.If(v > nz, nz, v))

        a = clamp(sl.start, z3.IntVal(0))
        b = clamp(sl.stop, nz)
        return (z3.simplify(a), z3.simplify(z3.If(b - a < 0, 0, b - a)))
    if isinstance(step, int) and step == -1:
        if sl.start is None and sl.stop is None:
            return ("rev", nz)

        def clampn(v, dflt):
            if v is None:
                return dflt
            v = _sz(v)
            return z3.If(v < 0, z3.If(v + nz < 0, z3.IntVal(-1), v + nz), z3.If(v >= nz, nz - 1, v))

        a = clampn(sl.start, nz - 1)
        b = clampn(sl.stop, z3.IntVal(-1))
        return ("neg", z3.simplify(a), z3.simplify(z3.If(a - b < 0, 0, a - b)))
    raise EngineUnsupported(f"slice step {step!r} not modelled")


class DimLen:
    """what `da[dim]` returns when only its length is needed"""

    def __init__(self, arr, n):
        self._arr = arr
        self.n = n

    def __len__(self):
        if isinstance(self.n, int):
            return self.n
        raise EngineUnsupported("builtin len() of a symbolic dimension (module `len` not rebound)")


def symlen(x):
    """replacement for builtin len in module namespaces: may return a SymInt"""
    if isinstance(x, MArr) and x.ndim >= 1:
        return x.sizes[x.dims[0]]
    if isinstance(x, DimLen):
        return x.n
    if hasattr(x, "__symlen__"):
        return x.__symlen__()
    return len(x)



_OPTIONAL_ATTRS = {"sum_of", "stacked", "log", "weighted_parts", "tok", "origin", "prefix_of", "log_of", "built_from", "root"}


def _missing_attribute(owner, name):
    """A name the assumed library contract does not model.  Dunder/private names and the models' own optional
    attributes keep Python's protocol (AttributeError); anything else is a limit of the MODEL, not a property of the
    code under proof: the path is abandoned as undecided (EngineUnsupported), never reported as a failed obligation."""
    if name.startswith("_") or name in _OPTIONAL_ATTRS:
        raise AttributeError(f"{owner} has no attribute {name!r}")
    raise symx.EngineUnsupported(f"the library model {owner} does not cover `{name}`")


_RAISE_LINES = {}


def _raise_lines(filename):
    """line numbers covered by `raise` statements of a model source file (deliberate, xarray-mimicking errors)"""
    if filename not in _RAISE_LINES:
        import ast
        s = set()
        try:
            with open(filename) as f:
                tree = ast.parse(f.read())
            for n in ast.walk(tree):
                if isinstance(n, ast.Raise):
                    s.update(range(n.lineno, (n.end_lineno or n.lineno) + 1))
        except (OSError, SyntaxError):
            pass
        _RAISE_LINES[filename] = s
    return _RAISE_LINES[filename]


def _incidental_model_error(e):
    """True iff `e` was NOT raised by a `raise` statement but happened incidentally inside the library models (an input
    they were not written for): a limit of the model, to be reported as undecided, never as behaviour of the code under proof"""
    tb = e.__traceback__
    last = None
    while tb is not None:
        last = tb
        tb = tb.tb_next
    if last is None:
        return False
    fn = last.tb_frame.f_code.co_filename
    if not (fn.endswith("/vp/mxr.py") or fn.endswith("/vp/kern.py")):
        return False
    return last.tb_lineno not in _raise_lines(fn)


def _guard(fn):
    import functools

    @functools.wraps(fn)
    def wrapper(*a, **k):
        try:
            return fn(*a, **k)
        except (symx.EngineUnsupported, symx.InfeasiblePath, symx.PathAbort):
            raise
        except Exception as e:  # noqa
            if _incidental_model_error(e):
                raise symx.EngineUnsupported(f"the library model failed inside {fn.__qualname__}: {type(e).__name__}: {e}") from e
            raise
    wrapper.__guarded__ = True
    return wrapper


def guard_model_class(cls):
    """wrap every public method / static function of a model class with _guard"""
    for name, obj in list(vars(cls).items()):
        if name.startswith("__") and name not in ("__getitem__", "__add__", "__radd__", "__sub__", "__rsub__", "__mul__", "__rmul__", "__truediv__", "__rtruediv__", "__neg__"):
            continue
        if name in ("__getattr__",):
            continue
        if isinstance(obj, staticmethod):
            setattr(cls, name, staticmethod(_guard(obj.__func__)))
        elif isinstance(obj, classmethod) or isinstance(obj, property) or isinstance(obj, type):
            continue
        elif callable(obj) and not getattr(obj, "__guarded__", False):
            setattr(cls, name, _guard(obj))
    return cls


class _ModelNamespace(type):
    def __getattr__(cls, name):
        _missing_attribute(cls.__name__, name)


class _ModelObject:
    def __getattr__(self, name):
        _missing_attribute(type(self).__name__, name)


class Coords:
    """dict-like view of the coordinates of an MArr"""

    def __init__(self, d=None):
        self._d = OrderedDict(d or {})

    def __contains__(self, k):
        return k in self._d

    def __iter__(self):
        return iter(list(self._d))

    def __len__(self):
        return len(self._d)

    def __getitem__(self, k):
        return self._d[k]

    def keys(self):
        return self._d.keys()

    def items(self):
        return self._d.items()

    def values(self):
        return self._d.values()

    def copy(self):
        return Coords(self._d)


class _VariableView(_ModelObject):
    """`da.variable`: the array's dims / values / attrs without its coordinates"""

    def __init__(self, arr):
        self._arr = arr

    @property
    def dims(self):
        return self._arr.dims

    @property
    def attrs(self):
        return self._arr.attrs

    @property
    def chunksizes(self):
        a = self._arr
        if a.dask is None:
            return {}
        return {d: a.dask[d] for d in a.dims}


class DaskToken:
    """stands for `da.data` of a dask-backed array: any attempt to look at values is an eager
    evaluation trap (C06)."""

    def __init__(self, arr):
        self._arr = arr

    def _trap(self, *a, **k):
        symx.ctx().ghost.setdefault("eager", []).append("dask data inspected")
        raise EagerEvaluation("dask-backed data was evaluated eagerly")

    __array__ = __float__ = __int__ = __bool__ = __len__ = __iter__ = _trap
    compute = _trap


class NumpyToken:
    def __init__(self, arr):
        self._arr = arr


class RangeValues:
    """values of a default integer index 0..n-1 (n possibly symbolic): supports `x in values`"""

    def __init__(self, n):
        self.n = n

    def __contains__(self, x):
        if isinstance(x, bool) or not isinstance(x, (int, SymInt)):
            return False
        if isinstance(x, int) and isinstance(self.n, int):
            return 0 <= x < self.n
        return bool(SymBool(z3.And(_sz(x) >= 0, _sz(x) < _sz(self.n))))

    def __iter__(self):
        if isinstance(self.n, int):
            return iter(range(self.n))
        raise EngineUnsupported("iteration over a symbolic index")


class EagerEvaluation(Exception):
    pass


class MArr(_ModelObject):
    def __init__(self, dims, sizes, elem, name=None, coords=None, attrs=None, tok=None,
                 dask=None, dtype="float64"):
        self.dims = tuple(dims)
        self.sizes = {d: sizes[d] for d in self.dims}
        self._elem = elem
        self._name = name
        self.coords = coords if isinstance(coords, Coords) else Coords(coords)
        self._attrs = dict(attrs or {})
        self.tok = tok if tok is not None else ("anon", next(_uid))
        self.dask = dask  # None (in memory) or {dim: tuple of chunk sizes}
        self.dtype = dtype
        self.log = []  # mutation log (C18)

    # ---- basic attributes ---------------------------------------------------------------
    @property
    def ndim(self):
        return len(self.dims)

    @property
    def name(self):
        return self._name

    @name.setter
    def name(self, v):
        self.log.append(("set name", v))
        self._name = v

    @property
    def attrs(self):
        return self._attrs

    @attrs.setter
    def attrs(self, v):
        self.log.append(("set attrs", v))
        self._attrs = v

    @property
    def shape(self):
        return tuple(self.sizes[d] for d in self.dims)

    @property
    def variable(self):
        return _VariableView(self)

    @property
    def chunks(self):
        if self.dask is None:
            return None
        return tuple(self.dask[d] for d in self.dims)

    @property
    def chunksizes(self):
        return _VariableView(self).chunksizes

    @property
    def data(self):
        if self.dask is not None:
            return DaskToken(self)
        a = self
        dims = self.dims
        v = NArr(tuple(self.sizes[d] for d in dims), lambda p: a._elem({d: p[k] for k, d in enumerate(dims)}),
                 labels=list(dims))
        v.origin = self  # a VIEW of this array's buffer: in-place arithmetic on it writes into this array
        return v

    @property
    def values(self):
        if self.dask is not None:
            DaskToken(self)._trap()
        if self.ndim == 1 and isinstance(self.tok, tuple) and self.tok and self.tok[0] == "range":
            return RangeValues(self.sizes[self.dims[0]])
        return self.data

    def compute(self, **kw):
        DaskToken(self)._trap()

    load = compute

    def elem(self, idx):
        return self._elem(idx)

    def _new(self, dims, sizes, elem, **kw):
        view_of = kw.pop("view_of", None)
        kw.setdefault("name", self._name)
        kw.setdefault("coords", self.coords.copy())
        kw.setdefault("attrs", self._attrs)
        kw.setdefault("dask", self.dask)
        kw.setdefault("dtype", self.dtype)
        out = MArr(dims, sizes, elem, **kw)
        if view_of is not None:
            # shares the data buffer of `view_of` (shallow copy, slicing, renaming, ...): in-place arithmetic on it writes into the root
            r0 = getattr(view_of, "root", None)
            out.root = view_of if r0 is None else r0
        return out

    def _buffer_owner_log(self, what):
        """record a write into this array's data buffer on the array itself and on the array whose buffer it shares"""
        self.log.append((what, None))
        root = getattr(self, "root", None)
        if root is not None and root is not self:
            root.log.append((what + " (through a view)", None))

    def __getitem__(self, k):
        if isinstance(k, str):
            if k in self.coords:
                return self.coords[k]
            if k in self.dims:
                # default range index
                n = self.sizes[k]
                return MArr((k,), {k: n}, lambda idx, k=k: z3.ToReal(idx[k]), name=k,
                            tok=("range", k))
            raise KeyError(k)
        if isinstance(k, dict):
            # xarray: da[{dim: indexer}] is positional indexing by dimension name (= isel)
            return self.isel(k)
        raise EngineUnsupported(f"MArr.__getitem__({k!r})")

    def __setitem__(self, k, v):
        self.log.append(("setitem", k))

    def __len__(self):
        n = self.sizes[self.dims[0]]
        if isinstance(n, int):
            return n
        raise EngineUnsupported("builtin len() of symbolic array")

    def __symlen__(self):
        return self.sizes[self.dims[0]]

    def get_axis_num(self, dim):
        return self.dims.index(dim)

    def __repr__(self):
        return f"<MArr {self._name} {self.dims}>"

    def __bool__(self):
        raise EngineUnsupported("truth value of an array")

    # ---- copying / coords -----------------------------------------------------------------
    def copy(self, deep=True, data=None):
        return self._new(self.dims, self.sizes, self._elem, tok=self.tok, view_of=None if (deep and data is None) else self)

    def reset_coords(self, names=None, drop=False):
        if not drop:
            raise EngineUnsupported("reset_coords(drop=False)")
        keep = Coords({k: v for k, v in self.coords.items() if k in self.dims})
        return self._new(self.dims, self.sizes, self._elem, coords=keep, tok=self.tok, view_of=self)

    def reset_index(self, dims_or_levels, drop=False):
        if not drop:
            raise EngineUnsupported("reset_index(drop=False)")
        names = [dims_or_levels] if isinstance(dims_or_levels, str) else list(dims_or_levels)
        for n in names:
            if n not in self.coords:
                raise ValueError(f"{n} is not an index")
        keep = Coords({k: v for k, v in self.coords.items() if k not in names})
        return self._new(self.dims, self.sizes, self._elem, coords=keep, tok=self.tok, view_of=self)

    def drop_vars(self, names, errors="raise"):
        if isinstance(names, str):
            names = [names]
        names = list(names)
        for n in names:
            if n not in self.coords and errors == "raise":
                raise ValueError(f"cannot drop {n}: not a coordinate")
        keep = Coords({k: v for k, v in self.coords.items() if k not in names})
        return self._new(self.dims, self.sizes, self._elem, coords=keep, tok=self.tok, view_of=self)

    def assign_coords(self, coords=None, **kw):
        new = dict(coords or {})
        new.update(kw)
        out = self.coords.copy()
        for k, v in new.items():
            if isinstance(v, _VariableView):
                # a bare Variable: same dims, values, attributes (content token) as the array it was taken from
                v = v._arr
            if isinstance(v, MArr):
                for d in v.dims:
                    if d in self.sizes:
                        if not size_eq(v.sizes[d], self.sizes[d]):
                            raise ValueError(
                                f"conflicting sizes for dimension {d!r}: length on the data but "
                                f"length on coordinate {k!r}")
                    else:
                        raise ValueError(f"coordinate {k} has dimension {d} not on the array")
                c = MArr(v.dims, v.sizes, v._elem, name=k, attrs=v._attrs, tok=v.tok, coords=None)
                out._d[k] = c
            elif isinstance(v, NArr) and v.ndim == 1:
                if k in self.sizes and not size_eq(v.shape[0], self.sizes[k]):
                    raise ValueError(f"conflicting sizes for dimension {k!r}")
                out._d[k] = MArr((k,), {k: v.shape[0]}, (lambda v, k: lambda idx: v._elem((idx[k],)))(v, k), name=k,
                                 tok=("from-array", next(_uid)))
            elif isinstance(v, tuple) and v and v[0] in ("full_like", "np.array") and k in self.sizes:
                # raw values (np.full_like(..., nan) in padding): dimension coordinate named k
                out._d[k] = MArr((k,), {k: self.sizes[k]}, lambda idx: z3.RealVal(0), name=k,
                                 tok=("raw", next(_uid)))
            else:
                raise EngineUnsupported(f"assign_coords with a value of type {type(v).__name__} for {k!r}")
        return self._new(self.dims, self.sizes, self._elem, coords=out, tok=self.tok, view_of=self)

    # ---- indexing -------------------------------------------------------------------------
    def isel(self, indexers=None, drop=False, **kw):
        ind = dict(indexers or {})
        ind.update(kw)
        out = self
        for d, ix in ind.items():
            if d not in out.dims:
                raise ValueError(f"Dimensions {{{d!r}}} do not exist. Expected one or more of {out.dims}")
            out = out._isel1(d, ix)
        return out

    def _isel1(self, d, ix):
        old = self
        n = old.sizes[d]
        if isinstance(ix, slice):
            r = norm_slice(ix, n)
            if isinstance(r[0], str) and r[0] == "neg":
                _, a0, sz0 = r
                f = lambda idx: old._elem({**idx, d: a0 - idx[d]})
                newsize = mk_int(sz0)
                tag = ("negslice", next(_uid))
            elif isinstance(r[0], str):
                nz = r[1]
                f = lambda idx: old._elem({**idx, d: nz - 1 - idx[d]})
                newsize = n
                tag = ("rev",)
            else:
                a, sz = r
                f = lambda idx: old._elem({**idx, d: idx[d] + a})
                newsize = mk_int(sz)
                tag = ("slice", next(_uid))
            sizes = {**old.sizes, d: newsize}
            coords = Coords()
            for k, c in old.coords.items():
                if d in c.dims:
                    coords._d[k] = MArr(c.dims, {**c.sizes, d: newsize}, c._elem, name=k,
                                        attrs=c._attrs, tok=("isel", c.tok, d) + tag)
                else:
                    coords._d[k] = c
            dask = None
            if old.dask is not None:
                dask = {**old.dask, d: ("?",)}
            return old._new(old.dims, sizes, f, coords=coords, dask=dask)
        else:
            i = _sz(ix)
            oblige(f"lib-pre/isel-index-in-range:{d}", z3.And(i >= -_sz(n), i < _sz(n)))
            ii = z3.If(i < 0, i + _sz(n), i)
            f = lambda idx: old._elem({**idx, d: ii})
            dims = [x for x in old.dims if x != d]
            sizes = {k: v for k, v in old.sizes.items() if k != d}
            coords = Coords()
            for k, c in old.coords.items():
                if d in c.dims:
                    cd = tuple(x for x in c.dims if x != d)
                    coords._d[k] = MArr(cd, {x: c.sizes[x] for x in cd}, c._elem, name=k,
                                        attrs=c._attrs, tok=("isel", c.tok, d, next(_uid)))
                else:
                    coords._d[k] = c
            dask = None
            if old.dask is not None:
                dask = {k: v for k, v in old.dask.items() if k != d}
            return old._new(dims, sizes, f, coords=coords, dask=dask)

    def rename(self, new_name_or_name_dict=None, **kw):
        m = {}
        if isinstance(new_name_or_name_dict, dict):
            m.update(new_name_or_name_dict)
        elif new_name_or_name_dict is not None or not kw:
            # xarray: rename(None) with no keyword sets the NAME to None
            return self._new(self.dims, self.sizes, self._elem, name=new_name_or_name_dict, tok=self.tok, view_of=self)
        m.update(kw)
        for a, b in m.items():
            if a not in self.dims and a not in self.coords:
                raise ValueError(f"cannot rename {a!r} because it is not a variable or dimension in this dataset")
        newdims = [m.get(d, d) for d in self.dims]
        if len(set(newdims)) != len(newdims):
            # xarray ACCEPTS this (duplicate dimension names, with a warning); arrays with duplicate dimension names are outside
            # this model - an engine limit, not an exception of the library
            raise EngineUnsupported(f"rename would produce duplicate dimension names {newdims} (accepted by xarray, not representable here)")
        inv = {m.get(d, d): d for d in self.dims}
        old = self
        f = lambda idx: old._elem({inv[k]: v for k, v in idx.items()})
        coords = Coords()
        for k, c in self.coords.items():
            cd = tuple(m.get(x, x) for x in c.dims)
            cinv = {m.get(x, x): x for x in c.dims}
            coords._d[m.get(k, k)] = MArr(
                cd, {m.get(x, x): c.sizes[x] for x in c.dims},
                (lambda c, cinv: lambda idx: c._elem({cinv[kk]: v for kk, v in idx.items()}))(c, cinv),
                name=m.get(k, k), attrs=c._attrs, tok=c.tok if not any(x in m for x in c.dims) and k not in m else ("rename", c.tok))
        dask = None if self.dask is None else {m.get(d, d): v for d, v in self.dask.items()}
        return self._new(newdims, {m.get(d, d): s for d, s in self.sizes.items()}, f,
                         coords=coords, dask=dask, view_of=self)

    def squeeze(self, dim=None, drop=False):
        if dim is not None:
            raise EngineUnsupported("squeeze(dim=...)")
        keep, dropd = [], []
        for d in self.dims:
            s = self.sizes[d]
            is1 = (s == 1) if isinstance(s, int) else bool(SymBool(_sz(s) == 1))
            (dropd if is1 else keep).append(d)
        old = self
        f = lambda idx: old._elem({**idx, **{d: z3.IntVal(0) for d in dropd}})
        coords = Coords({k: c for k, c in self.coords.items() if not any(d in c.dims for d in dropd)})
        dask = None if self.dask is None else {d: v for d, v in self.dask.items() if d in keep}
        return self._new(keep, {d: self.sizes[d] for d in keep}, f, coords=coords, dask=dask, view_of=self)

    def expand_dims(self, dim=None, axis=None):
        dims = [dim] if isinstance(dim, str) else list(dim)
        for d in dims:
            if d in self.dims:
                raise ValueError(f"Dimension {d} already exists.")
        old = self
        f = lambda idx: old._elem({k: v for k, v in idx.items() if k not in dims})
        nd = tuple(dims) + self.dims
        dask = None if self.dask is None else {**{d: (1,) for d in dims}, **self.dask}
        return self._new(nd, {**{d: 1 for d in dims}, **self.sizes}, f, dask=dask, view_of=self)

    def transpose(self, *dims, **kw):
        dims = list(dims)
        if Ellipsis in dims:
            k = dims.index(Ellipsis)
            named = [d for d in dims if d is not Ellipsis]
            rest = [d for d in self.dims if d not in named]
            dims = dims[:k] + rest + dims[k + 1:]
        if not dims:
            dims = list(reversed(self.dims))
        if sorted(map(str, dims)) != sorted(map(str, self.dims)) or len(dims) != len(self.dims):
            raise ValueError(f"{tuple(dims)} must be a permuted list of {self.dims}, unless `...` is included")
        return self._new(dims, self.sizes, self._elem, tok=self.tok, view_of=self)

    # ---- padding ---------------------------------------------------------------------------
    def pad(self, pad_width=None, mode="constant", constant_values=None, **kw):
        if kw:
            raise EngineUnsupported(f"pad kwargs {kw}")
        out = self
        for d, w in dict(pad_width).items():
            if d not in out.dims:
                raise ValueError(f"pad: dimension {d} not in {out.dims}")
            lo, hi = w
            old = out
            n = _sz(old.sizes[d])
            lo_, hi_ = _sz(lo), _sz(hi)
            oblige(f"lib-pre/pad-width-nonneg:{d}", z3.And(lo_ >= 0, hi_ >= 0))
            if mode == "constant":
                cv = z3.RealVal(0) if constant_values is None else RVx(constant_values)

                def f(idx, old=old, d=d, n=n, lo_=lo_, cv=cv):
                    j = idx[d] - lo_
                    return z3.If(z3.And(j >= 0, j < n), old._elem({**idx, d: j}), cv)
            elif mode == "edge":
                oblige(f"lib-pre/pad-edge-nonempty:{d}", z3.Or(n >= 1, z3.And(lo_ == 0, hi_ == 0)))

                def f(idx, old=old, d=d, n=n, lo_=lo_):
                    j = idx[d] - lo_
                    return old._elem({**idx, d: z3.If(j < 0, 0, z3.If(j >= n, n - 1, j))})
            elif mode == "wrap":
                oblige(f"lib-pre/pad-wrap-nonempty:{d}", z3.Or(n >= 1, z3.And(lo_ == 0, hi_ == 0)))

                def f(idx, old=old, d=d, n=n, lo_=lo_):
                    j = idx[d] - lo_
                    return old._elem({**idx, d: j % n})
            else:
                raise ValueError(f"unknown pad mode {mode!r}")
            coords = Coords()
            for k, c in old.coords.items():
                if d in c.dims:
                    coords._d[k] = MArr(c.dims, {**c.sizes, d: mk_int(n + lo_ + hi_)}, c._elem,
                                        name=k, attrs=c._attrs, tok=("pad", c.tok, d))
                else:
                    coords._d[k] = c
            dask = None
            if old.dask is not None:
                ch = old.dask[d]
                dask = {**old.dask, d: (("pad-lo", lo),) + tuple(ch) + (("pad-hi", hi),)}
            out = old._new(old.dims, {**old.sizes, d: mk_int(n + lo_ + hi_)}, f, coords=coords, dask=dask)
        return out

    def chunk(self, chunks=None, **kw):
        ch = dict(chunks or {})
        ch.update(kw)
        dask = dict(self.dask) if self.dask is not None else {d: (self.sizes[d],) for d in self.dims}
        for d, c in ch.items():
            if d not in self.dims:
                raise ValueError(f"chunk: {d} not a dimension")
            if isinstance(c, int) and c == -1:
                dask[d] = (self.sizes[d],)
            elif isinstance(c, tuple):
                tot = z3.IntVal(0)
                for x in c:
                    tot = tot + _sz(x)
                oblige(f"lib-pre/chunks-sum-to-length:{d}", tot == _sz(self.sizes[d]))
                dask[d] = tuple(c)
            else:
                raise EngineUnsupported(f"chunk spec {c!r}")
        return self._new(self.dims, self.sizes, self._elem, dask=dask, tok=self.tok, view_of=self)

    # ---- arithmetic -------------------------------------------------------------------------
    def _binop(self, other, op, reflected=False):
        if isinstance(other, (int, float)) and not isinstance(other, bool):
            c = RVx(other)
            a = self
            f = (lambda idx: op(c, a._elem(idx))) if reflected else (lambda idx: op(a._elem(idx), c))
            return self._new(self.dims, self.sizes, f, name=self._name)
        if isinstance(other, symx.SymVal):
            c = other.e
            a = self
            f = (lambda idx: op(c, a._elem(idx))) if reflected else (lambda idx: op(a._elem(idx), c))
            return self._new(self.dims, self.sizes, f, name=self._name)
        if not isinstance(other, MArr):
            return NotImplemented
        a, b = (other, self) if reflected else (self, other)
        dims = list(a.dims) + [d for d in b.dims if d not in a.dims]
        sizes = {}
        for d in dims:
            if d in a.sizes and d in b.sizes:
                oblige(f"lib-pre/arith-sizes-agree:{d}", _sz(a.sizes[d]) == _sz(b.sizes[d]))
                # dimension coordinates (indexes) must be aligned: identical content
                if d in a.coords and d in b.coords:
                    oblige(f"lib-pre/arith-index-aligned:{d}", a.coords[d].tok == b.coords[d].tok)
            sizes[d] = a.sizes[d] if d in a.sizes else b.sizes[d]
        f = lambda idx: op(a._elem({k: idx[k] for k in a.dims}), b._elem({k: idx[k] for k in b.dims}))
        coords = Coords()
        for src in (a, b):
            for k, c in src.coords.items():
                if k not in coords:
                    coords._d[k] = c
                elif coords._d[k].tok != c.tok:
                    # conflicting non-index coordinates are dropped by xarray
                    if k not in dims:
                        del coords._d[k]
        name = a._name if a._name == b._name else None
        dask = None
        if a.dask is not None or b.dask is not None:
            dask = {d: (a.dask or {}).get(d, (b.dask or {}).get(d, (sizes[d],))) for d in dims}
        return MArr(dims, sizes, f, name=name, coords=coords, attrs={}, dask=dask, dtype=a.dtype)

    def __add__(s, o):
        return s._binop(o, lambda x, y: x + y)

    def __radd__(s, o):
        return s._binop(o, lambda x, y: x + y, True)

    def __sub__(s, o):
        return s._binop(o, lambda x, y: x - y)

    def __rsub__(s, o):
        return s._binop(o, lambda x, y: x - y, True)

    def __mul__(s, o):
        return s._binop(o, lambda x, y: x * y)

    def __rmul__(s, o):
        return s._binop(o, lambda x, y: x * y, True)

    def __truediv__(s, o):
        return s._binop(o, lambda x, y: x / y)

    # in-place arithmetic WRITES INTO THIS OBJECT (xarray: `a *= b` updates a's buffer; every alias of `a`, e.g. the caller's array,
    # sees the new values): logged as a mutation (C18) and the element function of this very object is replaced
    def _inplace(s, o, op, opname):
        snapshot = s._new(s.dims, s.sizes, s._elem, name=s._name)  # the values before the update (the update must not read itself)
        res = snapshot._binop(o, op)
        if res is NotImplemented:
            return NotImplemented
        if set(res.dims) != set(s.dims):
            raise ValueError(f"in-place {opname} would change the dimensions {s.dims} -> {res.dims}")
        s._buffer_owner_log("in-place " + opname)
        old = res
        s._elem = lambda idx: old._elem(idx)
        return s

    def __imul__(s, o):
        return s._inplace(o, lambda x, y: x * y, "*=")

    def __iadd__(s, o):
        return s._inplace(o, lambda x, y: x + y, "+=")

    def __isub__(s, o):
        return s._inplace(o, lambda x, y: x - y, "-=")

    def __itruediv__(s, o):
        return s._inplace(o, lambda x, y: x / y, "/=")

    def __rtruediv__(s, o):
        return s._binop(o, lambda x, y: x / y, True)

    def __neg__(self):
        a = self
        return self._new(self.dims, self.sizes, lambda idx: -a._elem(idx))

    # ---- reductions ----------------------------------------------------------------------
    def cumsum(self, dim=None, **kw):
        """assumed contract: prefix sum along dim, pointwise in the other dims.
        P(idx, -1) = 0 ; P(idx, k) = P(idx, k-1) + a[idx, k]  -- encoded with an uninterpreted
        prefix function whose recurrence is instantiated on demand by the harness."""
        if kw:
            raise EngineUnsupported(f"cumsum kwargs {kw}")
        if dim not in self.dims:
            raise ValueError(f"cumsum: {dim} not in {self.dims}")
        a = self
        ps = PrefixSum(a, dim)
        f = lambda idx: ps.at(idx, idx[dim])
        out = self._new(self.dims, self.sizes, f)
        out.prefix = ps
        return out

    def sum(self, dim=None, **kw):
        # assumed contract: a sum over several dimensions is one reduction over the product index set,
        # independent of the order in which the dimensions are listed (canonical order used here)
        dims = [dim] if isinstance(dim, str) else sorted(dim)
        out = self
        for d in dims:
            if d not in out.dims:
                raise ValueError(f"sum: {d} not in {out.dims}")
            a = out
            ps = PrefixSum(a, d)
            n = _sz(a.sizes[d])
            f = (lambda ps, n: lambda idx: ps.at(idx, n - 1))(ps, n)
            nd = [x for x in a.dims if x != d]
            coords = Coords({k: c for k, c in a.coords.items() if d not in c.dims})
            dask = None if a.dask is None else {x: v for x, v in a.dask.items() if x != d}
            out = MArr(nd, {x: a.sizes[x] for x in nd}, f, name=a._name, coords=coords,
                       attrs={}, dask=dask, dtype=a.dtype)
            out.sum_of = getattr(a, "sum_of", []) + [(ps, d)]
        return out

    def weighted(self, w):
        return _Weighted(self, w)

    def astype(self, dtype, **kw):
        if dtype not in (float, "float64", "float"):
            raise EngineUnsupported(f"astype({dtype!r})")
        return self


class PrefixSum:
    """Uninterpreted prefix sum of array `a` along `dim`: S(other idx..., k) = sum_{i<=k} a[i].

    Canonical per (element term, dim): two arrays whose element terms are syntactically equal (after
    z3 simplification, over canonical index variables) share the same function symbol.  This is the
    congruence `a == b  =>  cumsum(a) == cumsum(b)` restricted to syntactic equality."""

    def __init__(self, a, dim):
        self.a = a
        self.dim = dim
        self.others = sorted(d for d in a.dims if d != dim)
        reg = symx.ctx().ghost.setdefault("prefix-registry", {})
        canon = {d: z3.Int(f"cidx!{d}") for d in a.dims}
        term = z3.simplify(a._elem(canon))
        n = z3.simplify(_sz(a.sizes[dim]))
        self.factor = None
        if symx.ctx().ghost.get("sum-linearity") and z3.is_mul(term):
            # normal form under linearity of finite sums (lean/SumFacts.lean: sum_const_mul): a factor that does not
            # depend on the summation index is moved in front of the sum, sum_i c*w(i) = c * sum_i w(i)
            const = [t for t in term.children() if not _mentions(t, canon[dim])]
            rest = [t for t in term.children() if _mentions(t, canon[dim])]
            if const and rest:
                self.factor = (z3.simplify(z3.Product(const)) if len(const) > 1 else const[0], canon)
                term = z3.simplify(z3.Product(rest)) if len(rest) > 1 else rest[0]
        key = (term.get_id(), tuple(self.others), dim)
        if key not in reg:
            fn = z3.Function(f"Psum!{len(reg)}", *([z3.IntSort()] * (len(self.others) + 1)), symx.Val)
            reg[key] = (fn, term, a, dim, list(self.others))  # (term kept alive: its id stays unique)
        self.fn = reg[key][0]

    def at(self, idx, k):
        if symx.ctx().ghost.get("expand-sums"):
            kk = z3.simplify(k) if z3.is_expr(k) else z3.IntVal(k)
            if z3.is_int_value(kk):
                tot = z3.RealVal(0)
                for i in range(0, kk.as_long() + 1):
                    tot = tot + self.a._elem({**idx, self.dim: z3.IntVal(i)})
                return tot
        s = self.fn(*[idx[d] for d in self.others], k)
        if self.factor is not None:
            f, canon = self.factor
            return z3.substitute(f, [(canon[d], idx[d] if z3.is_expr(idx[d]) else z3.IntVal(idx[d])) for d in self.others]) * s
        return s

    def axioms_at(self, idx, k):
        """recurrence instances at position k (and the base case) - facts of the assumed contract"""
        a = self.a
        return [
            self.at(idx, z3.IntVal(-1)) == 0,
            self.at(idx, k) == self.at(idx, k - 1) + a._elem({**idx, self.dim: k}),
        ]


def _mentions(t, v):
    seen = set()
    stack = [t]
    while stack:
        x = stack.pop()
        if x.get_id() in seen:
            continue
        seen.add(x.get_id())
        if x.eq(v):
            return True
        stack.extend(x.children())
    return False


class _Weighted:
    def __init__(self, a, w):
        self.a = a
        self.w = w

    def mean(self, dim=None, **kw):
        num = (self.a * self.w).sum(dim)
        den = (self.w * _ones_like_valid(self.a)).sum(dim)
        out = num / den
        out.weighted_parts = (num, den)
        return out


def _ones_like_valid(a):
    return MArr(a.dims, a.sizes, lambda idx: z3.RealVal(1), name=None, coords=None, dask=a.dask)


# ---------------------------------------------------------------------------------------------
class GenericList(list):
    """list built by a loop cut at a generic iteration (see generic_range)"""


def generic_range(n):
    """replacement for `range` in a module namespace: for symbolic n the loop body is executed
    once for a fresh index i, 0 <= i < n (sound only for loops without loop-carried state other
    than list.append - checked syntactically by vp/loopcheck.py)."""
    if isinstance(n, SymInt):
        c = symx.ctx()
        i = c.fresh_int("i")
        c.assume(i >= 0, i < n.e)
        c.ghost["generic"] = (i, n)
        return [mk_int(i)]
    return range(n)


class _DAMeta(type):
    def __instancecheck__(cls, obj):
        return isinstance(obj, MArr)


class DataArrayModel(metaclass=_DAMeta):
    """xr.DataArray as a name: isinstance() accepts every MArr; calling it builds an MArr from a
    1-D NArr (the only constructor use in xgcm: transform._parse_target)"""

    def __new__(cls, data=None, coords=None, dims=None, name=None, attrs=None):
        if isinstance(data, NArr) and data.ndim == 1 and dims is not None and len(dims) == 1:
            d = list(dims)[0]
            arr = MArr((d,), {d: data.shape[0]}, lambda idx: data._elem((idx[d],)), name=name, attrs=attrs)
            if coords:
                for k, v in dict(coords).items():
                    if isinstance(v, NArr):
                        arr.coords._d[k] = MArr((d,), {d: v.shape[0]}, (lambda v: lambda idx: v._elem((idx[d],)))(v), name=k,
                                                tok=("from-array", id(v)))
            arr.built_from = data
            return arr
        if dims is not None and coords is None:
            dims = list(dims)
            if isinstance(data, NArr) and data.ndim == len(dims) and len(set(dims)) == len(dims):
                # plain values re-labelled positionally (no coordinates)
                return MArr(tuple(dims), {d: data.shape[k] for k, d in enumerate(dims)},
                            lambda idx, data=data, dims=tuple(dims): data._elem(tuple(idx[d] for d in dims)), name=name, attrs=attrs)
            if isinstance(data, DaskToken) and len(data._arr.dims) == len(dims) and len(set(dims)) == len(dims):
                # the lazy `.data` of another array re-labelled positionally: stays lazy, chunks go with the axes
                src = data._arr
                old = list(src.dims)
                return MArr(tuple(dims), {d: src.sizes[o] for d, o in zip(dims, old)},
                            lambda idx, src=src, pairs=tuple(zip(dims, old)): src._elem({o: idx[d] for d, o in pairs}), name=name, attrs=attrs,
                            dask={d: src.dask[o] for d, o in zip(dims, old)})
        raise EngineUnsupported("xr.DataArray(...) constructor form not modelled")


class XRModel(metaclass=_ModelNamespace):
    DataArray = DataArrayModel

    @staticmethod
    def concat(objs, dim, data_vars=None, coords=None, compat=None, join=None, **kw):
        objs = list(objs)
        c = symx.ctx()
        if all(dim not in o.dims for o in objs):
            gen = c.ghost.get("generic")
            if gen is not None and len(objs) == 1:
                i, n = gen
                body = objs[0]

                def f(idx):
                    e = body._elem({k: v for k, v in idx.items() if k != dim})
                    return z3.substitute(e, (i, idx[dim]))
                c.ghost["generic_used"] = True
                return MArr((dim,) + body.dims, {dim: n, **body.sizes}, f, name=body._name,
                            dask=None if body.dask is None else {dim: ("?",), **body.dask})
            first = objs[0]
            for o in objs[1:]:
                for d in first.dims:
                    if d in o.dims:
                        oblige(f"lib-pre/concat-size-agree:{d}", _sz(first.sizes[d]) == _sz(o.sizes[d]))
                    else:
                        oblige(f"lib-pre/concat-same-dims:{d}", False)
            n = len(objs)

            def f(idx):
                sub = {k: v for k, v in idx.items() if k != dim}
                e = objs[-1]._elem(sub)
                for k in range(n - 2, -1, -1):
                    e = z3.If(idx[dim] == k, objs[k]._elem(sub), e)
                return e
            return MArr((dim,) + first.dims, {dim: n, **first.sizes}, f, name=first._name,
                        dask=None if first.dask is None else {dim: (1,) * n, **first.dask})
        # concatenation along an existing dimension, with ensure_common_dims broadcasting
        alld = []
        for o in objs:
            for d in o.dims:
                if d not in alld:
                    alld.append(d)
        if dim not in alld:
            alld = [dim] + alld
        for d in alld:
            if d == dim:
                continue
            ss = [o.sizes[d] for o in objs if d in o.dims]
            for s in ss[1:]:
                oblige(f"lib-pre/concat-size-agree:{d}", _sz(ss[0]) == _sz(s))
        lens = [_sz(o.sizes[dim]) if dim in o.dims else z3.IntVal(1) for o in objs]
        offs = [z3.IntVal(0)]
        for l in lens[:-1]:
            offs.append(offs[-1] + l)

        def pick(o, idx, off):
            return o._elem({k: (idx[k] - off if k == dim else idx[k]) for k in o.dims})

        def f(idx):
            e = pick(objs[-1], idx, offs[-1])
            for k in range(len(objs) - 2, -1, -1):
                e = z3.If(idx[dim] < offs[k + 1], pick(objs[k], idx, offs[k]), e)
            return e
        sizes = {d: next(o.sizes[d] for o in objs if d in o.dims) for d in alld if d != dim}
        tot = offs[-1] + lens[-1]
        sizes[dim] = mk_int(tot)
        # coordinates: coords="minimal", compat="override": coordinates on the concat dim are
        # concatenated, others taken from the first object
        cc = Coords()
        for k, cv in objs[0].coords.items():
            if dim in cv.dims:
                if all(k in o.coords for o in objs):
                    cc._d[k] = MArr(cv.dims, {**cv.sizes, dim: sizes[dim]}, cv._elem, name=k,
                                    tok=("concat",) + tuple(o.coords[k].tok for o in objs))
            else:
                cc._d[k] = cv
        dask = None
        if any(o.dask is not None for o in objs):
            dask = {d: ("?",) for d in alld}
        return MArr(alld, sizes, f, name=objs[0]._name, coords=cc, dask=dask, dtype=objs[0].dtype)

    @staticmethod
    def apply_ufunc(func, *args, input_core_dims=None, output_core_dims=((),), exclude_dims=frozenset(),
                    dask="forbidden", kwargs=None, dask_gufunc_kwargs=None, output_dtypes=None,
                    keep_attrs=None, vectorize=False, **other):
        if other:
            raise EngineUnsupported(f"apply_ufunc kwargs {list(other)}")
        return apply_ufunc_model(func, args, input_core_dims, output_core_dims, set(exclude_dims),
                                 dask, kwargs or {}, dask_gufunc_kwargs or {}, output_dtypes)


class NArr(_ModelObject):
    """plain n-d array handed to the user function: positional axes, symbolic shape"""

    def __init__(self, shape, elem, labels=None, dask=None):
        self.shape = tuple(shape)
        self._elem = elem  # tuple of z3 ints -> Real
        self.labels = labels  # dimension names (ghost: for reporting / rebuilding the result)
        self.dask = dask
        self.dtype = "float64"

    @property
    def ndim(self):
        return len(self.shape)

    def elem(self, pos):
        return self._elem(tuple(pos))

    def _lastaxis_slice(self, sl):
        n = self.shape[-1]
        r = norm_slice(sl, n)
        old = self
        if isinstance(r[0], str) and r[0] == "neg":
            _, a0, sz0 = r
            return NArr(self.shape[:-1] + (mk_int(sz0),), lambda p: old._elem(p[:-1] + (a0 - p[-1],)), self.labels, self.dask)
        if isinstance(r[0], str):
            nz = r[1]
            return NArr(self.shape, lambda p: old._elem(p[:-1] + (nz - 1 - p[-1],)), self.labels, self.dask)
        a, sz = r
        return NArr(self.shape[:-1] + (mk_int(sz),), lambda p: old._elem(p[:-1] + (p[-1] + a,)),
                    self.labels, self.dask)

    def __getitem__(self, k):
        """numpy basic indexing with slices and one Ellipsis (no integers, no fancy indexing)"""
        if not isinstance(k, tuple):
            k = (k,)
        if not all(x is Ellipsis or isinstance(x, slice) for x in k):
            raise EngineUnsupported(f"NArr indexing {k!r}")
        if sum(1 for x in k if x is Ellipsis) > 1:
            raise IndexError("an index can only have a single ellipsis")
        nd = self.ndim
        if Ellipsis in k:
            e = k.index(Ellipsis)
            fill = nd - (len(k) - 1)
            k = k[:e] + (slice(None),) * fill + k[e + 1:]
        else:
            k = k + (slice(None),) * (nd - len(k))
        if len(k) != nd:
            raise IndexError("too many indices for array")
        maps = []
        shape = []
        for ax, sl in enumerate(k):
            n = self.shape[ax]
            if sl.start is None and sl.stop is None and sl.step is None:
                maps.append(None)
                shape.append(n)
                continue
            r = norm_slice(sl, n)
            if isinstance(r[0], str) and r[0] == "neg":
                maps.append(("negoff", r[1]))
                shape.append(mk_int(r[2]))
            elif isinstance(r[0], str):
                nz = r[1]
                maps.append(("rev", nz))
                shape.append(n)
            else:
                a, sz = r
                maps.append(("off", a))
                shape.append(mk_int(sz))
        old = self

        def f(p):
            q = []
            for ax, mp in enumerate(maps):
                if mp is None:
                    q.append(p[ax])
                elif mp[0] == "rev":
                    q.append(mp[1] - 1 - p[ax])
                elif mp[0] == "negoff":
                    q.append(mp[1] - p[ax])
                else:
                    q.append(p[ax] + mp[1])
            return old._elem(tuple(q))
        out = NArr(tuple(shape), f, self.labels, self.dask)
        if getattr(self, "origin", None) is not None:
            out.origin = self.origin  # basic slicing gives a view
        return out

    def _inplace(self, o, op, opname):
        res = self._bin(o, op)
        if res is NotImplemented:
            return NotImplemented
        org = getattr(self, "origin", None)
        if org is not None:
            # writing through a view of an argument's buffer: a mutation of that argument (C18); the values the caller would see
            # afterwards are not modelled further
            org._buffer_owner_log(f"in-place {opname} through the array's data buffer")
        return res

    def __iadd__(s, o):
        return s._inplace(o, lambda x, y: x + y, "+=")

    def __isub__(s, o):
        return s._inplace(o, lambda x, y: x - y, "-=")

    def __imul__(s, o):
        return s._inplace(o, lambda x, y: x * y, "*=")

    def __itruediv__(s, o):
        return s._inplace(o, lambda x, y: x / y, "/=")

    def _bin(self, o, op, refl=False):
        if isinstance(o, (int, float)) and not isinstance(o, bool):
            c = RVx(o)
            a = self
            return NArr(self.shape, (lambda p: op(c, a._elem(p))) if refl else (lambda p: op(a._elem(p), c)),
                        self.labels, self.dask)
        if isinstance(o, NArr):
            a, b = (o, self) if refl else (self, o)
            if len(a.shape) != len(b.shape):
                raise EngineUnsupported("NArr broadcasting of different ranks")
            for k, (x, y) in enumerate(zip(a.shape, b.shape)):
                oblige(f"lib-pre/numpy-shapes-agree:axis{k - len(a.shape)}", _sz(x) == _sz(y))
            return NArr(a.shape, lambda p: op(a._elem(p), b._elem(p)), a.labels, a.dask or b.dask)
        return NotImplemented

    def __add__(s, o):
        return s._bin(o, lambda x, y: x + y)

    def __radd__(s, o):
        return s._bin(o, lambda x, y: x + y, True)

    def __sub__(s, o):
        return s._bin(o, lambda x, y: x - y)

    def __rsub__(s, o):
        return s._bin(o, lambda x, y: x - y, True)

    def __mul__(s, o):
        return s._bin(o, lambda x, y: x * y)

    def __rmul__(s, o):
        return s._bin(o, lambda x, y: x * y, True)

    def __truediv__(s, o):
        return s._bin(o, lambda x, y: x / y)

    def __neg__(s):
        return NArr(s.shape, lambda p: -s._elem(p), s.labels, s.dask)

    def _cmp(self, o, op):
        if isinstance(o, (int, float)) and not isinstance(o, bool):
            c = RVx(o)
            a = self
            return BArr(self.shape, lambda p: op(a._elem(p), c))
        if isinstance(o, NArr):
            a, b = self, o
            return BArr(self.shape, lambda p: op(a._elem(p), b._elem(p)))
        return NotImplemented

    def __lt__(s, o):
        return s._cmp(o, lambda x, y: x < y)

    def __gt__(s, o):
        return s._cmp(o, lambda x, y: x > y)

    def __le__(s, o):
        return s._cmp(o, lambda x, y: x <= y)

    def __ge__(s, o):
        return s._cmp(o, lambda x, y: x >= y)

    def __len__(self):
        n = self.shape[0]
        if isinstance(n, int):
            return n
        raise EngineUnsupported("builtin len() of a symbolic numpy array")

    def __symlen__(self):
        return self.shape[0]

    def __iter__(self):
        if self.ndim != 1 or not isinstance(self.shape[0], int):
            raise EngineUnsupported("iteration over a symbolic-length numpy array")
        return iter([symx.SymVal(self._elem((z3.IntVal(i),))) for i in range(self.shape[0])])


class BArr(_ModelObject):
    """boolean numpy array (result of an elementwise comparison)"""

    def __init__(self, shape, elem):
        self.shape = tuple(shape)
        self._elem = elem

    def __iter__(self):
        if len(self.shape) != 1 or not isinstance(self.shape[0], int):
            raise EngineUnsupported("iteration over a symbolic-length boolean array")
        return iter([SymBool(self._elem((z3.IntVal(i),))) for i in range(self.shape[0])])

    def all(self):
        return all(iter(self))


class NPModel(metaclass=_ModelNamespace):
    """model of the numpy functions used inside xgcm.gridops (bound to gridops.np)"""
    nan = float("nan")
    ndarray = NArr

    @staticmethod
    def stack(arrs, axis=0):
        arrs = list(arrs)
        if axis != -1:
            raise EngineUnsupported("np.stack axis != -1")
        a0 = arrs[0]
        for b in arrs[1:]:
            for k, (x, y) in enumerate(zip(a0.shape, b.shape)):
                oblige(f"lib-pre/stack-shapes-agree:axis{k - len(a0.shape)}", _sz(x) == _sz(y))
        n = len(arrs)

        def f(p):
            e = arrs[-1]._elem(p[:-1])
            for k in range(n - 2, -1, -1):
                e = z3.If(p[-1] == k, arrs[k]._elem(p[:-1]), e)
            return e
        out = NArr(a0.shape + (n,), f, a0.labels, a0.dask)
        out.stacked = arrs
        return out

    @staticmethod
    def _reduce_last(a, op):
        if not hasattr(a, "stacked"):
            raise EngineUnsupported("reduction over a non-stacked axis")
        arrs = a.stacked

        def f(p):
            e = arrs[0]._elem(p)
            for b in arrs[1:]:
                e = op(e, b._elem(p))
            return e
        return NArr(arrs[0].shape, f, arrs[0].labels, arrs[0].dask)

    @staticmethod
    def min(a, axis=None):
        if axis != -1:
            raise EngineUnsupported("np.min axis != -1")
        return NPModel._reduce_last(a, lambda x, y: z3.If(x <= y, x, y))

    @staticmethod
    def max(a, axis=None):
        if axis != -1:
            raise EngineUnsupported("np.max axis != -1")
        return NPModel._reduce_last(a, lambda x, y: z3.If(x >= y, x, y))

    @staticmethod
    def minimum(a, b):
        return a._bin(b, lambda x, y: z3.If(x <= y, x, y))

    @staticmethod
    def maximum(a, b):
        return a._bin(b, lambda x, y: z3.If(x >= y, x, y))

    @staticmethod
    def cumsum(a, axis=None):
        if axis != -1:
            raise EngineUnsupported("np.cumsum axis != -1")
        fn = z3.Function(f"NPsum!{next(_uid)}", *([z3.IntSort()] * a.ndim), symx.Val)
        out = NArr(a.shape, lambda p: fn(*p), a.labels, a.dask)
        out.prefix_of = (a, fn)
        return out

    @staticmethod
    def log(a):
        LOG = z3.Function("LOG", symx.Val, symx.Val)
        out = NArr(a.shape, lambda p: LOG(a._elem(p)), a.labels, a.dask)
        out.log_of = a
        return out

    @staticmethod
    def diff(a, axis=-1):
        if a.ndim != 1:
            raise EngineUnsupported("np.diff of a non 1-D array")
        n = a.shape[0]
        m = mk_int(_sz(n) - 1)
        return NArr((m,), lambda p: a._elem((p[0] + 1,)) - a._elem((p[0],)), a.labels, a.dask)

    # -- elementwise spellings of the operators (so that `np.subtract(a, b)` for `a - b` and the like stay decidable) --
    @staticmethod
    def add(a, b):
        return a + b

    @staticmethod
    def subtract(a, b):
        return a - b

    @staticmethod
    def multiply(a, b):
        return a * b

    @staticmethod
    def divide(a, b):
        return a / b

    true_divide = divide

    @staticmethod
    def negative(a):
        return -a

    @staticmethod
    def asarray(a, dtype=None):
        if not isinstance(a, NArr):
            raise EngineUnsupported(f"np.asarray of {type(a).__name__}")
        return a

    asanyarray = asarray

    @staticmethod
    def flip(a, axis=None):
        if axis is None or not isinstance(axis, int):
            raise EngineUnsupported("np.flip without a single integer axis")
        k = [slice(None)] * a.ndim
        k[axis] = slice(None, None, -1)
        return a[tuple(k)]

    @staticmethod
    def where(cond, a, b):
        if not isinstance(cond, BArr):
            raise EngineUnsupported("np.where on a non-boolean-array condition")

        def el(x, p):
            return x._elem(p) if isinstance(x, NArr) else RVx(x)
        shape = a.shape if isinstance(a, NArr) else (b.shape if isinstance(b, NArr) else cond.shape)
        lab = a.labels if isinstance(a, NArr) else (b.labels if isinstance(b, NArr) else None)
        return NArr(shape, lambda p: z3.If(cond._elem(p), el(a, p), el(b, p)), lab, None)

    @staticmethod
    def zeros_like(a, dtype=None):
        return NArr(a.shape, lambda p: z3.RealVal(0), a.labels, a.dask)

    @staticmethod
    def ones_like(a, dtype=None):
        return NArr(a.shape, lambda p: z3.RealVal(1), a.labels, a.dask)

    @staticmethod
    def full_like(a, fill, dtype=None):
        return ("full_like", fill)

    @staticmethod
    def array(x, dtype=None):
        return ("np.array", dtype)


def apply_ufunc_model(func, args, in_core, out_core, exclude, dask, kwargs, gufunc_kwargs, out_dtypes):
    """Assumed contract of xarray.apply_ufunc (the part xgcm relies on):
    * each DataArray argument is handed to `func` as a plain array whose leading axes are the
      broadcast (non-core) dimensions in order of first appearance over the arguments and whose
      trailing axes are its input_core_dims in the listed order;
    * non-core dimensions must agree in size (core dims listed in exclude_dims may differ);
    * each output gets the broadcast dimensions followed by its output_core_dims;
    * coordinates that do not involve excluded dims are propagated, others are dropped;
    * a dask-backed argument with dask='forbidden' raises ValueError; with 'parallelized' core
      dims must not be chunked.
    """
    args = list(args)
    if len(in_core) != len(args):
        raise ValueError("input_core_dims must have one entry per argument")
    for a in args:
        if not isinstance(a, MArr):
            raise EngineUnsupported(f"apply_ufunc on {type(a)}")
    any_dask = any(a.dask is not None for a in args)
    if any_dask and dask == "forbidden":
        raise ValueError("apply_ufunc encountered a dask array on an argument, but handling for dask arrays has not been enabled.")
    for a, core in zip(args, in_core):
        for d in core:
            if d not in a.dims:
                raise ValueError(f"operand to apply_ufunc has required core dimensions {list(core)}, but some of these dimensions are absent on an input variable: {[d]}")
    # core dims may not appear as broadcast dims on other arguments
    bdims = []
    for a, core in zip(args, in_core):
        for d in a.dims:
            if d not in core and d not in bdims:
                bdims.append(d)
    for d in bdims:
        if d in exclude:
            raise ValueError(f"each dimension in `exclude_dims` must also be a core dimension in the function signature. {d}")
    bsizes = {}
    for a, core in zip(args, in_core):
        for d in a.dims:
            if d in core:
                continue
            if d in bsizes:
                oblige(f"lib-pre/apply_ufunc-broadcast-size:{d}", _sz(bsizes[d]) == _sz(a.sizes[d]))
            else:
                bsizes[d] = a.sizes[d]
    # non-excluded core dims shared between arguments must agree as well
    csizes = {}
    for a, core in zip(args, in_core):
        for d in core:
            if d in exclude:
                continue
            if d in csizes:
                oblige(f"lib-pre/apply_ufunc-core-size:{d}", _sz(csizes[d]) == _sz(a.sizes[d]))
            else:
                csizes[d] = a.sizes[d]
    if any_dask and dask == "parallelized":
        for a, core in zip(args, in_core):
            if a.dask is not None:
                for d in core:
                    if len(a.dask[d]) > 1:
                        raise ValueError(f"dimension {d} on an operand to apply_ufunc with dask='parallelized' consists of multiple chunks, but is also a core dimension.")
    narrs = []
    for a, core in zip(args, in_core):
        # xarray.broadcast_compat_data: the argument keeps its own broadcast dims (in broadcast order);
        # a broadcast dim it lacks becomes a size-1 axis only when it lies after one it has; missing
        # leading dims are left to numpy broadcasting; core dims come last in the listed order
        unexpected = [d for d in a.dims if d not in bdims and d not in core]
        if unexpected:
            raise ValueError(f"operand to apply_ufunc encountered unexpected dimensions {unexpected!r} on an input variable: these are core dimensions on other input or output variables")
        labels, shape = [], []
        started = False
        for d in bdims:
            if d in a.dims:
                started = True
                labels.append(d)
                shape.append(a.sizes[d])
            elif started:
                labels.append(d)
                shape.append(1)
        for d in core:
            labels.append(d)
            shape.append(a.sizes[d])

        def f(p, a=a, labels=labels):
            idx = {d: p[k] for k, d in enumerate(labels) if d in a.dims}
            return a._elem(idx)
        na = NArr(shape, f, labels, dask=a.dask)
        na.origin = a  # numpy hands the function (a view of) the argument's own buffer
        narrs.append(na)
    rec = symx.ctx().ghost.setdefault("apply_ufunc_calls", [])
    rec.append({"func": func, "narrs": narrs, "in_core": [list(c) for c in in_core],
                "out_core": [list(c) for c in out_core], "exclude": set(exclude), "dask": dask,
                "kwargs": dict(kwargs), "gufunc_kwargs": gufunc_kwargs, "bdims": list(bdims)})
    res = func(*narrs, **kwargs)
    single = not isinstance(res, tuple)
    ress = (res,) if single else res
    if len(ress) != len(out_core):
        raise ValueError(f"applied function returned {len(ress)} outputs but output_core_dims has {len(out_core)}")
    outs = []
    name = args[0]._name if all(a._name == args[0]._name for a in args) else None
    for r, oc in zip(ress, out_core):
        if not isinstance(r, NArr):
            raise EngineUnsupported(f"ufunc returned {type(r)}")
        oc = list(oc)
        if r.ndim != len(bdims) + len(oc):
            raise ValueError(f"applied function returned data with an unexpected number of dimensions. Received {r.ndim} dimension(s) but expected {len(bdims) + len(oc)} dimensions with names {tuple(bdims) + tuple(oc)}")
        dims = list(bdims) + oc
        for k, d in enumerate(bdims):
            oblige(f"lib-pre/apply_ufunc-output-broadcast-size:{d}", _sz(r.shape[k]) == _sz(bsizes[d]))
        for k, d in enumerate(oc):
            if d not in exclude and d in csizes:
                # xarray checks that a non-excluded output core dim keeps its size
                if not size_eq(r.shape[len(bdims) + k], csizes[d]):
                    raise ValueError(f"size of dimension {d!r} on inputs was unexpectedly changed by applied function")
            if any_dask and dask == "parallelized":
                osz = gufunc_kwargs.get("output_sizes", {})
                if d in osz:
                    oblige(f"lib-pre/apply_ufunc-declared-output-size:{d}",
                           _sz(r.shape[len(bdims) + k]) == _sz(osz[d]))
        sizes = {d: r.shape[k] for k, d in enumerate(dims)}

        def f(idx, r=r, dims=dims):
            return r._elem(tuple(idx[d] for d in dims))
        coords = Coords()
        for a in args:
            for k, cv in a.coords.items():
                if any(d in exclude for d in cv.dims):
                    continue
                if k not in coords and all(d in dims for d in cv.dims):
                    coords._d[k] = cv
        dsk = None
        if any_dask:
            dsk = {}
            for d in dims:
                src = next((a for a in args if a.dask is not None and d in a.dask), None)
                dsk[d] = src.dask[d] if src is not None and d in bdims else (sizes[d],)
            if r.dask is not None and isinstance(r.dask, dict):
                dsk.update({d: v for d, v in r.dask.items() if d in dims})
        o = MArr(dims, sizes, f, name=name, coords=coords, attrs={}, dask=dsk)
        o.from_narr = r
        outs.append(o)
    return outs[0] if single else tuple(outs)


class MDataset(_ModelObject):
    """model of xarray.Dataset as used by xgcm: named dimensions with sizes, coordinate and
    data variables (MArr), attrs."""

    def __init__(self, dims, coords=None, data_vars=None, attrs=None):
        self._dims = OrderedDict(dims)
        self.coords = Coords(coords or {})
        self.data_vars = OrderedDict(data_vars or {})
        self.attrs = dict(attrs or {})
        self.log = []

    @property
    def dims(self):
        return self._dims  # `x in ds.dims`, list(ds.dims)

    @property
    def sizes(self):
        return self._dims

    @property
    def variables(self):
        d = OrderedDict()
        for k, v in self.coords.items():
            d[k] = v
        for k, v in self.data_vars.items():
            d[k] = v
        return d

    def __contains__(self, k):
        return k in self.coords or k in self.data_vars

    def __getitem__(self, k):
        if isinstance(k, (list, tuple)):
            # ds[[names]]: a new dataset with the listed variables. A listed name that is a DIMENSION without a coordinate variable
            # becomes a default index coordinate 0..n-1 (xarray's virtual variable); every coordinate of the dataset whose
            # dimensions are among those of the selection comes along
            cc = Coords()
            dv = OrderedDict()
            need = []
            for name in k:
                if name in self.data_vars:
                    dv[name] = self.data_vars[name]
                    need += [d for d in self.data_vars[name].dims if d not in need]
                elif name in self.coords:
                    cc._d[name] = self.coords[name]
                    need += [d for d in self.coords[name].dims if d not in need]
                elif name in self._dims:
                    n = self._dims[name]
                    cc._d[name] = MArr((name,), {name: n}, lambda idx, name=name: z3.ToReal(idx[name]), name=name, tok=("range", name))
                    need += [name] if name not in need else []
                else:
                    raise KeyError(name)
            for ck, cv in self.coords.items():
                if ck not in cc._d and all(d in need for d in cv.dims):
                    cc._d[ck] = cv
            return MDataset(OrderedDict((d, self._dims[d]) for d in need), coords=cc._d, data_vars=dv, attrs=self.attrs)
        if k in self.data_vars:
            v = self.data_vars[k]
        elif k in self.coords:
            v = self.coords[k]
        elif k in self._dims:
            n = self._dims[k]
            return MArr((k,), {k: n}, lambda idx, k=k: z3.ToReal(idx[k]), name=k, tok=("range", k))
        else:
            raise KeyError(k)
        # attach the dataset coordinates that fit
        cc = Coords()
        for ck, cv in self.coords.items():
            if all(d in v.dims for d in cv.dims):
                cc._d[ck] = cv
        return MArr(v.dims, v.sizes, v._elem, name=k, coords=cc, attrs=v._attrs, tok=v.tok, dask=v.dask)

    def __setitem__(self, k, v):
        self.log.append(("setitem", k))
        self.data_vars[k] = v


XRModel.Dataset = MDataset


for _cls in (MArr, NArr, BArr, MDataset, XRModel, NPModel):
    guard_model_class(_cls)
apply_ufunc_model = _guard(apply_ufunc_model)
