"""reglang: exact (unbounded) decision of regular-language equivalence between the pattern the real
module builds (parsed with CPython's own regex parser) and a specification automaton.

Supported regex constructs: literals, character classes made of literals / ranges / \\w \\d \\s
categories, groups (capturing or not), alternation, greedy/lazy repetition {m,n} * + ?, ^ at the
start, $ / \\Z at the end.  Anything else raises Unsupported (the check is then UNDECIDED).
Greedy vs lazy is irrelevant for acceptance.  `$` also matches before a final newline.
"""
from __future__ import annotations

import re
import string
from collections import deque

try:
    import re._parser as sre_parse  # py >= 3.11
    import re._constants as sre_c
except ImportError:  # pragma: no cover
    import sre_parse
    import sre_constants as sre_c


class Unsupported(Exception):
    pass


EPS = None


class NFA:
    def __init__(self):
        self.n = 0
        self.trans = []  # list of dict: symbol-predicate -> set(states)   stored as list of (pred, dst)
        self.eps = []

    def new(self):
        self.trans.append([])
        self.eps.append(set())
        self.n += 1
        return self.n - 1

    def add(self, a, pred, b):
        self.trans[a].append((pred, b))

    def add_eps(self, a, b):
        self.eps[a].add(b)


# a "pred" is a frozenset of alphabet classes (strings); the alphabet is fixed before construction
class Builder:
    def __init__(self, alphabet, is_word, is_digit, is_space):
        self.alpha = list(alphabet)
        self.is_word, self.is_digit, self.is_space = is_word, is_digit, is_space
        self.nfa = NFA()

    def cls(self, fn):
        return frozenset(a for a in self.alpha if fn(a))

    def lit(self, ch):
        if ch not in self.alpha:
            raise Unsupported(f"literal {ch!r} not in the alphabet")
        return frozenset([ch])

    # fragments are (start, end)
    def f_pred(self, pred):
        s, e = self.nfa.new(), self.nfa.new()
        self.nfa.add(s, pred, e)
        return s, e

    def f_eps(self):
        s = self.nfa.new()
        return s, s

    def f_seq(self, frags):
        frags = list(frags)
        if not frags:
            return self.f_eps()
        for (a, b), (c, d) in zip(frags, frags[1:]):
            self.nfa.add_eps(b, c)
        return frags[0][0], frags[-1][1]

    def f_alt(self, frags):
        s, e = self.nfa.new(), self.nfa.new()
        for a, b in frags:
            self.nfa.add_eps(s, a)
            self.nfa.add_eps(b, e)
        return s, e

    def f_star(self, mk):
        s, e = self.nfa.new(), self.nfa.new()
        a, b = mk()
        self.nfa.add_eps(s, a)
        self.nfa.add_eps(b, e)
        self.nfa.add_eps(s, e)
        self.nfa.add_eps(b, a)
        return s, e

    def f_repeat(self, mk, lo, hi):
        parts = [mk() for _ in range(lo)]
        if hi is None:
            parts.append(self.f_star(mk))
        else:
            for _ in range(hi - lo):
                a, b = mk()
                s, e = self.nfa.new(), self.nfa.new()
                self.nfa.add_eps(s, a)
                self.nfa.add_eps(b, e)
                self.nfa.add_eps(s, e)
                parts.append((s, e))
        return self.f_seq(parts)

    # ---- from CPython's parsed pattern -----------------------------------------------------------
    def from_sre(self, items, top=True):
        frags = []
        items = list(items)
        end_anchor = None
        for k, (op, av) in enumerate(items):
            name = str(op)
            if name == "LITERAL":
                frags.append(self.f_pred(self.lit(chr(av))))
            elif name == "NOT_LITERAL":
                frags.append(self.f_pred(self.cls(lambda a, c=chr(av): a != c)))
            elif name == "ANY":
                frags.append(self.f_pred(self.cls(lambda a: a != "\n")))
            elif name == "IN":
                frags.append(self.f_pred(self.in_set(av)))
            elif name in ("MAX_REPEAT", "MIN_REPEAT", "POSSESSIVE_REPEAT"):
                lo, hi, sub = av
                hi = None if hi == sre_c.MAXREPEAT else hi
                frags.append(self.f_repeat(lambda sub=sub: self.from_sre(sub, top=False)[0], lo, hi))
            elif name == "SUBPATTERN":
                sub = av[-1]
                frags.append(self.from_sre(sub, top=False)[0])
            elif name == "BRANCH":
                frags.append(self.f_alt([self.from_sre(alt, top=False)[0] for alt in av[1]]))
            elif name == "AT":
                an = str(av)
                if an in ("AT_BEGINNING", "AT_BEGINNING_STRING"):
                    if not (top and k == 0):
                        raise Unsupported("^ not at the start")
                elif an in ("AT_END", "AT_END_STRING"):
                    if not (top and k == len(items) - 1):
                        raise Unsupported("$ not at the end")
                    end_anchor = an
                else:
                    raise Unsupported(f"anchor {an}")
            else:
                raise Unsupported(f"regex construct {name}")
        return self.f_seq(frags), end_anchor

    def in_set(self, av):
        neg = False
        preds = []
        for op, v in av:
            name = str(op)
            if name == "NEGATE":
                neg = True
            elif name == "LITERAL":
                preds.append(lambda a, c=chr(v): a == c)
            elif name == "RANGE":
                lo, hi = v
                preds.append(lambda a, lo=lo, hi=hi: len(a) == 1 and lo <= ord(a) <= hi)
            elif name == "CATEGORY":
                cn = str(v)
                table = {"CATEGORY_WORD": self.is_word, "CATEGORY_DIGIT": self.is_digit, "CATEGORY_SPACE": self.is_space}
                ntable = {"CATEGORY_NOT_WORD": self.is_word, "CATEGORY_NOT_DIGIT": self.is_digit, "CATEGORY_NOT_SPACE": self.is_space}
                if cn in table:
                    preds.append(table[cn])
                elif cn in ntable:
                    preds.append(lambda a, f=ntable[cn]: not f(a))
                else:
                    raise Unsupported(cn)
            else:
                raise Unsupported(f"class item {name}")
        s = self.cls(lambda a: any(p(a) for p in preds))
        return frozenset(self.alpha) - s if neg else s


def _eclose(nfa, states):
    out = set(states)
    dq = deque(states)
    while dq:
        q = dq.popleft()
        for r in nfa.eps[q]:
            if r not in out:
                out.add(r)
                dq.append(r)
    return frozenset(out)


def nfa_to_acceptor(nfa, frag, alpha, mode, end_anchor):
    """acceptor (start, accept(S), step(S, a)) on epsilon-closed state sets for the way the code applies
    the pattern:  re.match + `$`  -> L(core) U L(core)."\\n" ;  re.match + \\Z or re.fullmatch -> L(core) ;
    re.match without end anchor -> L(core).Sigma*"""
    s0, final = frag
    accepting = {final}
    if mode == "match" and end_anchor == "AT_END":
        f2 = nfa.new()
        nfa.add(final, frozenset(["\n"]), f2)
        accepting.add(f2)
    elif mode == "match" and end_anchor is None:
        anyst = nfa.new()
        nfa.add_eps(final, anyst)
        nfa.add(anyst, frozenset(alpha), anyst)
        accepting.add(anyst)
    elif mode not in ("match", "fullmatch"):
        raise Unsupported(f"regex applied with re.{mode}")

    def step(S, a):
        nxt = set()
        for q in S:
            for pred, r in nfa.trans[q]:
                if a in pred:
                    nxt.add(r)
        return _eclose(nfa, nxt)

    def accept(S):
        return any(q in accepting for q in S)
    return _eclose(nfa, [s0]), accept, step


def find_difference(start_a, acc_a, step_a, start_b, acc_b, step_b, alpha, max_states=200000):
    """BFS over the product; returns the shortest string (list of alphabet classes) accepted by exactly one"""
    seen = {(start_a, start_b): None}
    dq = deque([(start_a, start_b)])
    n = 0
    while dq:
        A, B = dq.popleft()
        n += 1
        if n > max_states:
            raise Unsupported("product automaton too large")
        if acc_a(A) != acc_b(B):
            w = []
            cur = (A, B)
            while seen[cur] is not None:
                prev, a = seen[cur]
                w.append(a)
                cur = prev
            return list(reversed(w)), acc_a(A), acc_b(B), n
        for a in alpha:
            nxt = (step_a(A, a), step_b(B, a))
            if nxt not in seen:
                seen[nxt] = ((A, B), a)
                dq.append(nxt)
    return None, None, None, n


def make_alphabet(pattern_text, extra=""):
    lits = set(c for c in pattern_text if c not in "\\?*+|[]{}^$") | set(extra)
    lits |= set("(),:->")
    lits.discard(" ")
    alpha = sorted(lits) + ["\n", "W_OTHER", "O_OTHER"]

    def is_word(a):
        if a == "W_OTHER":
            return True
        if a in ("O_OTHER", "\n"):
            return False
        return a.isalnum() or a == "_"

    def is_digit(a):
        return len(a) == 1 and a.isdigit()

    def is_space(a):
        return a == "\n"
    return alpha, is_word, is_digit, is_space


def concretize(word, avoid):
    """map alphabet classes to characters"""
    out = []
    for a in word:
        if a == "W_OTHER":
            c = next(ch for ch in string.ascii_uppercase + string.ascii_lowercase + string.digits if ch not in avoid)
            out.append(c)
        elif a == "O_OTHER":
            c = next(ch for ch in "#;!@%&=+*" if ch not in avoid)
            out.append(c)
        else:
            out.append(a)
    return "".join(out)
