#!/bin/bash
# tools/mut.sh '<sed-expr>' <file-under-/repo> -- <check args...>   : apply a one-line mutation to /repo, run ./check, revert
export VERIF_EVIDENCE_DIR=/verif/.scratch/evidence
expr="$1"; file="$2"; shift 3
cd /repo && git diff --quiet || { echo "repo dirty"; exit 9; }
sed -i "$expr" "/repo/$file"
git -C /repo diff --stat | tail -1
cd /verif && ./check "$@"; rc=$?
git -C /repo checkout -- .
echo "rc=$rc"
