#!/usr/bin/env python3
"""regenerates seeded/README.md from seeded/<id>/meta.json"""
import glob
import json
import os

root = os.path.join(os.path.dirname(os.path.abspath(__file__)), "..", "seeded")
rows = []
for f in sorted(glob.glob(os.path.join(root, "*", "meta.json"))):
    m = json.load(open(f))
    sid = os.path.basename(os.path.dirname(f))
    rows.append((sid, m))
out = ["# Seeded property-breaking changes", "",
       "Each directory holds `patch.diff` (a change to /repo that breaks the property while the package imports and the whole",
       "pinned test suite still passes), `demo.py` (exits non-zero with the change, 0 without) and `meta.json`. The changes were",
       "written by sub-agents that were given only the property text and a scratch worktree of /repo - nothing from /verif.",
       "None is ever committed to /repo. `tools/seed_eval.sh <id> [checks]` applies a patch to /repo, runs the checks and reverts.", "",
       "| seed | property | change | needs | caught before strengthening | caught now | strengthening |", "|---|---|---|---|---|---|---|"]
for sid, m in rows:
    out.append("| {} | {} | {} | {} | {} | {} | {} |".format(
        sid, m["property"], m["summary"].replace("|", "\\|"), m["needs"].replace("|", "\\|"), ", ".join(m.get("caught_by_before", [])) or "none",
        ", ".join(m.get("caught_by_after", [])) or "NONE", m.get("strengthening", "").replace("|", "\\|")))
out += ["", f"{len(rows)} seeds; caught now: {sum(1 for _, m in rows if m.get('caught_by_after'))}; caught without any strengthening: {sum(1 for _, m in rows if m.get('caught_by_before'))}.", ""]
open(os.path.join(root, "README.md"), "w").write("\n".join(out))
print("\n".join(out[-3:]))
