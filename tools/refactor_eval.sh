#!/bin/bash
# tools/refactor_eval.sh <file.diff> [checks...]  apply a behaviour-preserving refactoring of /repo, run the checks, revert.
export VERIF_EVIDENCE_DIR=/verif/.scratch/evidence
# every check must exit 0 (a non-zero exit is a false alarm of the machinery).
f="$1"; shift
cd /verif
git -C /repo diff --quiet || { echo "/repo is dirty"; exit 9; }
git -C /repo apply "$(realpath $f)" || { echo "patch does not apply"; exit 9; }
checks="$@"; [ -z "$checks" ] && checks=$(seq -w 1 20 | sed 's/^/C/')
bad=""
for p in $checks; do
  out=$(./check $p --tier quick 2>&1); rc=$?
  if [ $rc -ne 0 ]; then bad="$bad $p(rc=$rc)"; echo "$out" | grep -E "^VIOLATION|^UNDECIDED|^CHECKER-BROKEN|^\[C" | head -8 | cut -c1-300; fi
done
git -C /repo checkout -- .
echo "refactoring $f: non-zero exits:${bad:- none}"
