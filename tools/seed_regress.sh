#!/bin/bash
# tools/seed_regress.sh [ids...]: every seeded change must still be caught by the checks recorded in its meta.json (caught_by_after)
cd /verif
ids="$@"; [ -z "$ids" ] && ids=$(ls seeded | grep -v README)
fail=0
for id in $ids; do
  checks=$(/venv/bin/python -c "import json;print(' '.join(json.load(open('seeded/$id/meta.json'))['caught_by_after']))")
  out=$(tools/seed_eval.sh $id $checks | tail -1)
  got=$(echo "$out" | sed 's/.*caught by://')
  ok=1; for c in $checks; do echo "$got" | grep -q "$c" || ok=0; done
  [ $ok -eq 1 ] && echo "ok   $id ->$got" || { echo "MISS $id expected [$checks] got [$got]"; fail=1; }
done
exit $fail
