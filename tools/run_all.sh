#!/bin/bash
# runs every registered quick (or given tier) check on the current tree and prints one line per property
tier="${1:-quick}"
cd "$(dirname "$0")/.."
rc_all=0
for i in $(seq -w 1 20); do
  p="C$i"
  out=$(./check $p --tier $tier 2>&1 | grep -E "^\[C|^VIOLATION|^KNOWN|^UNDECIDED|^CHECKER" | tail -4)
  echo "$out" | tail -1
  echo "$out" | grep -q "exit=0" || { rc_all=1; echo "$out" | head -3; }
done
exit $rc_all
