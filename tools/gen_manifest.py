#!/usr/bin/env python3
"""Generates /verif/MANIFEST.json from the table below (keeps the manifest valid at all times)."""
import json
import os

ROOT = os.path.dirname(os.path.dirname(os.path.abspath(__file__)))

COMMON_NOTE = ("Trusted: executable contract models of the xarray/numpy/dask operations used (vp/mxr.py, "
               "conformance-sampled, not proved); CPython executes xgcm as written and all symbolic control "
               "flow passes through proxy __bool__; z3 is sound; floats treated as mathematical reals. ")

CLAIMED = {
    "C05": dict(
        category="proof",
        text=("Deductive proof of the contract of the real xgcm.padding._pad_face_connections: exhaustive symbolic "
              "execution of the real function object (all paths, all set-iteration orders) with face size N>=2, widths "
              "0..N, number of faces, face index, source faces, data and fill values universally quantified by z3; "
              "postcondition (sizes, interior unchanged, halo cell = documented source cell with partner/sign, open "
              "edges = boundary rule) written from the property statement. Link shapes of the generic face, input "
              "kind, rules and extra-dimension layout are enumerated (quick: all 8 link kinds x 3 input kinds one "
              "slot at a time + systematic two-slot shapes + samples; thorough: all 625 slot shapes x 3 input kinds). Plus a BOUNDED native part "
              "(never counted as proved): whole reciprocal tables - periodic rings of 1-3 faces, random tables over 2-5 faces, listed in shuffled "
              "order - on the real constructor / xarray / pad, every non-corner cell of every face against the same specification."),
        design_ref="DESIGN.md 2.1, 2.4, 7/C05",
        note=COMMON_NOTE + "Generic-face rule justified by a syntactic loop-independence check run on every check. "
             "Corner cells excluded (C12). Structural enumeration of link shapes is sampled in the quick tier.",
        technique="contract-based deductive verification: symbolic execution of the real function + z3 VCs, generic-iteration loop rule",
    ),
    "C02": dict(
        category="proof",
        text=("Deductive proof of the contracts of the real Grid.__init__ (rule/fill resolution), "
              "_map_kwargs_over_axes, _complete_user_kwargs_using_axis_defaults, Axis.__init__, padding.pad, _pad_basic "
              "and _strip_all_coords: (A) for every enumerated spelling of periodic/boundary/fill_value on 1-3 axes the "
              "per-axis rule and fill value equal rule_in_force/value_in_force written from the statement, and the caller's "
              "mappings are unmodified; (B) symbolic execution of the real pad() with all sizes, widths >= 0, data and fill "
              "values universally quantified: sizes, original values in place, new cells = wrapped/constant/nearest value of "
              "the rule in force, identity return iff all widths are zero; also after earlier calls with other per-call settings on the same Grid."),
        design_ref="DESIGN.md 7/C02",
        note=COMMON_NOTE + "Spellings of the arguments are enumerated (bool/list/total dict; None/scalar/total/partial "
             "mapping); corner cells of multi-axis padding follow sequential extension in the order of boundary_width.",
        technique="contract-based deductive verification: symbolic execution of the real functions + z3 VCs",
    ),
    "C01": dict(
        category="proof",
        text=("Deductive proof of the top-level contract of the real Grid.diff/interp/min/max on simple grids, executed "
              "symbolically through _1d_grid_ufunc_dispatch, _select_grid_ufunc, GridUFunc.__call__, apply_as_grid_ufunc, "
              "pad, _apply (apply_ufunc contract model), the gridops stencil and _reattach_coords: result dims = input dims in "
              "input order with the axis dimension replaced, size = len_to(n), every value = op of the two geometrically adjacent "
              "inputs with out-of-range neighbours from the rule in force; multi-axis = composition in the given order; to=None "
              "= documented default shift. Cell counts, extra-dimension sizes, data and fill values are universally quantified; "
              "operator x shift x rule (all 96) and spellings/layouts are enumerated. Plus per-function contracts of the 4 stencil "
              "helpers and the 32 decorated ufuncs (signature, body, boundary_width re-derived from axis geometry); the request under proof also "
              "after other requests on the same Grid object; the input array is unchanged (no write through a shared buffer)."),
        design_ref="DESIGN.md 7/C01",
        note=COMMON_NOTE + "Callees are inlined into the top-level proof (stronger than modular use of their contracts); the "
             "signature text matching runs concretely on the enumerated axis names (its contract is C15/C13).",
        technique="contract-based deductive verification: symbolic execution of the real functions + z3 VCs",
    ),
    "C09": dict(
        category="proof",
        text=("Deductive proof of the contract of the real Grid.cumsum for each of the 8 shifts x 3 rules x spellings: "
              "out[j] = lead + sum of the inputs lying before target point j (running sum expressed with the assumed "
              "prefix-sum contract of DataArray.cumsum), lead from the rule in force, dims/size/name; every other shift is "
              "refused; several axes = one after another (relational proof on the real code); diff(cumsum(to=outer, fill 0)) "
              "= identity (one unfolding of the prefix-sum recurrence); cumint = cumsum(data*metric) and its last value on "
              "outer/right targets = integrate. Cell counts, extra dims, data and fill values universally quantified. "
              "Order-independence over several axes is a BOUNDED stand-in (n<=3 per axis, all data) - not counted as proved."),
        design_ref="DESIGN.md 7/C09",
        note=COMMON_NOTE + "Assumed: DataArray.cumsum/sum are prefix sums (uninterpreted, canonical per element term). "
             "Order independence for unbounded n needs the exchange of two finite sums (not proved here).",
        technique="contract-based deductive verification: symbolic execution of the real functions + z3 VCs over an uninterpreted prefix-sum contract",
    ),
    "C11": dict(
        category="proof",
        text=("Deductive proof of the contracts of apply_as_grid_ufunc / GridUFunc / as_grid_ufunc with the user function "
              "modelled as an uninterpreted recording function: for every catalogued signature (1-3 inputs, 1-2 outputs, 1-2 "
              "dummy axes, rebinding to differently named real axes) and every way of supplying the options (call, Grid method, "
              "decorator at definition, decorator at call, definition overridden at call, Annotated type hints) the function "
              "receives each input with its signature axes last in signature order, each extended by exactly boundary_width with "
              "the rule / fill value in force (all sizes, data, fill values symbolic), and the outputs carry the dims of the "
              "bound real axes at the output positions with the values the function returned (padded afterwards when "
              "pad_before_func=False); dummy names that are also names of real axes bound to OTHER real axes; every signature axis of every input "
              "moved to another position is refused; the dask option bound at definition / given at call with lazy inputs."),
        design_ref="DESIGN.md 7/C11",
        note=COMMON_NOTE + "Assumed xarray.apply_ufunc contract (core dims last in listed order, broadcast dims first). "
             "Signature catalogue is an enumeration, not all signatures.",
        technique="contract-based deductive verification: symbolic execution of the real functions with an uninterpreted user program + z3 VCs",
    ),
    "C18": dict(
        category="proof",
        text=("Frame conditions proved by symbolic execution of the real public operations with mutation-tracked arguments: "
              "for a catalogue of 29 calls (all public Grid methods, pad, apply_as_grid_ufunc, constructor, transform with stubbed "
              "kernels; scalar and vector; simple and face-connected grids; single and multi axis; well-posed and ill-posed) every "
              "dictionary / list / array argument, the dataset and the Grid's settings are unchanged at every exit, normal or "
              "exceptional, on every path and for all sizes and data. History-independence: by induction over the call sequence, and "
              "directly - every catalogued call is re-executed after each other call / pair of calls on the same Grid and proved to "
              "return the same dims, sizes, coordinates and values (catches caches and other hidden state): 13 near-identical requests "
              "(differing in one respect) in all ordered pairs, metric operations on partially registered grids. In-place arithmetic "
              "and writes through shared data buffers (shallow copies, slices, numpy views handed to ufuncs) are tracked as mutations."),
        design_ref="DESIGN.md 7/C18",
        note=COMMON_NOTE + "Assumes xarray/numpy calls mutate their inputs only through the tracked setters (name, attrs, item "
             "assignment). The catalogue of operations is an enumeration; sequences are covered by the inductive argument, not enumerated.",
        technique="contract-based deductive verification: frame (assigns-nothing) clauses checked by symbolic execution of the real functions",
    ),
    "C19": dict(
        category="proof",
        text=("Deductive proof over a coordinate-token model: for diff/interp/min/max/cumsum on padded, unpadded and cumsum paths, "
              "keep_coords true/false/default, inputs with and without the dataset's coordinates, datasets with full / partial / no "
              "dimension coordinates and 0-D/1-D/N-D auxiliary coordinates: the new dimension carries exactly the dataset's coordinate "
              "of the target position (values and attrs token), untouched dimensions keep theirs, no coordinate on the abandoned "
              "dimension survives, other dataset coordinates are attached iff they fit and keep_coords, nothing else is attached, the "
              "name is kept, and the values satisfy the same specification with and without input labels; calls over two axes (both orders, "
              "padded and unpadded steps mixed) so that nothing leaks between the chained steps; the same name / dims / coordinate "
              "clauses for the five operations with metric_weighted. BOUNDED, not counted as proved: results for lazy input (real dask) "
              "and names / dims of vector components operated across face links (7 two-face tables, real xarray)."),
        design_ref="DESIGN.md 7/C19",
        note=COMMON_NOTE + "Coordinates are abstracted to content tokens; the coordinate-propagation clause of apply_ufunc is assumed.",
        technique="contract-based deductive verification: symbolic execution of the real functions over a coordinate-token model",
    ),
    "C10": dict(
        category="proof",
        text=("Deductive proof of the get_metric contract on the real code (get_metric, iterate_axis_combinations with demonic "
              "frozenset order, interp_like -> interp re-executed symbolically): for every enumerated registry over 1-3 axes, array "
              "position and request order, the result is an admissible choice per the statement (registered for exactly the axes "
              "at the array's position, else one of them interpolated with extend + warning; otherwise a product over a fully "
              "registered partition with largest first block, EACH block's factor being the variable at the array's position if the block has one, "
              "else one of its variables interpolated), KeyError iff none, result "
              "broadcasts against the array; metric values/sizes symbolic and non-uniform. Plus integrate = sum(data*metric) in "
              "any axis order, average = sum(data*w)/sum(w), derivative = diff/metric at the result position, metric_weighted "
              "op = op(data*m)/m' (single and per-axis mapping), average(field constant along the averaged dims) = that constant for any "
              "number of cells and positive weights (finite-sum linearity + positivity lemmas, Lean-checked in the thorough tier)."),
        design_ref="DESIGN.md 7/C10",
        note=COMMON_NOTE + "Products/quotients of two non-constant values are uninterpreted (commutative fmul, fdiv). Registries "
             "are enumerated over a pool (quick: all 1-2-axis registries + 24 sampled 3-axis ones; thorough: all).",
        technique="contract-based deductive verification: symbolic execution of the real functions + z3 VCs (admissible-choice disjunction)",
    ),
    "C16": dict(
        category="proof",
        text=("Data-structure contract of the real Grid.set_metrics / constructor metrics= loop against the abstract view "
              "(axes set, dims set) -> variable: for EVERY well-formed pre-state over the pool and every call (1-3 variables at "
              "pairwise different positions, overwrite T/F, key as tuple or str) the post view equals the one-at-a-time fold from "
              "the statement, refusal (ValueError) iff an occupied slot without overwrite, well-formedness preserved, other keys "
              "and the argument list untouched, the entries of a key in the order of the one-at-a-time registration; positions are sets of "
              "dimensions (two-dimensional variables in both dimension orders); exhaustive over shapes (values play no role), history property by induction."),
        design_ref="DESIGN.md 7/C16",
        note="Finite, exhaustive enumeration of abstract pre-states and calls over a fixed pool (3 positions on X, 2 two-dimensional "
             "variables); obligations are decided by executing the real function on each shape. Trusted: dataset model, CPython.",
        technique="contract-based verification of a data-structure invariant + one-step contract (exhaustive over abstract states), induction over histories",
    ),
    "C17": dict(
        category="proof",
        text=("Deductive proof that the real constructor (Grid.__init__ + _assign_face_connections/check_neighbor) returns "
              "normally iff reciprocal(table): ghost tables with concrete shape and SYMBOLIC contents (every link's face index an "
              "arbitrary integer, reverse flag an arbitrary boolean, axis word enumerated incl. an unknown axis): all 256 shapes "
              "over 2 faces x 1 axis (superset of the 625 tables of the quantifier), all one-slot and (quick: sampled, thorough: "
              "all) two-slot edits of 5 consistent tables over 2 faces x 2 axes and 3 faces; two face dimensions / absent face "
              "dimension refused; accepted tables reach the axes. Random consistent tables up to 6 faces are a BOUNDED stand-in."),
        design_ref="DESIGN.md 7/C17",
        note=COMMON_NOTE + "Symbolic face indices are resolved in the ghost table by forking over its keys.",
        technique="contract-based deductive verification: symbolic execution of the real function + z3 VCs (accept <=> reciprocal)",
    ),
    "C20": dict(
        category="proof",
        text=("Exceptional postconditions proved by symbolic execution of the real functions: on 2 grid layouts, for each catalogued "
              "valid call (diff/interp/min/max/cumsum/derivative/integrate/average/cumint, constructor, apply_as_grid_ufunc with 1-2 "
              "inputs, transform linear/conservative) and every single ill-posing edit from the classes of the statement (axis the "
              "grid lacks, data lacking/having two dims of the axis, shift to the same / an absent position / face to face, unknown "
              "position or boundary word per call and at construction, non-numeric fill value, periodic-axis transform, "
              "non-monotonic or repeated conservative bins, conservative without outer, ufunc inputs on wrong positions / in wrong "
              "number, incl. two-axis arguments partly mis-positioned) the call raises on EVERY path for all sizes and data, while the unedited call "
              "returns normally; each case is additionally run once on the real libraries (BOUNDED: one concrete size), because a library model "
              "stricter than the library would hide an accepted request."),
        design_ref="DESIGN.md 7/C20",
        note=COMMON_NOTE + "Catalogue of calls and edits is an enumeration. Transform kernels are stubbed by uninterpreted recorders "
             "(their contracts are C07/C08). A per-call boundary word never used because all widths are zero is not required to raise.",
        technique="contract-based deductive verification: exceptional postconditions (raises-clauses) by symbolic execution of the real functions",
    ),
    "C07": dict(
        category="proof",
        text=("Kernel: the REAL _interp_1d_conservative function object (only the absent numba decorator dropped) is executed "
              "symbolically for one generic (cell, bin) iteration with all values symbolic; its contribution is proved equal to "
              "overlap-fraction x phi written from the statement (homogeneous cell: the one bin [lo,hi) containing it, last bin "
              "closed); the accumulate-loop shape that justifies the generic iteration is checked on the AST every run. "
              "Conservation (telescoping over contiguous bins), bin merging and non-negativity are z3 lemmas over that "
              "contribution. Wrapper: interp_1d_conservative raises iff bins are not strictly monotonic, hands the kernel the "
              "edges in increasing order and reverses the result along the BIN axis for decreasing bins (any number of columns). "
              "xarray level: transform(method='conservative') passes data / target_data columns (interpolated to the bounds with "
              "extend when given on centres) with the axis as core dim, names the new dimension, attaches bin centres. BOUNDED native parts "
              "(never counted as proved): concrete columns against the statement's overlap formula (both bin orders, thin / homogeneous cells, "
              "values on edges) and real-dask runs chunked over non-axis dimensions (no computation while building, same result)."),
        design_ref="DESIGN.md 2.2, 7/C07",
        note=COMMON_NOTE + "Assumed: guvectorize column independence; accumulate-loop rule + exchange of finite sums; target_data "
             "and bins finite; floats as reals. The design's ghost-sum loop invariants were replaced by the equivalent "
             "generic-iteration + lemma argument (see DESIGN.md 11).",
        technique="contract-based deductive verification: generic-iteration loop rule on the real kernel + z3 lemmas (telescoping induction) + wrapper contracts",
    ),
    "C08": dict(
        category="proof",
        text=("Kernel: the REAL _interp_1d_linear function object executed symbolically (n, m, all values symbolic, strictly "
              "increasing and strictly decreasing theta, mask_edges x bypass_checks) against the assumed np.interp contract: "
              "inside the range the output is the line through the two adjacent (theta, phi) points for either direction, "
              "outside it NaN (mask_edges) or the nearest end value, exactly at the end values not masked; np.interp's "
              "precondition (increasing xp) is an obligation of the kernel. interp_1d_linear: log = same call on logarithms. "
              "transform(method=linear|log): data/target_data columns and levels (per column for an N-D target with target_dim) "
              "reach the kernel with the axis last, flags forwarded, new dimension named after target / target_data / "
              "TRANSFORMED_DIMENSION, result named input+suffix (all four mask_edges x bypass_checks combinations). BOUNDED native parts: blocks "
              "of columns with mixed directions against numpy's interpolant; real-dask runs chunked over non-axis dimensions."),
        design_ref="DESIGN.md 7/C08",
        note=COMMON_NOTE + "Assumed: np.interp / nanmax / nanmin / log contracts; guvectorize column independence; theta finite "
             "and strictly monotonic (the statement's precondition).",
        technique="contract-based deductive verification: symbolic execution of the real kernel against an assumed np.interp contract + wrapper contracts",
    ),
    "C15": dict(
        category="proof",
        text=("(a) PROOF, unbounded: the regular expression the real module builds is parsed with CPython's own regex parser, "
              "turned into an automaton together with the way _parse_signature_from_string applies it (re.match/fullmatch and end "
              "anchor read from the code) and proved language-equivalent to the grammar of the statement by a product "
              "construction; a difference yields the shortest witness string, replayed on the real parser. (b) BOUNDED: "
              "print/parse round trips, spaces, Annotated hints over every argument/pair-count shape and dummy-name pattern of the "
              "quantifier (positions sampled, 3 name alphabets incl. names containing position words) and every single-character "
              "corruption of 300 signatures, verdicts compared with the automaton. (c) BOUNDED: equivalent() <=> consistent "
              "renaming on 1500 pairs, 6 name alphabets, every set-iteration order. (d) BOUNDED: predefined ufunc found for 40 "
              "adversarial axis names."),
        design_ref="DESIGN.md 2.3, 7/C15",
        note="Trusted: CPython's regex parser for the pattern structure and the regex->automaton translation of vp/reglang.py "
             "(conformance-checked against re on 3000 random strings every run). Parts (b)-(d) are bounded stand-ins and are "
             "reported as such in the evidence (they are decided by executing the real functions).",
        technique="contract-based verification: regular-language equivalence (automata product) for acceptance; bounded exhaustive evaluation of the real parser/printer/equivalence for the rest",
    ),
    "C12": dict(
        category="proof",
        text=("Relational proof by demonic set order: in padding, grid_ufunc, comodo, sgrid, metadata_parsers and metrics the names "
              "set/frozenset are bound to versions whose iteration order is an explored choice (all permutations), the "
              "face-connection table and boundary_width are presented in different insertion orders, and any two runs whose "
              "path conditions can hold together are proved (z3) to produce the same dims, the same accept/reject outcome and, "
              "for all sizes/widths/data, the same values INCLUDING halo corner cells; likewise Grid.axes order of COMODO/SGRID "
              "autoparsed grids, equivalent() of signatures (1500 pairs) and the metric product get_metric chooses for three axes "
              "(set/frozenset of the grid namespace demonic as well). "
              "The inventory of set-creating sites is re-read from the AST on every run. BOUNDED native part: the same table and boundary_width "
              "listed in different orders (faces, axes, keys) on the real code give identical arrays."),
        design_ref="DESIGN.md 7/C12",
        note=COMMON_NOTE + "Assumes hash randomisation reaches results only through iteration of set/frozenset of str created "
             "in xgcm's Python code. Structures are enumerated (link shapes, registries, datasets).",
        technique="contract-based relational verification: symbolic execution under demonic set-iteration order + z3 equivalence of the runs",
    ),
    "C14": dict(
        category="proof",
        text=("Round-trip contract proved by symbolic execution of the real parsers and Grid constructor: a dataset generated "
              "from an explicit coords mapping by the COMODO annotation rule (every position set of <= 3 positions containing "
              "center, both shift signs on inner/outer, 1-3 axes, both dimension orders; all coordinate lengths symbolic) or by "
              "the SGRID rule (1-D / 2-D / 2-D+vertical / 3-D, every padding word, with and without a space after ':') parses "
              "back to exactly that mapping; Grid(ds) equals the Grid built from the explicit mapping; SGRID is used iff declared; "
              "user coords together with parsed coords are rejected; the SGRID declaration is recognised in seven spellings of the "
              "Conventions attribute (blank- and comma-separated lists, either order, lower-case key) with stale COMODO attributes present."),
        design_ref="DESIGN.md 7/C14",
        note=COMMON_NOTE + "Attribute strings and names are concrete (str.replace/split run natively); name opacity is C13.",
        technique="contract-based deductive verification: symbolic execution of the real parsers (round-trip postcondition)",
    ),
    "C13": dict(
        category="proof",
        text=("Role-level contracts re-proved under a family of adversarial injective renamings: the stencil operators and cumsum "
              "(5 base calls incl. multi-axis, mappings, default shifts), metric operations with the axis given as plain string / "
              "list / tuple, the grid-ufunc contract with renamed dummy names (6 signatures x 3 ways), transform with arbitrary "
              "target-dimension names, padding across axis-swapping links, SGRID / COMODO parsing with names that are substrings "
              "of each other, and temporary-name clashes: for every renaming (single letters occurring in the position words, names "
              "containing position words, prefixes / substrings of each other, case variants, 12-character names; 14 axis families "
              "x 5 dimension families) the same call is accepted and satisfies the same postcondition for all sizes, data and fill "
              "values - renaming changes nothing but the labels; the full two-axis padded array of a face-connected grid, corner cells "
              "included, is proved equal across six namings incl. ones that invert the alphabetical order of the axes. The quantifier "
              "over renamings is BOUNDED to this family."),
        design_ref="DESIGN.md 7/C13",
        note=COMMON_NOTE + "Parametricity is not proved for all names: the renaming quantifier is a finite adversarial family "
             "(listed in the evidence); within each renaming all numeric content is universally quantified.",
        technique="contract-based deductive verification of role-level contracts, repeated under a finite family of adversarial renamings",
    ),
    "C03": dict(
        category="proof",
        text=("Composition of contracts: (1) C05 (halo = documented cell) and C01 (stencil) proved separately; (2) proved here on the "
              "real code: Grid.diff/interp/min/max on a face-connected grid (generic face of a table of any size, all sizes/data "
              "symbolic, face dimension before/after extra dims) equals the stencil applied to what the real pad() returns for the "
              "ufunc's boundary_width, and that pad() result is re-proved against the C05 halo specification (scalar, one and two "
              "slots); (3) geometry lemma (z3, specification only): for each of f's 4 edges and each of the 4 link "
              "kinds exactly one of the 8 orientations of the neighbouring square makes the documented source cell the affine "
              "continuation of f's lattice - then the halo value equals the undivided field there and the reciprocal link (C17) "
              "serves the neighbour symmetrically. A native two-face cross-check of the lemma's placement model is a BOUNDED stand-in."),
        design_ref="DESIGN.md 7/C03",
        note=COMMON_NOTE + "Face f is placed with the identity orientation (rigid motions of the whole domain leave the statement "
             "invariant); junctions with no matching link kind are not expressible in the format (outside the property).",
        technique="contract-based deductive verification: composition lemma over the C05/C01 contracts (z3) + relational symbolic execution of the real dispatch",
    ),
    "C04": dict(
        category="proof",
        text=("(1) C05 vector clauses proved separately; (2) here on the real code: Grid.diff/interp with {axis: component} and "
              "other_component on a face-connected grid equals the stencil applied to pad()'s result for the vector input, the "
              "dictionaries are not modified, the vector pad() result is re-proved against the C05 partner/sign specification and "
              "diff_2d_vector / interp_2d_vector return both components; (3) geometry lemma (z3): for a C-grid vector on the undivided domain and a neighbour "
              "placed as the non-reversed link kind expresses (identity / quarter turn), the edge value the along-axis diff/interp "
              "needs equals, by the C05 partner/sign semantics, the undivided component on that edge, hence equal cell divergence; "
              "(4) on a grid without face connections the vector form equals the scalar form for all 32 operator/shift pairs "
              "(all sizes and data). A native two-face vector cross-check is a BOUNDED stand-in."),
        design_ref="DESIGN.md 7/C04",
        note=COMMON_NOTE + "Lemma restricted to non-reversed links and components on the left position (the statement's family).",
        technique="contract-based deductive verification: composition lemma over the C05 vector contract (z3) + relational symbolic execution of the real dispatch",
    ),
    "C06": dict(
        category="proof",
        text=("xgcm's side of lazy execution proved on the real code under ASSUMED end-to-end dask contracts: the boundary-chunk merge "
              "pattern (same number of chunks, first/last grow by the widths, sums to the padded length; sizes and widths symbolic, "
              "1-5 chunks), map_overlap called with depth = {numpy axis of the operated dimension after moving core dims last: "
              "boundary width}, boundary='none', trim=False and the unpadded chunks on the correctly padded and re-chunked array, "
              "refusal (NotImplementedError) iff inner/outer or several outputs, no eager evaluation on any path of 19 operations (scalar/vector, simple/face-connected incl. axis-swapping links, several axes with per-axis chunking), lazy inputs "
              "accepted wherever in-memory inputs are with the same dims/coords/sizes/values. The scheduler clause is NOT decidable "
              "by contracts on xgcm; a native run with the real dask (6 chunk layouts x 9 operations x 2 schedulers, compute "
              "counting) is a BOUNDED stand-in."),
        design_ref="DESIGN.md 7/C06, 8",
        note=COMMON_NOTE + "Assumed, not proved: dask.array.map_overlap computes f(A) for a translation-invariant stencil whatever "
             "the chunking; apply_ufunc(dask='parallelized') and the schedulers preserve values; thread interleavings inside dask "
             "are outside what contracts on xgcm can express.",
        technique="contract-based deductive verification of xgcm's side (chunk arithmetic, map_overlap arguments, effect contract for laziness) under assumed dask contracts",
    ),
}

NOT_YET = {}
for i in range(1, 21):
    pid = f"C{i:02d}"
    if pid not in CLAIMED:
        NOT_YET[pid] = "harness not yet built in this session (see DESIGN.md section 7 for the planned contracts)"


def main():
    checks = []
    for pid, c in sorted(CLAIMED.items()):
        checks.append({
            "property_id": pid,
            "quick_cmd": f"./check {pid} --tier quick",
            "thorough_cmd": f"./check {pid} --tier thorough",
            "evidence_file": f"/verif/evidence/{pid}.json",
            "replay_cmd_template": f"./check {pid} --replay {{path}}",
            "engine": "symx",
            "level_claimed": {"category": c["category"], "text": c["text"], "design_ref": c["design_ref"]},
            "level_note": c["note"],
            "technique": c["technique"],
        })
    man = {
        "version": 1,
        "setup_cmd": "./setup.sh",
        "hooks": {
            "guard": "XGCM_VERIF",
            "enable": "no source hooks are needed: the checks import xgcm from /repo's working tree and rebind module-level names (xr, np, len, range, set) at run time",
            "baseline_off_cmd": "cd /repo && /venv/bin/python -m pytest -q -p no:cacheprovider -n 16 --timeout=900",
            "source_commits": [],
            "add_only": True,
        },
        "engines": [
            {"name": "symx", "path": "/verif/vp", "serves_properties": sorted(CLAIMED),
             "kind_free_text": "self-built deductive verifier for Python: symbolic execution of the real function objects under z3-term proxies (all paths), library calls replaced by assumed contract models, obligations discharged by z3"},
        ],
        "checks": checks,
        "notes": "Exit codes: 0 held, 1 violation (replayed natively), 2 undecided, 3 checker broken. See DESIGN.md.",
        "not_applicable": [{"property_id": k, "reason": v} for k, v in sorted(NOT_YET.items())],
    }
    with open(os.path.join(ROOT, "MANIFEST.json"), "w") as f:
        json.dump(man, f, indent=1)
    print("manifest:", len(checks), "claimed;", len(NOT_YET), "not applicable")


if __name__ == "__main__":
    main()
