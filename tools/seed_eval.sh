#!/bin/bash
# tools/seed_eval.sh <seeded-id> [checks...]   apply seeded/<id>/patch.diff to /repo, run the checks (default: all 20), revert.
export VERIF_EVIDENCE_DIR=/verif/.scratch/evidence
# prints which checks report a violation; never leaves /repo modified.
id="$1"; shift
cd /verif
[ -f "seeded/$id/patch.diff" ] || { echo "no seeded/$id/patch.diff"; exit 9; }
git -C /repo diff --quiet || { echo "/repo is dirty"; exit 9; }
git -C /repo apply "/verif/seeded/$id/patch.diff" || { echo "patch does not apply"; exit 9; }
checks="$@"; [ -z "$checks" ] && checks=$(seq -w 1 20 | sed 's/^/C/')
caught=""
for p in $checks; do
  out=$(./check $p --tier quick 2>&1)
  rc=$?
  line=$(echo "$out" | grep -E "^\[C" | tail -1)
  if [ $rc -eq 1 ]; then caught="$caught $p"; echo "CAUGHT by $p: $(echo "$out" | grep -m1 '^VIOLATION')"; 
  elif [ $rc -ne 0 ]; then echo "rc=$rc for $p: $line"; fi
done
git -C /repo checkout -- .
echo "seeded $id caught by:${caught:- NONE}"
