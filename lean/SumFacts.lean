import Mathlib

/-!
Finite-sum facts that the contract proofs of /verif use as lemma schemata and that an SMT solver does not
prove unprompted (they need induction).  Checked by Lean 4 + Mathlib in the thorough tier of C07 and C09.
-/

open Finset

/-- exchange of two finite sums: conservation (C07: sum over bins of sum over cells) and the order
independence of cumsum over several axes (C09) rest on it -/
theorem sum_exchange (a b : ℕ) (f : ℕ → ℕ → ℝ) :
    ∑ i ∈ range a, ∑ j ∈ range b, f i j = ∑ j ∈ range b, ∑ i ∈ range a, f i j :=
  Finset.sum_comm

/-- telescoping: the induction behind "the overlap fractions of contiguous bins add up" (C07) -/
theorem telescope (m : ℕ) (G : ℕ → ℝ) :
    ∑ j ∈ range m, (G (j + 1) - G j) = G m - G 0 :=
  Finset.sum_range_sub G m

/-- prefix sums satisfy the recurrence assumed for `cumsum` (C09): P (k+1) = P k + a k -/
theorem prefix_step (a : ℕ → ℝ) (k : ℕ) :
    ∑ i ∈ range (k + 1), a i = ∑ i ∈ range k, a i + a k :=
  Finset.sum_range_succ a k

/-- accumulate-loop rule, pure part: a sum of per-iteration contributions that are each a constant
multiple of `phi i` is linear in `phi` -/
theorem accumulate_linear (n : ℕ) (alpha phi : ℕ → ℝ) (c : ℝ) :
    ∑ i ∈ range n, alpha i * (c * phi i) = c * ∑ i ∈ range n, alpha i * phi i := by
  rw [Finset.mul_sum]
  apply Finset.sum_congr rfl
  intro i _
  ring

/-- diff of a cumsum is the identity (C09): (P (j+1)) - (P j) = a j -/
theorem diff_cumsum (a : ℕ → ℝ) (j : ℕ) :
    (∑ i ∈ range (j + 1), a i) - (∑ i ∈ range j, a i) = a j := by
  rw [Finset.sum_range_succ]
  ring

/-- linearity of a finite sum in a constant factor (C10: the `sum-linearity` normal form of vp/mxr.PrefixSum) -/
theorem sum_const_mul (n : ℕ) (c : ℝ) (w : ℕ → ℝ) :
    ∑ i ∈ range n, c * w i = c * ∑ i ∈ range n, w i := by
  rw [Finset.mul_sum]

/-- a non-empty sum of positive weights is positive (C10: the denominator of a weighted average) -/
theorem sum_pos_of_pos (n : ℕ) (hn : 0 < n) (w : ℕ → ℝ) (hw : ∀ i, i < n → 0 < w i) :
    0 < ∑ i ∈ range n, w i := by
  apply Finset.sum_pos
  · intro i hi
    exact hw i (Finset.mem_range.mp hi)
  · exact ⟨0, Finset.mem_range.mpr hn⟩

/-- the weighted average of a constant field is the constant (C10 value lemma, any number of cells) -/
theorem weighted_mean_const (n : ℕ) (hn : 0 < n) (c : ℝ) (w : ℕ → ℝ) (hw : ∀ i, i < n → 0 < w i) :
    (∑ i ∈ range n, c * w i) / (∑ i ∈ range n, w i) = c := by
  have h := sum_pos_of_pos n hn w hw
  rw [sum_const_mul]
  field_simp
